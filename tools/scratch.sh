#!/bin/bash
# Scratch copies for trying property-breaking changes without touching /repo or /verif.
#   tools/scratch.sh new  <name>          -> /tmp/vs_<name>/{repo (git worktree of /repo HEAD), verif (copy of /verif sources)}
#   tools/scratch.sh sync <name>          -> re-copy /verif sources (after editing a check)
#   tools/scratch.sh run  <name> <ID> [args]  -> run /tmp/vs_<name>/verif/check <ID> against /tmp/vs_<name>/repo
#   tools/scratch.sh rm   <name>          -> remove worktree, copy and their build output
# Build output goes to $CARGO_TARGET_DIR if set, else /tmp/vs_<name>/target.
set -eu
cmd="${1:?cmd}"; name="${2:?name}"; shift 2
S="/tmp/vs_$name"
sync_verif() {
  mkdir -p "$S/verif"
  rsync -rlpD --checksum --delete --exclude target --exclude evidence --exclude replays --exclude .git --exclude subject /verif/ "$S/verif/"
  ln -sfn "$S/repo" "$S/verif/subject"
  mkdir -p "$S/verif/evidence"
  cp /verif/known_findings.json "$S/verif/" 2>/dev/null || true
}
case "$cmd" in
  new)
    mkdir -p "$S"
    git -C /repo worktree add --detach "$S/repo" HEAD >/dev/null
    sync_verif
    echo "$S" ;;
  sync) sync_verif ;;
  run)
    export CARGO_TARGET_DIR="${CARGO_TARGET_DIR:-$S/target}"
    exec "$S/verif/check" "$@" ;;
  rm)
    git -C /repo worktree remove --force "$S/repo" 2>/dev/null || true
    rm -rf "$S"
    git -C /repo worktree prune ;;
  *) echo "unknown cmd" >&2; exit 2 ;;
esac
