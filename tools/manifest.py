#!/usr/bin/env python3
"""Generates /verif/MANIFEST.json from the table below and validates it against the schema.
Claimed checks are the ones listed in CHECKS; every other property goes to not_applicable
with the reason given in NOT_CLAIMED (default: not yet built)."""
import json, os, sys
ROOT = os.path.dirname(os.path.dirname(os.path.abspath(__file__)))
props = [json.loads(l) for l in open(os.path.join(ROOT, 'properties.jsonl'))]

# id -> (category, technique, level text, level note, design ref)
CHECKS = json.load(open(os.path.join(ROOT, 'tools', 'checks.json')))
NOT_CLAIMED = json.load(open(os.path.join(ROOT, 'tools', 'not_claimed.json')))

checks = []
na = []
for p in props:
    i = p['id']
    if i in CHECKS:
        c = CHECKS[i]
        checks.append({
            'property_id': i,
            'quick_cmd': f'./check {i} --tier quick',
            'thorough_cmd': f'./check {i} --tier thorough',
            'evidence_file': f'/verif/evidence/{i}.json',
            'replay_cmd_template': f'./check {i} --replay {{path}}',
            'engine': c.get('engine', 'fvmc'),
            'level_claimed': {'category': c['category'], 'text': c['text'], 'design_ref': c.get('design_ref', f'DESIGN.md section 5 {i}')},
            'level_note': c['note'],
            'technique': c['technique'],
        })
    else:
        na.append({'property_id': i, 'reason': NOT_CLAIMED.get(i, 'check not built yet in this round; design in DESIGN.md section 5')})

hooks_commits = [l.strip() for l in open(os.path.join(ROOT, 'tools', 'hook_commits.txt')) if l.strip()]
m = {
    'version': 1,
    'setup_cmd': './setup.sh',
    'hooks': {
        'guard': 'cargo feature `verif-hooks` on fuel-crypto and fuel-vm (off by default; the repository workspace never enables it)',
        'enable': 'the harness workspace depends on /repo crates by path (via /verif/subject) with features = ["verif-hooks", ...]; nothing else is needed',
        'baseline_off_cmd': 'cd /repo && cargo nextest run --workspace --no-fail-fast --tool-config-file pb:/w/lib/nextest.toml --profile pb --test-threads 8 --offline',
        'source_commits': hooks_commits,
        'add_only': True,
    },
    'engines': [
        {'name': 'vcore::bfs', 'path': 'harness/vcore/src/bfs.rs', 'serves_properties': sorted(i for i, c in CHECKS.items() if c['category'] == 'model_checking'),
         'kind_free_text': 'explicit-state breadth-first search; every transition calls the real crate function; state keys documented per model'},
        {'name': 'vcore::space', 'path': 'harness/vcore/src/space.rs', 'serves_properties': sorted(i for i, c in CHECKS.items() if c['category'] != 'model_checking'),
         'kind_free_text': 'exhaustive enumeration of finite product / bounded-sequence / deviation-bounded spaces, sharded over 16 cores, deterministic merge'},
    ],
    'checks': checks,
    'not_applicable': na,
    'notes': 'All checks: ./check <ID> --tier quick|thorough; exit 0 held / 1 VIOLATION / 2 machinery error. Known findings in /verif/known_findings.json. See DESIGN.md.',
}
out = os.path.join(ROOT, 'MANIFEST.json')
json.dump(m, open(out, 'w'), indent=1)
try:
    import jsonschema
    jsonschema.validate(m, json.load(open('/root/.vp/MANIFEST.schema.json')))
    print('MANIFEST.json valid;', len(checks), 'checks,', len(na), 'not claimed')
except ImportError:
    print('jsonschema not available; wrote MANIFEST.json unvalidated')
