#!/bin/bash
# tools/run_all.sh [quick|thorough] [IDs...] : runs checks sequentially, prints id, exit code, wall seconds.
tier="${1:-quick}"; shift || true
ids="$@"; [ -z "$ids" ] && ids="$(python3 -c "import json;print(' '.join(c['property_id'] for c in json.load(open('/verif/MANIFEST.json'))['checks']))")"
for i in $ids; do
  s=$(date +%s.%N)
  out="$(/verif/check $i --tier $tier 2>&1)"; rc=$?
  e=$(date +%s.%N)
  printf "%s exit=%d wall=%.1fs %s\n" "$i" "$rc" "$(echo "$e - $s" | bc)" "$(echo "$out" | grep -E '^SUMMARY' | sed 's/SUMMARY property=[A-Z0-9]* tier=[A-Za-z]* //' | cut -c1-150)"
  [ $rc -ne 0 ] && echo "$out" | grep -E "VIOLATION|MACHINERY|key=" | head -5 | cut -c1-300
done
