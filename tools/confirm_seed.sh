#!/bin/bash
# tools/confirm_seed.sh <id-lower e.g. c11> <crate> [<ID>...]
# Confirms an independently produced seeded change from /tmp/adv_<id>_out:
#  (1) patch applies to /repo HEAD, workspace builds, the repository suite passes with it;
#  (2) the demonstration fails with the patch and passes without it;
#  (3) runs the given quick checks against it (scratch copy of the harness).
# Writes /verif/seeded/<id>/{patch.diff,demo/,meta.json,confirm.log}. Serial use only.
set -u
id="$1"; crate="$2"; shift 2
src="/tmp/adv_${id}_out"; out="/verif/seeded/$id"; wt="/tmp/cf_$id"
export CARGO_TARGET_DIR="${CONFIRM_TARGET:-/tmp/tgt_confirm}" CARGO_NET_OFFLINE=true
mkdir -p "$out/demo"; cp "$src/patch.diff" "$out/patch.diff"; cp -r "$src/demo/." "$out/demo/"; cp "$src/meta.json" "$out/adversary_meta.json" 2>/dev/null
log="$out/confirm.log"; : > "$log"
git -C /repo worktree remove --force "$wt" 2>/dev/null; git -C /repo worktree add --detach "$wt" HEAD >>"$log" 2>&1
cd "$wt" || exit 2
applies=false; suite="not run"; demo_with="not run"; demo_without="not run"
if git apply "$out/patch.diff" 2>>"$log"; then applies=true; fi
if $applies; then
  cargo nextest run --workspace --no-fail-fast --tool-config-file pb:/w/lib/nextest.toml --profile pb --test-threads 8 --offline >"$out/suite.log" 2>&1
  suite="$(grep -E "Summary \[" "$out/suite.log" | tail -1 | sed 's/^ *//')"
  fails="$(grep -E "^\s+FAIL " "$out/suite.log" | sed 's/.*) //' | sort -u | tr '\n' ';')"
  # the one load-sensitive test (5 s ntest timeout) is re-run alone if it is the only failure
  if [[ "$fails" == "fuel-vm tests::predicate::synchronous_estimate_predicates_respects_total_tx_gas_limit;" ]]; then
    if cargo nextest run -p fuel-vm --offline --tool-config-file pb:/w/lib/nextest.toml --profile pb -E 'test(synchronous_estimate_predicates_respects_total_tx_gas_limit)' >>"$log" 2>&1; then
      suite="$suite [only failure was the load-sensitive timeout test; passes when re-run alone]"; fails=""
    fi
  fi
  mkdir -p "$crate/tests"; cp "$out/demo/adv_$id.rs" "$crate/tests/adv_$id.rs"
  cargo test -p "$crate" --test "adv_$id" --offline ${CONFIRM_TEST_ARGS:-} >"$out/demo_with_patch.log" 2>&1; demo_with="exit $? : $(grep -E '^test result' "$out/demo_with_patch.log" | tail -1)"
  git apply -R "$out/patch.diff"
  cargo test -p "$crate" --test "adv_$id" --offline ${CONFIRM_TEST_ARGS:-} >"$out/demo_without_patch.log" 2>&1; demo_without="exit $? : $(grep -E '^test result' "$out/demo_without_patch.log" | tail -1)"
fi
cd /verif
checks=""
for cid in "$@"; do
  r="$(CARGO_TARGET_DIR="${CONFIRM_SEEDED_TARGET:-/tmp/tgt_seeded}" /verif/tools/seeded_check.sh "$out/patch.diff" "$cid" 2>&1)"
  echo "$r" >> "$log"
  checks="$checks$(echo "$r" | grep -E "^$cid exit=" ) $(echo "$r" | grep -E '^  key=' | sed 's/ occurrences.*//' | tr '\n' ' ');"
done
git -C /repo worktree remove --force "$wt" 2>/dev/null
python3 - "$id" "$applies" "$suite" "${fails:-}" "$demo_with" "$demo_without" "$checks" <<'PY'
import json, sys, os
id, applies, suite, fails, dw, dwo, checks = sys.argv[1:8]
out = f"/verif/seeded/{id}"
adv = {}
try: adv = json.load(open(f"{out}/adversary_meta.json"))
except Exception: pass
meta = {"property": adv.get("property", id.upper()), "origin": "independent sub-agent given only the property text and a scratch worktree",
  "summary": adv.get("summary"), "needs_to_manifest": adv.get("needs_to_manifest"),
  "confirmed_by_coordinator": {"patch_applies_to_repo_head": applies == "true", "repository_suite_with_patch": suite, "suite_failures": fails,
     "demo_with_patch": dw, "demo_without_patch": dwo, "checks_run_against_patch": checks},
  "how": "tools/confirm_seed.sh (scratch worktree of /repo HEAD; full BASELINE suite command; demo as <crate>/tests/adv_<id>.rs; quick checks via tools/seeded_check.sh)"}
json.dump(meta, open(f"{out}/meta.json", "w"), indent=1)
print(json.dumps(meta["confirmed_by_coordinator"], indent=1))
PY
