#!/bin/bash
# tools/seeded_check.sh <patch.diff> <ID> [<ID>...]
# Applies the patch to a scratch worktree of /repo HEAD and runs the quick check(s) there.
# Prints "<ID> exit=<n>" and the VIOLATION lines. Never touches /repo or /verif sources.
set -u
patch="$(readlink -f "$1")"; shift
name="seed$$"
export CARGO_TARGET_DIR="${CARGO_TARGET_DIR:-/tmp/tgt_seeded}"
/verif/tools/scratch.sh new "$name" >/dev/null || exit 2
trap '/verif/tools/scratch.sh rm "$name"' EXIT
if ! git -C "/tmp/vs_$name/repo" apply "$patch"; then echo "PATCH-DOES-NOT-APPLY"; exit 2; fi
for id in "$@"; do
  out="$(/verif/tools/scratch.sh run "$name" "$id" --tier quick 2>&1)"; rc=$?
  echo "$id exit=$rc"
  echo "$out" | grep -E "^VIOLATION|^  key=|^KNOWN-FINDING|^SUMMARY|MACHINERY" | cut -c1-400 | head -30
done
