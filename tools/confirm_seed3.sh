#!/bin/bash
# tools/confirm_seed3.sh <id-lower e.g. c10> <suffix e.g. c> <crate> [<ID>...]
# Third-round variant of confirm_seed.sh: confirms the change delivered in /tmp/adv_<id>_out inside the
# adversary's own scratch worktree /tmp/adv_<id> (re-created from /repo HEAD + patch.diff, so nothing the
# agent left behind is trusted) with its warm target dir /tmp/adv_<id>_target, and stores it as
# /verif/seeded/<id><suffix>/. Runs: full BASELINE suite with the patch; demo with / without the patch;
# the given quick checks via tools/seeded_check.sh.
set -u
id="$1"; suf="$2"; crate="$3"; shift 3
src="/tmp/adv_${id}_out"; out="/verif/seeded/$id$suf"; wt="/tmp/adv_$id"
export CARGO_TARGET_DIR="/tmp/adv_${id}_target" CARGO_NET_OFFLINE=true
mkdir -p "$out/demo"; cp "$src/patch.diff" "$out/patch.diff"; cp -r "$src/demo/." "$out/demo/"; cp "$src/meta.json" "$out/adversary_meta.json" 2>/dev/null
log="$out/confirm.log"; : > "$log"
cd "$wt" || exit 2
git checkout -- . >>"$log" 2>&1; git clean -fdq >>"$log" 2>&1
applies=false; suite="not run"; demo_with="not run"; demo_without="not run"; fails=""
if git apply "$out/patch.diff" 2>>"$log"; then applies=true; fi
demo="$(ls "$out/demo/"*.rs | head -1)"; tname="$(basename "$demo" .rs)"
if $applies; then
  cargo nextest run --workspace --no-fail-fast --tool-config-file pb:/w/lib/nextest.toml --profile pb --test-threads 8 --offline >"$out/suite.log" 2>&1
  suite="$(grep -E "Summary \[" "$out/suite.log" | tail -1 | sed 's/^ *//')"
  fails="$(grep -E "^\s+FAIL " "$out/suite.log" | sed 's/.*) //' | sort -u | tr '\n' ';')"
  if [[ "$fails" == "fuel-vm tests::predicate::synchronous_estimate_predicates_respects_total_tx_gas_limit;" ]]; then
    if cargo nextest run -p fuel-vm --offline --tool-config-file pb:/w/lib/nextest.toml --profile pb -E 'test(synchronous_estimate_predicates_respects_total_tx_gas_limit)' >>"$log" 2>&1; then
      suite="$suite [only failure was the load-sensitive timeout test; passes when re-run alone]"; fails=""
    fi
  fi
  mkdir -p "$crate/tests"; cp "$demo" "$crate/tests/$tname.rs"
  cargo test -p "$crate" --test "$tname" --offline ${CONFIRM_TEST_ARGS:-} >"$out/demo_with_patch.log" 2>&1; demo_with="exit $? : $(grep -E '^test result' "$out/demo_with_patch.log" | tail -1)"
  git apply -R "$out/patch.diff"
  cargo test -p "$crate" --test "$tname" --offline ${CONFIRM_TEST_ARGS:-} >"$out/demo_without_patch.log" 2>&1; demo_without="exit $? : $(grep -E '^test result' "$out/demo_without_patch.log" | tail -1)"
fi
cd /verif
checks=""
for cid in "$@"; do
  r="$(CARGO_TARGET_DIR="${CONFIRM_SEEDED_TARGET:-/tmp/tgt_seeded}" /verif/tools/seeded_check.sh "$out/patch.diff" "$cid" 2>&1)"
  echo "$r" >> "$log"
  checks="$checks$(echo "$r" | grep -E "^$cid exit=" ) $(echo "$r" | grep -E '^  key=' | sed 's/ occurrences.*//' | tr '\n' ' ');"
done
python3 - "$id$suf" "$applies" "$suite" "${fails:-}" "$demo_with" "$demo_without" "$checks" <<'PY'
import json, sys
id, applies, suite, fails, dw, dwo, checks = sys.argv[1:8]
out = f"/verif/seeded/{id}"
adv = {}
try: adv = json.load(open(f"{out}/adversary_meta.json"))
except Exception: pass
meta = {"property": adv.get("property", id[:3].upper()), "origin": "independent sub-agent (third round) given only the property text and a scratch worktree",
  "summary": adv.get("summary"), "needs_to_manifest": adv.get("needs_to_manifest"),
  "confirmed_by_coordinator": {"patch_applies_to_repo_head": applies == "true", "repository_suite_with_patch": suite, "suite_failures": fails,
     "demo_with_patch": dw, "demo_without_patch": dwo, "checks_run_against_patch": checks},
  "how": "tools/confirm_seed3.sh (scratch worktree reset to /repo HEAD + patch.diff; full BASELINE suite command; demo as <crate>/tests/<demo>.rs; quick checks via tools/seeded_check.sh)"}
json.dump(meta, open(f"{out}/meta.json", "w"), indent=1)
print(json.dumps(meta["confirmed_by_coordinator"], indent=1))
PY
