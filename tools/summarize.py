#!/usr/bin/env python3
"""Prints a markdown table of measured coverage per property from evidence/ (quick) and evidence_thorough/."""
import json, os, glob
def load(d):
    r = {}
    for f in glob.glob(f'/verif/{d}/*.json'):
        e = json.load(open(f)); r[e['property_id']] = e
    return r
q, t = load('evidence'), load('evidence_thorough')
m = json.load(open('/verif/MANIFEST.json'))
def cell(e):
    if not e: return '–'
    c = e['coverage']
    s = f"{c.get('evaluations',0):,} evals"
    if c.get('states'): s += f", {c['states']:,} states / {c.get('transitions',0):,} transitions"
    s += f", {c.get('distinct_nontrivial',0):,} distinct, {e['wall_s']:.0f} s"
    if not c.get('exhaustive', True): s += " (capped)"
    return s
print("| id | level | quick (measured) | thorough (measured) |")
print("|----|-------|------------------|---------------------|")
for ch in m['checks']:
    i = ch['property_id']
    print(f"| {i} | {ch['level_claimed']['category']} | {cell(q.get(i))} | {cell(t.get(i))} |")
