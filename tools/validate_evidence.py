#!/usr/bin/env python3
import json, sys, glob, jsonschema
sch = json.load(open('/root/.vp/EVIDENCE.schema.json'))
m = json.load(open('/verif/MANIFEST.json'))
lv = {c['property_id']: c['level_claimed']['category'] for c in m['checks']}
bad = 0
for f in sorted(glob.glob('/verif/evidence/*.json')):
    e = json.load(open(f))
    try:
        jsonschema.validate(e, sch)
        pid = e['property_id']
        note = ''
        if pid in lv and lv[pid] != e['level']:
            note = f' LEVEL MISMATCH manifest={lv[pid]} evidence={e["level"]}'; bad += 1
        c = e['coverage']
        print(f"{pid} {'LEVEL-MISMATCH' if note else 'ok'} tier={e['tier']} level={e['level']} evals={c.get('evaluations')} distinct={c.get('distinct_nontrivial')} states={c.get('states')} samples={len(c.get('samples',[]))} exhaustive={c.get('exhaustive')} wall={e['wall_s']:.1f}{note}")
    except Exception as ex:
        bad += 1
        print(f, 'INVALID', str(ex)[:200])
sys.exit(1 if bad else 0)
