#!/usr/bin/env python3
"""Prints the prompt for an independent seeded-change agent for property <ID> (only the property text, nothing from /verif)."""
import json, sys
pid = sys.argv[1]
p = next(json.loads(l) for l in open('/verif/properties.jsonl') if json.loads(l)['id'] == pid)
n = pid.lower()
print(f"""You are working on the FuelLabs/fuel-vm Rust workspace (a register-based blockchain VM with its transaction types, Merkle trees and crypto helpers). Your private copy is the git worktree /tmp/adv_{n} (already created for you). Work ONLY inside /tmp/adv_{n}, /tmp/adv_{n}_target (cargo target dir) and /tmp/adv_{n}_out (your deliverables). Do not read, list or modify /repo, /verif, or any other directory; do not commit; no network is available (cargo must run with --offline).

A semantic property of this code base:

  Title: {p['title']}
  Statement: {p['statement']}
  Quantified over: {p['quantifier']['text']}

Your task: act as a fault injector. Make ONE realistic change to the library source code (not to tests, not to Cargo files) that BREAKS this property, while the workspace still compiles and the repository's existing test suite still passes. Prefer a change that needs something specific to manifest — a particular multi-step sequence of operations, an unusual input (boundary length, rarely combined variants), a fault at a particular point, a particular ordering, or two cooperating sites that each look fine alone — not one that ordinary use would expose at once. It should look like a plausible bug a maintainer could introduce (wrong boundary, a step skipped on a rare path, state not reset, wrong field used), not sabotage like `if x == 12345`.

Deliver in /tmp/adv_{n}_out/:
  1. patch.diff — `git diff` of your source change (library code only).
  2. a demonstration — a new test file (e.g. <crate>/tests/adv_{n}.rs or a #[test] in a NEW file wired only through the crate's tests/ directory) or a tiny example program, that FAILS with your change applied and PASSES on the original code. Save the file(s) under /tmp/adv_{n}_out/demo/ with a README line saying where each file goes and the exact command to run it.
  3. meta.json — {{"property": "{pid}", "summary": "...", "needs_to_manifest": "...", "files_changed": [...], "commands": [{{"cmd": "...", "result": "..."}}]}}.

You must verify all three claims yourself and record the commands and outcomes in meta.json:
  (a) it compiles: `CARGO_TARGET_DIR=/tmp/adv_{n}_target cargo build --workspace --offline`;
  (b) the EXISTING tests still pass with the change (without your demo file present): run `cd /tmp/adv_{n} && CARGO_TARGET_DIR=/tmp/adv_{n}_target cargo nextest run --workspace --no-fail-fast --tool-config-file pb:/w/lib/nextest.toml --profile pb --test-threads 6 --offline` (baseline: 3116 tests pass, 1 skipped). If some test fails, your change is not acceptable — find another one. Other agents share the machine, so builds can be slow; be patient (first build can take 10-20 minutes).
  (c) the demonstration fails with the change and passes without it (use `git stash` / `git apply -R` to compare).
When done, delete /tmp/adv_{n}_target (it is large), leave the worktree with your change applied, and reply with a short summary: what you changed, why the tests miss it, what it needs to manifest.""")
