# Round-0 notes: patch texts that were pre-validated against the unedited repository suite
# (scratch copies only; nothing here has been applied to /repo).  Data only.
# FIXES: candidate `fix:` commits (suite stays 3116/3116 green) - lists of (file, old, new).
# MUTANTS_*: seeded changes as used by the vetting scripts: name -> (crate, file, old, new, expected_count)
#   (first batch: name -> (file, old, new)).  Entries with old=None were applied by a small custom rule
#   described in DESIGN.md section 9.1.  SUITE_SURVIVORS lists the ones the repository tests do not notice.

FIXES = {
 'F1_reset': [('fuel-merkle/src/binary/merkle_tree.rs', "    pub fn reset(&mut self) {\n        self.nodes.clear();\n", "    pub fn reset(&mut self) {\n        self.nodes.clear();\n        self.leaves_count = 0;\n")],
 'F3_verify': [('fuel-merkle/src/binary/verify.rs',
"""        let subtree_size = 1u64 << height;
        #[allow(clippy::arithmetic_side_effects)] // floor(a / b) * b <= a
        let subtree_start_index = proof_index / subtree_size * subtree_size;
        #[allow(clippy::arithmetic_side_effects)]
        let subtree_end_index = subtree_start_index + subtree_size - 1;
""",
"""        let Some(subtree_size) = u32::try_from(height)
            .ok()
            .and_then(|h| 1u64.checked_shl(h))
        else {
            break
        };
        #[allow(clippy::arithmetic_side_effects)] // floor(a / b) * b <= a
        let subtree_start_index = proof_index / subtree_size * subtree_size;
        #[allow(clippy::arithmetic_side_effects)] // subtree_size >= 1
        let Some(subtree_end_index) = subtree_start_index.checked_add(subtree_size - 1)
        else {
            break
        };
""")],
 'F5_call_order': [('fuel-vm/src/interpreter/flow.rs',
"""        let code_size = contract_size(&self.storage, call.to())? as usize;
""",
"""        self.verifier.check_contract_in_inputs(
            self.panic_context,
            self.input_contracts,
            call.to(),
        )?;

        let code_size = contract_size(&self.storage, call.to())? as usize;
"""), ('fuel-vm/src/interpreter/flow.rs',
"""        self.verifier.check_contract_in_inputs(
            self.panic_context,
            self.input_contracts,
            call.to(),
        )?;

        // credit contract asset_id balance
""", """        // credit contract asset_id balance
""")],
 'F6_upgrade_restore': [('fuel-vm/src/interpreter/executors/main.rs',
"""                if prev.is_some() {
                    return Err(InterpreterError::Panic(
                        PanicReason::OverridingConsensusParameters,
                    ));
                }
""",
"""                if let Some(prev) = prev {
                    storage
                        .set_consensus_parameters(next_version, &prev)
                        .map_err(RuntimeError::Storage)?;
                    return Err(InterpreterError::Panic(
                        PanicReason::OverridingConsensusParameters,
                    ));
                }
"""), ('fuel-vm/src/interpreter/executors/main.rs',
"""                if prev.is_some() {
                    return Err(InterpreterError::Panic(
                        PanicReason::OverridingStateTransactionBytecode,
                    ));
                }
""",
"""                if let Some(prev) = prev {
                    storage
                        .set_state_transition_bytecode(next_version, &prev)
                        .map_err(RuntimeError::Storage)?;
                    return Err(InterpreterError::Panic(
                        PanicReason::OverridingStateTransactionBytecode,
                    ));
                }
""")],
 'F7_rollback': [('fuel-vm/src/interpreter/memory.rs',
"""        let stack_changes =
            get_changes(&self.stack[..sp], &desired_memory_state.stack[..sp], 0);
""",
"""        let common = sp.min(self.stack.len());
        let mut stack_changes = get_changes(
            &self.stack[..common],
            &desired_memory_state.stack[..common],
            0,
        );
        if common < sp {
            stack_changes.push(MemorySliceChange {
                global_start: common,
                data: desired_memory_state.stack[common..sp].to_vec(),
            });
        }
""")],
}

MUTANTS_MUTANTS = {
 'C23_heap_nofill': ('fuel-vm/src/interpreter/memory.rs', "            self.heap[start..end].fill(0);\n", "            let _ = (start, end);\n"),
 'C13_no_store_merged_leaf': ('fuel-merkle/src/sparse/merkle_tree.rs', """                current_node =
                    Node::create_node_on_path(path, &current_node, actual_leaf_node);
                self.storage
                    .insert(current_node.hash(), &current_node.as_ref().into())?;
""", """                current_node =
                    Node::create_node_on_path(path, &current_node, actual_leaf_node);
"""),
 'C26_mcp_as_mcl': ('fuel-vm/src/interpreter/executors/opcodes_impl.rs', "interpreter.dependent_gas_charge(interpreter.gas_costs().mcp(), len)?;", "interpreter.dependent_gas_charge(interpreter.gas_costs().mcl(), len)?;"),
 'C33_clear_keeps_cache': ('fuel-vm/src/interpreter/storage.rs', "            self.storage_slot_cache.insert(cache_key, None);\n", "            let _ = cache_key;\n"),
 'C34_flag_not_cleared': ('fuel-vm/src/interpreter/flow.rs', "        *self.registers.system_registers.flag = 0;\n", ""),
 'C25_fetch_gt_ssp': ('fuel-vm/src/interpreter/executors/instruction.rs', "pc >= self.registers[RegId::SSP]", "pc > self.registers[RegId::SSP]"),
 'C28_receipt_slot': ('fuel-vm/src/interpreter/receipts.rs', "|| (self.receipts.len() == Self::MAX_RECEIPTS - 2", "|| (self.receipts.len() == Self::MAX_RECEIPTS - 3"),
 'C10_pathlen': ('fuel-merkle/src/binary/verify.rs', "if num_leaves_left_subtree == 1 || subtree_leaves <= 1 {", "if num_leaves_left_subtree == 1 || subtree_leaves < 1 {"),
 'C04_msgdata_pred_offset': ('fuel-tx/src/transaction/types/input.rs', "o.saturating_add(bytes::padded_len(data).unwrap_or(usize::MAX))", "o.saturating_add(data.len())"),
 'C21_mlog_err': ('fuel-vm/src/interpreter/executors/opcodes_impl.rs', "lhs == 0 || rhs <= 1,", "lhs == 0 || rhs == 0,"),
}

MUTANTS_BATCH2 = {
 'C23_realloc_nofill': ('fuel-vm','fuel-vm/src/interpreter/memory.rs', "                self.heap[..end].fill(0);\n", "                let _ = end;\n",1),
 'C23_no_stack_truncate': ('fuel-vm','fuel-vm/src/interpreter/memory.rs', "        self.stack.truncate(new_hp);\n", "",1),
 'C12_delete_find_next': ('fuel-merkle','fuel-merkle/src/sparse/merkle_tree.rs', ".find(|side_node| *side_node != Node::Placeholder.hash())", ".next()",1),
 'C12_fromset_ge': ('fuel-merkle','fuel-merkle/src/sparse/merkle_tree.rs', "*right_proximity > left_proximity", "*right_proximity >= left_proximity",1),
 'C01_policies_size': ('fuel-tx','fuel-tx/src/transaction/policies.rs', "self.bits.bits().count_ones() as usize * Word::MIN.size()", "(self.bits.bits() & 0x1f).count_ones() as usize * Word::MIN.size()",1),
 'C18_floor': ('fuel-tx','fuel-tx/src/transaction/fee.rs', "total_price.div_ceil(factor as u128)", "total_price / (factor as u128)",1),
 'C20_gas_mismatch': ('fuel-vm','fuel-vm/src/interpreter/executors/main.rs', "if vm.remaining_gas() != 0 {", "if vm.remaining_gas() > 1 {",1),
 'C31_cache_not_cleared': ('fuel-vm','fuel-vm/src/interpreter/initialization.rs', "        self.storage_slot_cache.clear();\n", "",1),
 'C32_no_take': ('fuel-vm','fuel-vm/src/state/debugger.rs', "let last_state = self.last_state.take();", "let last_state = self.last_state.clone();",1),
 'C35_subsection_gt': ('fuel-vm','fuel-vm/src/interpreter/executors/main.rs', "if *upload.subsection_index() != index_of_next_subsection {", "if *upload.subsection_index() > index_of_next_subsection {",1),
 'C36_blob_zerofill_eq': ('fuel-vm','fuel-vm/src/storage/memory.rs', """        let total_len = data.as_ref().len();
        let Some((_, after)) = data.as_ref().split_at_checked(offset) else {
            return Ok(Err(StorageReadError::OutOfBounds));
        };
        let (dst, rest) = buf.split_at_mut(after.len().min(buf.len()));
        dst.copy_from_slice(&after[..dst.len()]);
        rest.fill(0);
        Ok(Ok(total_len))
    }

    fn read_alloc(
        &self,
        key: &<BlobData as Mappable>::Key,""", """        let total_len = data.as_ref().len();
        if offset >= total_len {
            return Ok(Err(StorageReadError::OutOfBounds));
        }
        let Some((_, after)) = data.as_ref().split_at_checked(offset) else {
            return Ok(Err(StorageReadError::OutOfBounds));
        };
        let (dst, rest) = buf.split_at_mut(after.len().min(buf.len()));
        dst.copy_from_slice(&after[..dst.len()]);
        rest.fill(0);
        Ok(Ok(total_len))
    }

    fn read_alloc(
        &self,
        key: &<BlobData as Mappable>::Key,""",1),
 'C24_ecop_noowner': ('fuel-vm','fuel-vm/src/interpreter/crypto.rs', "memory.write_bytes(owner, dst, output)?;", "memory.write_bytes_noownerchecks(dst, output)?;",2),
 'C30_csiz_nocheck': ('fuel-vm','fuel-vm/src/interpreter/blockchain.rs', None, None, 0),
 'C19_dup_change': ('fuel-tx','fuel-tx/src/transaction/validity.rs', """                .count()
                > 1""", """                .count()
                > 2""",1),
 'C03_msg_gas_not_zeroed': ('fuel-tx','fuel-tx/src/transaction/types/input/message.rs', """    pub fn prepare_sign(&mut self) {
        if let Some(predicate_gas_used_field) = self.predicate_gas_used.as_mut_field() {
            *predicate_gas_used_field = Default::default();
        }
    }""", """    pub fn prepare_sign(&mut self) {}""",1),
}

MUTANTS_BATCH3 = {
 'C34_caller_flag_zeroed': ('fuel-vm','fuel-vm/src/interpreter/flow.rs', "            registers[RegId::HP] = hp;\n", "            registers[RegId::HP] = hp;\n            registers[RegId::FLAG] = 0;\n",1),
 'C28_variable_not_zeroed': ('fuel-vm','fuel-vm/src/interpreter.rs', """            Output::Variable { amount, .. } if revert => {
                *amount = 0;
                Ok(())
            }""", """            Output::Variable { .. } if revert => Ok(()),""",1),
 'C33_supd_maxlen_off_by_one': ('fuel-vm','fuel-vm/src/interpreter/storage.rs', "        if (len_after as u64) > max_size {", "        if (len_after as u64) >= max_size {",1),
 'C14_excl_no_keycheck': ('fuel-merkle','fuel-merkle/src/sparse/proof.rs', """        if let ExclusionLeaf::Leaf(data) = leaf
            && data.leaf_key == key.as_ref()
        {
            return false;
        }
""", "",1),
 'C02_no_vec_limit': ('fuel-types','fuel-types/src/canonical.rs', """        let cap: usize = cap.try_into().map_err(|_| Error::AllocationLimit)?;
        if cap > VEC_DECODE_LIMIT {
            return Err(Error::AllocationLimit)
        }
""", """        let cap: usize = cap.try_into().map_err(|_| Error::AllocationLimit)?;
""",1),
 'C08_imm12_mask': ('fuel-asm','fuel-asm/src/unpack.rs', "    Imm12::new(u as u16)\n", "    Imm12::new((u as u16) & 0x7ff)\n",1),
 'C29_noop_free': ('fuel-tx','fuel-tx/src/transaction/consensus_parameters/gas/default_gas_costs.rs', "        niop: 1,\n        noop: 1,\n", "        niop: 1,\n        noop: 0,\n", None),
 'C05_msg_preddata_ptr': ('fuel-vm','fuel-vm/src/interpreter/metadata.rs', """            GTFArgs::InputMessagePredicateData => ofs.saturating_add(
                tx.inputs()
                    .get(b)
                    .filter(|i| i.is_message())
                    .and_then(Input::predicate_data_offset)""", """            GTFArgs::InputMessagePredicateData => ofs.saturating_add(
                tx.inputs()
                    .get(b)
                    .filter(|i| i.is_message())
                    .and_then(Input::predicate_offset)""",1),
 'C22_wide_shr_as_zero_on_64': ('fuel-vm','fuel-vm/src/interpreter/alu/wideint.rs', """                    MathOp::SHR => {
                        if let Ok(rhs) = rhs.try_into() {
                            ($t::checked_shr(lhs, rhs).unwrap_or_default(), false)""", """                    MathOp::SHR => {
                        if let Ok(rhs) = u8::try_from(rhs) {
                            ($t::checked_shr(lhs, rhs.into()).unwrap_or_default(), false)""",1),
 'C27_tro_no_balance_check': ('fuel-vm','fuel-vm/src/interpreter/contract.rs', None, None, 0),
 'C17_r1_single_recid': ('fuel-crypto','fuel-crypto/src/secp256/backend/r1/p256.rs', None, None, 0),
 'C09_rootcalc': ('fuel-merkle','fuel-merkle/src/binary/root_calculator.rs', None, None, 0),
}

MUTANTS_BATCH4 = {
 'C04_cached_witness_offset': ('fuel-tx','fuel-tx/src/transaction/metadata.rs', ".checked_add(witnesses.size())", ".checked_add(witnesses.size_static().saturating_add(witnesses.as_ref().len()))",1),
 'C10_single_leaf_extra_proof': ('fuel-merkle','fuel-merkle/src/binary/verify.rs', """    if num_leaves <= 1 {
        if !proof_set.is_empty() {
            return false;
        }
    } else if""", """    if num_leaves <= 1 {
    } else if""",1),
 'C19_coin_asset_from_messages': ('fuel-tx','fuel-tx/src/transaction/validity.rs', """            if let Output::Coin { asset_id, .. } = output
                && !tx
                    .input_asset_ids(base_asset_id)
                    .any(|input_asset_id| input_asset_id == asset_id)""", """            if let Output::Coin { asset_id, .. } = output
                && !tx
                    .inputs()
                    .iter()
                    .filter(|i| i.is_coin())
                    .filter_map(|i| i.asset_id(base_asset_id))
                    .any(|input_asset_id| input_asset_id == asset_id)""",1),
 'C21_exp_zero_base': ('fuel-vm','fuel-vm/src/interpreter/alu.rs', """    } else if b < 2 {
        (b, false)""", """    } else if b < 2 {
        (1, false)""",1),
 'C23_rollback_no_resize': ('fuel-vm','fuel-vm/src/interpreter/memory.rs', "        self.stack.resize(data.sp, 0);\n", "        if self.stack.len() < data.sp {\n            self.stack.resize(data.sp, 0);\n        }\n",1),
 'C06_owner_legacy_on_serialize': ('fuel-tx','fuel-tx/src/transaction/policies.rs', None, None, 0),
 'C15_predicate_owner_no_seed': ('fuel-tx','fuel-tx/src/transaction/types/input.rs', "        hasher.input(ContractId::SEED);\n        hasher.input(root);\n", "        hasher.input(root);\n",1),
 'C27_nonbase_change_on_revert': ('fuel-vm','fuel-vm/src/interpreter.rs', """            } if revert => {
                *amount = initial_balances.non_retryable[asset_id];
                Ok(())
            }""", """            } if revert => {
                *amount = balances[asset_id];
                Ok(())
            }""",1),
}

MUTANTS_BATCH5 = {
 'C17_ed25519_nonstrict': ('fuel-crypto','fuel-crypto/src/ed25519.rs', "    if pub_key.verify_strict(message, &signature).is_ok() {", "    if ed25519_dalek::Verifier::verify(&pub_key, message, &signature).is_ok() {",1),
 'C34_err_leaks': ('fuel-vm','fuel-vm/src/interpreter/flow.rs', """            let hp = registers[RegId::HP];

            registers.copy_from_slice(frame.registers());
""", """            let hp = registers[RegId::HP];
            let err = registers[RegId::ERR];

            registers.copy_from_slice(frame.registers());
            registers[RegId::ERR] = err;
""",1),
}

MUTANTS_BATCH6 = {
 'C24_cb_noowner': ('fuel-vm','fuel-vm/src/interpreter/blockchain.rs', "    memory.write_bytes(owner, a, *coinbase)?;", "    let _ = owner;\n    memory.write_bytes_noownerchecks(a, *coinbase)?;",1),
 'C24_srwq_noowner': ('fuel-vm','fuel-vm/src/interpreter/executors/opcodes_impl.rs', "                let dst = memory.write(owner, dst_ptr, 32u64)?;", "                let _ = owner;\n                let dst = memory.write_noownerchecks(dst_ptr, 32u64)?;",1),
 'C05_created_state_root_ptr': ('fuel-vm','fuel-vm/src/interpreter/metadata.rs', "                    .and_then(|r| r.contract_created_state_root_offset())", "                    .and_then(|r| r.contract_id_offset())",1),
 'C04_storage_slot_offset_past_end': ('fuel-tx','fuel-tx/src/transaction/types/create.rs', "            if idx < self.body.storage_slots.len() {", "            if idx <= self.body.storage_slots.len() {",1),
 'C08_reserved_rr_partial': ('fuel-asm','fuel-asm/src/macros.rs', """            let (_, _, imm) = unpack::ra_rb_imm12_from_bytes(self.0);
            imm.0 == 0""", """            let (_, _, _, imm) = unpack::ra_rb_rc_imm06_from_bytes(self.0);
            imm.0 == 0""",1),
}

MUTANTS_BATCH7 = {
 'C13_fromset_top_nodes_not_stored': ('fuel-merkle','fuel-merkle/src/sparse/merkle_tree.rs', "            node = Node::create_node_on_path(&path, &node, &placeholder);\n            storage.insert(node.hash(), &node.as_ref().into())?;\n", "            node = Node::create_node_on_path(&path, &node, &placeholder);\n",1),
 'C22_muldiv_zero_divisor': ('fuel-vm','fuel-vm/src/interpreter/alu/wideint.rs', "unwrap_or(product_div_max)", "unwrap_or_default()",1),
 'C34_unpadded_code_in_stack': ('fuel-vm','fuel-vm/src/interpreter/flow.rs', ".checked_add(code_size_padded)", ".checked_add(code_size)",1),
}

SUITE_SURVIVORS = ['C02_no_vec_limit','C03_msg_gas_not_zeroed','C10_single_leaf_extra_proof','C14_excl_no_keycheck','C15_predicate_owner_no_seed','C17_ed25519_nonstrict','C19_coin_asset_from_messages','C20_gas_mismatch','C21_exp_zero_base','C25_fetch_gt_ssp','C26_mcp_as_mcl','C28_variable_not_zeroed','C29_noop_free','C31_cache_not_cleared','C33_supd_maxlen_off_by_one','C36_blob_zerofill_eq','C24_cb_noowner','C24_srwq_noowner','C04_storage_slot_offset_past_end','C05_upload_proof_index_past_end','C34_context_not_restored']

MUTANTS_BATCH9 = {
 'C34_context_not_restored': ('fuel-vm','fuel-vm/src/interpreter/flow.rs', "            set_frame_pointer(context, registers.fp_mut(), fp);\n", "            let _ = (&context, fp);\n",1),
 'C05_upload_proof_index_past_end': ('fuel-tx','fuel-tx/src/transaction/types/upload.rs', "            if idx < self.body.proof_set.len() {", "            if idx <= self.body.proof_set.len() {",1),
}

MUTANTS_BATCH8 = {
 'C06_policies_json_new_layout': ('fuel-tx','fuel-tx/src/transaction/policies.rs', """                                    if bits.contains(bit) {
                                        tmp_values[index] =
                                                *decoded_values""", """                                    if bits.contains(bit) {
                                        tmp_values[decoded_index] =
                                                *decoded_values""",1),
}
