//! Panic capture. Subject calls run under `catch`; the panic message is returned.

use std::{
    cell::RefCell,
    panic::{
        catch_unwind,
        UnwindSafe,
    },
};

thread_local! {
    static LAST: RefCell<Option<String>> = const { RefCell::new(None) };
}

pub fn install_quiet_hook() {
    std::panic::set_hook(Box::new(|info| {
        let msg = if let Some(s) = info.payload().downcast_ref::<&str>() {
            s.to_string()
        } else if let Some(s) = info.payload().downcast_ref::<String>() {
            s.clone()
        } else {
            "<non-string panic>".to_string()
        };
        let loc = info
            .location()
            .map(|l| format!(" at {}:{}", l.file(), l.line()))
            .unwrap_or_default();
        LAST.with(|l| *l.borrow_mut() = Some(format!("{msg}{loc}")));
    }));
}

/// Run `f`; on unwind return the panic message (with location).
pub fn catch<T>(f: impl FnOnce() -> T + UnwindSafe) -> Result<T, String> {
    match catch_unwind(f) {
        Ok(v) => Ok(v),
        Err(_) => Err(LAST
            .with(|l| l.borrow_mut().take())
            .unwrap_or_else(|| "<panic>".to_string())),
    }
}

/// `catch` for closures borrowing non-UnwindSafe state (the harness never reuses
/// subject state after an unwind without saying so).
pub fn catch_any<T>(f: impl FnOnce() -> T) -> Result<T, String> {
    catch(std::panic::AssertUnwindSafe(f))
}
