//! Boring reference implementations. Nothing here uses fuel-merkle / fuel-vm code.

use sha2::{
    Digest,
    Sha256,
};
use std::collections::BTreeMap;

pub type H256 = [u8; 32];

pub fn sha256(parts: &[&[u8]]) -> H256 {
    let mut h = Sha256::new();
    for p in parts {
        h.update(p);
    }
    h.finalize().into()
}

// ---------------------------------------------------------------- RFC 6962

pub fn leaf_hash(d: &[u8]) -> H256 {
    sha256(&[&[0u8], d])
}

pub fn node_hash(l: &H256, r: &H256) -> H256 {
    sha256(&[&[1u8], l, r])
}

/// RFC 6962 §2.1 Merkle Tree Hash over already-hashed leaves.
pub fn mth_hashed(leaves: &[H256]) -> H256 {
    match leaves.len() {
        0 => sha256(&[]),
        1 => leaves[0],
        n => {
            let k = largest_pow2_below(n);
            node_hash(&mth_hashed(&leaves[..k]), &mth_hashed(&leaves[k..]))
        }
    }
}

/// RFC 6962 §2.1 Merkle Tree Hash over leaf data.
pub fn mth<T: AsRef<[u8]>>(leaves: &[T]) -> H256 {
    let hs: Vec<H256> = leaves.iter().map(|l| leaf_hash(l.as_ref())).collect();
    mth_hashed(&hs)
}

fn largest_pow2_below(n: usize) -> usize {
    // largest power of two strictly smaller than n (n >= 2)
    let mut k = 1usize;
    while k * 2 < n {
        k *= 2;
    }
    k
}

/// RFC 6962 §2.1.1 audit path PATH(m, D[n]), leaf-to-root order.
pub fn audit_path(m: usize, leaves: &[H256]) -> Vec<H256> {
    let n = leaves.len();
    if n <= 1 {
        return vec![]
    }
    let k = largest_pow2_below(n);
    if m < k {
        let mut p = audit_path(m, &leaves[..k]);
        p.push(mth_hashed(&leaves[k..]));
        p
    } else {
        let mut p = audit_path(m - k, &leaves[k..]);
        p.push(mth_hashed(&leaves[..k]));
        p
    }
}

/// RFC 9162 §2.1.3.2: recompute the root from an inclusion path. Returns `None`
/// when the path length does not fit (index, size).
pub fn root_from_path(index: u64, size: u64, leaf: H256, path: &[H256]) -> Option<H256> {
    if size == 0 || index >= size {
        return None
    }
    let mut f = index as u128;
    let mut s = (size - 1) as u128;
    let mut r = leaf;
    for p in path {
        if s == 0 {
            return None
        }
        if f & 1 == 1 || f == s {
            r = node_hash(p, &r);
            if f & 1 == 0 {
                while f & 1 == 0 && f != 0 {
                    f >>= 1;
                    s >>= 1;
                }
            }
        } else {
            r = node_hash(&r, p);
        }
        f >>= 1;
        s >>= 1;
    }
    if s == 0 {
        Some(r)
    } else {
        None
    }
}

// ---------------------------------------------------------------- compact SMT

pub const ZERO: H256 = [0u8; 32];

pub fn smt_leaf(key: &H256, value: &[u8]) -> H256 {
    let vh = sha256(&[value]);
    sha256(&[&[0u8], key, &vh])
}

fn bit(key: &H256, i: usize) -> bool {
    (key[i / 8] >> (7 - (i % 8))) & 1 == 1
}

fn smt_rec(items: &[(&H256, H256)], depth: usize) -> H256 {
    match items.len() {
        0 => ZERO,
        1 => items[0].1,
        _ => {
            // items are sorted by key, so the split point is the first key with bit set
            let split = items.partition_point(|(k, _)| !bit(k, depth));
            let l = smt_rec(&items[..split], depth + 1);
            let r = smt_rec(&items[split..], depth + 1);
            node_hash(&l, &r)
        }
    }
}

/// Compact sparse Merkle root of a key-value map: leaf = H(0x00,key,H(value)),
/// node = H(0x01,l,r), empty subtree = zero, single-leaf subtrees not expanded.
pub fn smt_root(map: &BTreeMap<H256, Vec<u8>>) -> H256 {
    let items: Vec<(&H256, H256)> = map.iter().map(|(k, v)| (k, smt_leaf(k, v))).collect();
    smt_rec(&items, 0)
}

/// Root recomputation for a compact SMT proof: starting from `start` (a leaf hash or
/// ZERO placeholder) and folding the side nodes (leaf-to-root order) along `key`'s
/// bits. The side node at position i (from the leaf) sits at depth
/// `side.len() - 1 - i`.
pub fn smt_fold(key: &H256, start: H256, side: &[H256]) -> H256 {
    let n = side.len();
    let mut cur = start;
    for (i, s) in side.iter().enumerate() {
        let depth = n - 1 - i;
        cur = if bit(key, depth) {
            node_hash(s, &cur)
        } else {
            node_hash(&cur, s)
        };
    }
    cur
}

// ---------------------------------------------------------------- big integers

/// Minimal unsigned big integer (little-endian u32 limbs, always normalised).
#[derive(Clone, Debug, PartialEq, Eq, Hash, Default)]
pub struct Big(pub Vec<u32>);

impl PartialOrd for Big {
    fn partial_cmp(&self, o: &Self) -> Option<std::cmp::Ordering> {
        Some(self.cmp(o))
    }
}

impl Ord for Big {
    fn cmp(&self, o: &Self) -> std::cmp::Ordering {
        if self.0.len() != o.0.len() {
            return self.0.len().cmp(&o.0.len())
        }
        for i in (0..self.0.len()).rev() {
            if self.0[i] != o.0[i] {
                return self.0[i].cmp(&o.0[i])
            }
        }
        std::cmp::Ordering::Equal
    }
}

impl Big {
    fn norm(mut self) -> Self {
        while self.0.last() == Some(&0) {
            self.0.pop();
        }
        self
    }

    pub fn zero() -> Self {
        Big(vec![])
    }

    pub fn one() -> Self {
        Big(vec![1])
    }

    pub fn is_zero(&self) -> bool {
        self.0.is_empty()
    }

    pub fn from_u64(v: u64) -> Self {
        Big(vec![v as u32, (v >> 32) as u32]).norm()
    }

    pub fn from_u128(v: u128) -> Self {
        Big(vec![
            v as u32,
            (v >> 32) as u32,
            (v >> 64) as u32,
            (v >> 96) as u32,
        ])
        .norm()
    }

    pub fn pow2(k: usize) -> Self {
        Big::one().shl(k)
    }

    pub fn from_be(bytes: &[u8]) -> Self {
        let mut limbs = vec![0u32; bytes.len().div_ceil(4)];
        for (i, b) in bytes.iter().rev().enumerate() {
            limbs[i / 4] |= (*b as u32) << (8 * (i % 4));
        }
        Big(limbs).norm()
    }

    /// Low `n` bytes, big-endian (truncating).
    pub fn to_be(&self, n: usize) -> Vec<u8> {
        let mut out = vec![0u8; n];
        for i in 0..n {
            let limb = self.0.get(i / 4).copied().unwrap_or(0);
            out[n - 1 - i] = (limb >> (8 * (i % 4))) as u8;
        }
        out
    }

    pub fn bits(&self) -> usize {
        match self.0.last() {
            None => 0,
            Some(l) => self.0.len() * 32 - l.leading_zeros() as usize,
        }
    }

    pub fn to_u64(&self) -> Option<u64> {
        if self.bits() > 64 {
            return None
        }
        Some(self.0.first().copied().unwrap_or(0) as u64
            | (self.0.get(1).copied().unwrap_or(0) as u64) << 32)
    }

    pub fn to_u128(&self) -> Option<u128> {
        if self.bits() > 128 {
            return None
        }
        let mut v = 0u128;
        for (i, l) in self.0.iter().enumerate() {
            v |= (*l as u128) << (32 * i);
        }
        Some(v)
    }

    pub fn add(&self, o: &Big) -> Big {
        let n = self.0.len().max(o.0.len());
        let mut out = Vec::with_capacity(n + 1);
        let mut c = 0u64;
        for i in 0..n {
            let s = *self.0.get(i).unwrap_or(&0) as u64 + *o.0.get(i).unwrap_or(&0) as u64 + c;
            out.push(s as u32);
            c = s >> 32;
        }
        out.push(c as u32);
        Big(out).norm()
    }

    /// self - o; panics if o > self.
    pub fn sub(&self, o: &Big) -> Big {
        assert!(*self >= *o, "Big::sub underflow");
        let mut out = Vec::with_capacity(self.0.len());
        let mut b = 0i64;
        for i in 0..self.0.len() {
            let mut d = self.0[i] as i64 - *o.0.get(i).unwrap_or(&0) as i64 - b;
            if d < 0 {
                d += 1 << 32;
                b = 1;
            } else {
                b = 0;
            }
            out.push(d as u32);
        }
        Big(out).norm()
    }

    pub fn mul(&self, o: &Big) -> Big {
        if self.is_zero() || o.is_zero() {
            return Big::zero()
        }
        let mut out = vec![0u32; self.0.len() + o.0.len()];
        for i in 0..self.0.len() {
            let mut c = 0u64;
            for j in 0..o.0.len() {
                let t = self.0[i] as u64 * o.0[j] as u64 + out[i + j] as u64 + c;
                out[i + j] = t as u32;
                c = t >> 32;
            }
            out[i + o.0.len()] = c as u32;
        }
        Big(out).norm()
    }

    pub fn shl(&self, k: usize) -> Big {
        if self.is_zero() {
            return Big::zero()
        }
        let (w, b) = (k / 32, k % 32);
        let mut out = vec![0u32; w];
        let mut c = 0u32;
        for l in &self.0 {
            if b == 0 {
                out.push(*l);
            } else {
                out.push((l << b) | c);
                c = l >> (32 - b);
            }
        }
        out.push(c);
        Big(out).norm()
    }

    pub fn shr(&self, k: usize) -> Big {
        let (w, b) = (k / 32, k % 32);
        if w >= self.0.len() {
            return Big::zero()
        }
        let src = &self.0[w..];
        let mut out = Vec::with_capacity(src.len());
        for i in 0..src.len() {
            let lo = src[i] >> b;
            let hi = if b > 0 && i + 1 < src.len() {
                src[i + 1] << (32 - b)
            } else {
                0
            };
            out.push(lo | hi);
        }
        Big(out).norm()
    }

    /// Low k bits.
    pub fn low_bits(&self, k: usize) -> Big {
        let sh = self.shr(k).shl(k);
        self.sub(&sh)
    }

    /// (quotient, remainder); panics on zero divisor. Shift-subtract, starting at
    /// the first bit position where the divisor can fit.
    pub fn divrem(&self, d: &Big) -> (Big, Big) {
        assert!(!d.is_zero(), "Big::divrem by zero");
        if self < d {
            return (Big::zero(), self.clone())
        }
        let shift = self.bits() - d.bits();
        let mut rem = self.clone();
        let mut q = vec![0u32; shift / 32 + 1];
        let mut dd = d.shl(shift);
        for i in (0..=shift).rev() {
            if rem >= dd {
                rem = rem.sub(&dd);
                q[i / 32] |= 1 << (i % 32);
            }
            dd = dd.shr(1);
        }
        (Big(q).norm(), rem)
    }

    pub fn pow(&self, mut e: u64) -> Big {
        let mut base = self.clone();
        let mut acc = Big::one();
        while e > 0 {
            if e & 1 == 1 {
                acc = acc.mul(&base);
            }
            e >>= 1;
            if e > 0 {
                base = base.mul(&base);
            }
        }
        acc
    }
}

#[cfg(test)]
mod tests {
    use super::*;

    #[test]
    fn big_matches_u128() {
        let vals: [u128; 9] = [
            0,
            1,
            2,
            0xffff_ffff,
            0x1_0000_0000,
            u64::MAX as u128,
            u64::MAX as u128 + 1,
            u128::MAX / 3,
            u128::MAX >> 1,
        ];
        for &a in &vals {
            for &b in &vals {
                let (ba, bb) = (Big::from_u128(a), Big::from_u128(b));
                if let Some(s) = a.checked_add(b) {
                    assert_eq!(ba.add(&bb).to_u128(), Some(s));
                }
                if a >= b {
                    assert_eq!(ba.sub(&bb).to_u128(), Some(a - b));
                }
                if let Some(p) = a.checked_mul(b) {
                    assert_eq!(ba.mul(&bb).to_u128(), Some(p));
                }
                if b != 0 {
                    let (q, r) = ba.divrem(&bb);
                    assert_eq!((q.to_u128(), r.to_u128()), (Some(a / b), Some(a % b)));
                }
                assert_eq!(ba.cmp(&bb), a.cmp(&b));
            }
            for k in [0usize, 1, 31, 32, 33, 64, 100] {
                assert_eq!(Big::from_u128(a).shr(k).to_u128(), Some(a.checked_shr(k as u32).unwrap_or(0)));
                if a.leading_zeros() as usize >= k {
                    assert_eq!(Big::from_u128(a).shl(k).to_u128(), Some(a << k));
                }
            }
            assert_eq!(Big::from_be(&a.to_be_bytes()).to_u128(), Some(a));
            assert_eq!(Big::from_u128(a).to_be(16), a.to_be_bytes().to_vec());
        }
        // (2^256-1)^2 / (2^256-1) == 2^256-1
        let m = Big::pow2(256).sub(&Big::one());
        let (q, r) = m.mul(&m).divrem(&m);
        assert_eq!(q, m);
        assert!(r.is_zero());
    }

    #[test]
    fn rfc6962_shapes() {
        let leaves: Vec<H256> = (0..7u8).map(|i| leaf_hash(&[i])).collect();
        let root = mth_hashed(&leaves);
        for i in 0..7 {
            let p = audit_path(i, &leaves);
            assert_eq!(root_from_path(i as u64, 7, leaves[i], &p), Some(root));
        }
    }
}
