//! Harness-owned node storage for the storage-backed Merkle trees: an ordered map
//! behind the public storage traits, shareable (so a "restart" can `load` from what
//! the live tree persisted), inspectable, and able to hide one chosen node.

use fuel_storage::{
    Mappable,
    StorageInspect,
    StorageMutate,
};
use std::{
    borrow::Cow,
    collections::BTreeMap,
    sync::{
        Arc,
        Mutex,
    },
};

#[derive(Debug, Clone, PartialEq, Eq)]
pub struct StoreError;

pub struct Shared<T: Mappable>
where
    T::OwnedKey: Ord,
{
    pub map: Arc<Mutex<BTreeMap<T::OwnedKey, T::OwnedValue>>>,
    /// When set, `get`/`contains_key` behave as if this key were absent.
    pub hidden: Arc<Mutex<Option<T::OwnedKey>>>,
}

impl<T: Mappable> Clone for Shared<T>
where
    T::OwnedKey: Ord,
{
    /// Handle clone: both handles see the same map (like two processes over one DB).
    fn clone(&self) -> Self {
        Shared {
            map: self.map.clone(),
            hidden: self.hidden.clone(),
        }
    }
}

impl<T: Mappable> Default for Shared<T>
where
    T::OwnedKey: Ord,
{
    fn default() -> Self {
        Self::new()
    }
}

impl<T: Mappable> Shared<T>
where
    T::OwnedKey: Ord,
{
    pub fn new() -> Self {
        Shared {
            map: Arc::new(Mutex::new(BTreeMap::new())),
            hidden: Arc::new(Mutex::new(None)),
        }
    }

    pub fn from_map(m: BTreeMap<T::OwnedKey, T::OwnedValue>) -> Self {
        Shared {
            map: Arc::new(Mutex::new(m)),
            hidden: Arc::new(Mutex::new(None)),
        }
    }

    /// Independent deep copy of the contents.
    pub fn deep_clone(&self) -> Self {
        Self::from_map(self.snapshot())
    }

    pub fn snapshot(&self) -> BTreeMap<T::OwnedKey, T::OwnedValue> {
        self.map.lock().unwrap().clone()
    }

    pub fn len(&self) -> usize {
        self.map.lock().unwrap().len()
    }

    pub fn is_empty(&self) -> bool {
        self.len() == 0
    }

    pub fn hide(&self, k: Option<T::OwnedKey>) {
        *self.hidden.lock().unwrap() = k;
    }

    fn owned(key: &T::Key) -> T::OwnedKey {
        key.to_owned().into()
    }
}

impl<T: Mappable> StorageInspect<T> for Shared<T>
where
    T::OwnedKey: Ord,
{
    type Error = StoreError;

    fn get(&self, key: &T::Key) -> Result<Option<Cow<'_, T::OwnedValue>>, StoreError> {
        let k = Self::owned(key);
        if self.hidden.lock().unwrap().as_ref() == Some(&k) {
            return Ok(None)
        }
        Ok(self.map.lock().unwrap().get::<T::OwnedKey>(&k).cloned().map(Cow::Owned))
    }

    fn contains_key(&self, key: &T::Key) -> Result<bool, StoreError> {
        Ok(self.get(key)?.is_some())
    }
}

impl<T: Mappable> StorageMutate<T> for Shared<T>
where
    T::OwnedKey: Ord,
{
    fn replace(
        &mut self,
        key: &T::Key,
        value: &T::Value,
    ) -> Result<Option<T::OwnedValue>, StoreError> {
        let k = Self::owned(key);
        let v: T::OwnedValue = value.to_owned().into();
        Ok(self.map.lock().unwrap().insert(k, v))
    }

    fn take(&mut self, key: &T::Key) -> Result<Option<T::OwnedValue>, StoreError> {
        let k = Self::owned(key);
        Ok(self.map.lock().unwrap().remove::<T::OwnedKey>(&k))
    }
}
