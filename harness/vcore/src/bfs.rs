//! Explicit-state breadth-first search where every transition is a call into the
//! real implementation. Level-synchronous, parallel expansion, deterministic merge.

use crate::run::Ctx;
use rayon::prelude::*;
use std::{
    collections::HashSet,
    fmt::Debug,
    hash::Hash,
};

pub trait Model: Sync {
    /// A state holds the real object(s) plus the reference model.
    type State: Send + Sync;
    type Action: Clone + Send + Sync + Debug;
    /// Canonical key; must contain every hidden field a future can depend on.
    type Key: Hash + Eq + Send;

    fn init(&self) -> Self::State;
    /// Enabled actions in `s`, simplest first.
    fn actions(&self, s: &Self::State) -> Vec<Self::Action>;
    /// Apply `a` to (a clone / a replay of) `s`. `path` is the action list that led
    /// to `s`. Transition-level oracles report through `ctx.violation`. `None`
    /// prunes the successor (e.g. after a reported violation, or a disabled action).
    fn step(
        &self,
        s: &Self::State,
        a: &Self::Action,
        path: &[Self::Action],
        ctx: &Ctx,
    ) -> Option<Self::State>;
    fn key(&self, s: &Self::State) -> Self::Key;
    /// State invariants, evaluated once on every distinct state.
    fn check(&self, s: &Self::State, path: &[Self::Action], ctx: &Ctx);
}

#[derive(Debug, Default, Clone)]
pub struct BfsStats {
    pub states: u64,
    pub transitions: u64,
    pub per_depth: Vec<u64>,
    pub completed_depth: usize,
    pub capped: bool,
}

/// Explore all states reachable within `max_depth` actions. Stops early (reporting
/// a cap) when `max_states` distinct states were seen or the time budget is over.
pub fn bfs<M: Model>(m: &M, max_depth: usize, max_states: u64, ctx: &Ctx) -> BfsStats {
    let mut stats = BfsStats::default();
    let mut seen: HashSet<M::Key> = HashSet::new();
    let s0 = m.init();
    seen.insert(m.key(&s0));
    m.check(&s0, &[], ctx);
    let mut frontier: Vec<(M::State, Vec<M::Action>)> = vec![(s0, vec![])];
    stats.states = 1;
    stats.per_depth.push(1);
    for depth in 1..=max_depth {
        if frontier.is_empty() {
            stats.completed_depth = max_depth;
            break;
        }
        if ctx.out_of_time() || stats.states >= max_states {
            stats.capped = true;
            ctx.cap(format!(
                "bfs stopped before depth {depth}: states={} time={:.0}s",
                stats.states,
                ctx.elapsed()
            ));
            break;
        }
        // expand in parallel; keep order for determinism
        let expanded: Vec<Vec<(M::Key, M::State, Vec<M::Action>)>> = frontier
            .par_iter()
            .map(|(s, path)| {
                let mut out = Vec::new();
                for a in m.actions(s) {
                    if let Some(n) = m.step(s, &a, path, ctx) {
                        let mut p = path.clone();
                        p.push(a);
                        out.push((m.key(&n), n, p));
                    }
                }
                out
            })
            .collect();
        let mut next = Vec::new();
        for group in expanded {
            for (k, s, p) in group {
                stats.transitions += 1;
                if seen.insert(k) {
                    next.push((s, p));
                }
            }
        }
        next.par_iter().for_each(|(s, p)| m.check(s, p, ctx));
        stats.states += next.len() as u64;
        stats.per_depth.push(next.len() as u64);
        stats.completed_depth = depth;
        frontier = next;
    }
    ctx.add_states(stats.states);
    ctx.add_transitions(stats.transitions);
    stats
}

/// Re-run an action list from the initial state, checking every state on the way.
pub fn replay_path<M: Model>(m: &M, actions: &[M::Action], ctx: &Ctx) {
    let mut s = m.init();
    m.check(&s, &[], ctx);
    let mut path = Vec::new();
    for a in actions {
        match m.step(&s, a, &path, ctx) {
            Some(n) => {
                path.push(a.clone());
                m.check(&n, &path, ctx);
                s = n;
            }
            None => return,
        }
    }
}
