//! Mixed-radix enumeration and sharded parallel iteration.

use rayon::prelude::*;

/// A product space of finite dimensions; index <-> digit vector bijection.
#[derive(Clone, Debug)]
pub struct Product {
    pub radices: Vec<u64>,
}

impl Product {
    pub fn new(radices: &[u64]) -> Self {
        Product {
            radices: radices.to_vec(),
        }
    }

    pub fn size(&self) -> u64 {
        self.radices.iter().fold(1u64, |a, r| {
            a.checked_mul(*r).expect("product space exceeds u64")
        })
    }

    /// Digit vector of `idx`; dimension 0 varies fastest.
    pub fn digits(&self, mut idx: u64) -> Vec<u64> {
        self.radices
            .iter()
            .map(|r| {
                let d = idx % r;
                idx /= r;
                d
            })
            .collect()
    }
}

/// Number of sequences of length <= k over an alphabet of size a.
pub fn seq_count(a: u64, k: u32) -> u64 {
    (0..=k).map(|l| a.pow(l)).sum()
}

/// The idx-th sequence (shortest first, then lexicographic) of length <= k.
pub fn seq_at(a: u64, k: u32, mut idx: u64) -> Vec<u64> {
    for l in 0..=k {
        let n = a.pow(l);
        if idx < n {
            let mut v = vec![0u64; l as usize];
            for p in (0..l as usize).rev() {
                v[p] = idx % a;
                idx /= a;
            }
            return v;
        }
        idx -= n;
    }
    panic!("seq_at: index out of range")
}

/// Run `f(i)` for all i in 0..n on all cores, in chunks, with a per-chunk
/// accumulator that is merged by `merge`. Deterministic: results do not depend on
/// scheduling because accumulators are merged in chunk order.
pub fn par_chunks<A: Send>(
    n: u64,
    chunk: u64,
    init: impl Fn() -> A + Sync,
    f: impl Fn(u64, &mut A) + Sync,
    mut merge: impl FnMut(A),
) {
    let chunks = n.div_ceil(chunk.max(1));
    let accs: Vec<A> = (0..chunks)
        .into_par_iter()
        .map(|c| {
            let mut a = init();
            let lo = c * chunk;
            let hi = (lo + chunk).min(n);
            for i in lo..hi {
                f(i, &mut a);
            }
            a
        })
        .collect();
    for a in accs {
        merge(a);
    }
}

/// Simple parallel for-each over 0..n.
pub fn par_for(n: u64, f: impl Fn(u64) + Sync + Send) {
    (0..n).into_par_iter().for_each(f);
}

/// All permutations of 0..n (n small).
pub fn permutations(n: usize) -> Vec<Vec<usize>> {
    fn rec(cur: &mut Vec<usize>, used: &mut Vec<bool>, n: usize, out: &mut Vec<Vec<usize>>) {
        if cur.len() == n {
            out.push(cur.clone());
            return;
        }
        for i in 0..n {
            if !used[i] {
                used[i] = true;
                cur.push(i);
                rec(cur, used, n, out);
                cur.pop();
                used[i] = false;
            }
        }
    }
    let mut out = Vec::new();
    rec(&mut Vec::new(), &mut vec![false; n], n, &mut out);
    out
}
