//! Shared machinery for the bounded-exhaustive checks of fuel-vm.
//!
//! * `run`      — command line, tiers, evidence writing, violation reporting,
//!                known findings, replay files, exit codes.
//! * `guard`    — catch_unwind wrapper with quiet panic hook.
//! * `space`    — mixed-radix enumeration + rayon sharding helpers.
//! * `bfs`      — explicit-state breadth-first search over real objects.
//! * `oracle`   — boring reference implementations (RFC 6962, compact SMT, bigint).

pub mod bfs;
pub mod guard;
pub mod nodestore;
pub mod oracle;
pub mod run;
pub mod space;
pub mod vmkit;

pub use run::{
    run_check,
    Ctx,
    Level,
    Tier,
};
pub use serde_json::{
    json,
    Value,
};
