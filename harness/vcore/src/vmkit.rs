//! Helpers for driving the real interpreter (grown by the VM checks).
