//! Helpers for driving the real interpreter. Everything goes through the public API
//! (+ `test-helpers`) of fuel-vm; nothing here is an oracle.

use fuel_asm::{
    Instruction,
    PanicReason,
    RawInstruction,
    RegId,
};
use fuel_tx::{
    ConsensusParameters,
    Finalizable,
    Script,
    TransactionBuilder,
};
use fuel_types::BlockHeight;
use fuel_vm::{
    checked_transaction::{
        IntoChecked,
        Ready,
    },
    error::InterpreterError,
    interpreter::{
        Interpreter,
        InterpreterParams,
        MemoryInstance,
    },
    state::ExecuteState,
    storage::MemoryStorage,
};

pub type Vm = Interpreter<MemoryInstance, MemoryStorage, Script>;

pub const REGS: usize = 64;

/// What one injected / fetched instruction did.
#[derive(Debug, Clone, PartialEq, Eq, Hash)]
pub enum Step {
    /// Executed; the VM wants to continue.
    Proceed,
    Return(u64),
    ReturnData([u8; 32]),
    Revert(u64),
    /// A well-formed VM panic with its reason.
    Panic(PanicReason),
    /// Any other interpreter error (storage, bug, …), rendered.
    Error(String),
    /// The host function unwound (a Rust panic inside the subject).
    HostPanic(String),
    Debug,
}

impl Step {
    pub fn label(&self) -> String {
        match self {
            Step::Proceed => "proceed".into(),
            Step::Return(_) => "return".into(),
            Step::ReturnData(_) => "returndata".into(),
            Step::Revert(_) => "revert".into(),
            Step::Panic(r) => format!("panic:{r:?}"),
            Step::Error(e) => format!("error:{}", e.chars().take(40).collect::<String>()),
            Step::HostPanic(_) => "HOST-PANIC".into(),
            Step::Debug => "debug".into(),
        }
    }

    pub fn panic_reason(&self) -> Option<PanicReason> {
        match self {
            Step::Panic(r) => Some(*r),
            _ => None,
        }
    }
}

fn classify<E: core::fmt::Debug>(r: Result<Result<ExecuteState, InterpreterError<E>>, String>) -> Step {
    match r {
        Err(m) => Step::HostPanic(m),
        Ok(Ok(ExecuteState::Proceed)) => Step::Proceed,
        Ok(Ok(ExecuteState::Return(w))) => Step::Return(w),
        Ok(Ok(ExecuteState::ReturnData(d))) => Step::ReturnData(*d),
        Ok(Ok(ExecuteState::Revert(w))) => Step::Revert(w),
        Ok(Ok(ExecuteState::DebugEvent(_))) => Step::Debug,
        Ok(Err(InterpreterError::PanicInstruction(p))) => Step::Panic(*p.reason()),
        Ok(Err(InterpreterError::Panic(p))) => Step::Panic(p),
        Ok(Err(e)) => Step::Error(format!("{e:?}")),
    }
}

/// Inject one instruction (script/contract context). Does not fetch from `$pc`.
pub fn inject(vm: &mut Vm, ins: Instruction) -> Step {
    let raw: RawInstruction = ins.into();
    classify(crate::guard::catch_any(|| vm.instruction::<_, false>(raw)))
}

/// Inject one raw 32-bit word.
pub fn inject_raw(vm: &mut Vm, raw: u32) -> Step {
    classify(crate::guard::catch_any(|| vm.instruction::<_, false>(raw)))
}

/// Inject one raw word in predicate mode.
pub fn inject_raw_predicate(vm: &mut Vm, raw: u32) -> Step {
    classify(crate::guard::catch_any(|| vm.instruction::<_, true>(raw)))
}

/// Execute the instruction at `$pc` (fetch + executable-region check).
pub fn step(vm: &mut Vm) -> Step {
    classify(crate::guard::catch_any(|| vm.execute::<false>()))
}

pub fn regs(vm: &Vm) -> [u64; REGS] {
    let mut r = [0u64; REGS];
    r.copy_from_slice(vm.registers());
    r
}

pub fn reg(vm: &Vm, id: RegId) -> u64 {
    vm.registers()[id.to_u8() as usize]
}

pub fn set_reg(vm: &mut Vm, idx: usize, v: u64) {
    vm.registers_mut()[idx] = v;
}

/// Default consensus parameters (the `test-helpers` "standard" set).
pub fn consensus() -> ConsensusParameters {
    ConsensusParameters::standard()
}

/// Build a ready script transaction with one base-asset fee input (deterministic).
/// `tweak` may add inputs/outputs/policies before finalisation.
pub fn ready_script(
    script: Vec<u8>,
    data: Vec<u8>,
    gas_limit: u64,
    params: &ConsensusParameters,
    tweak: impl FnOnce(&mut TransactionBuilder<Script>),
) -> Ready<Script> {
    let mut b = TransactionBuilder::script(script, data);
    b.with_params(params.clone());
    b.script_gas_limit(gas_limit);
    b.max_fee_limit(0);
    b.add_fee_input();
    tweak(&mut b);
    let tx = b.finalize();
    tx.into_checked_basic(BlockHeight::new(0), params)
        .expect("harness script tx must pass basic checks")
        .test_into_ready()
}

/// A VM initialised for `ready` over `storage`, positioned at the first script
/// instruction (nothing executed yet).
pub fn vm_over(ready: Ready<Script>, storage: MemoryStorage, params: &ConsensusParameters) -> Vm {
    let ip = InterpreterParams::new(0, params);
    let mut vm: Vm = Interpreter::with_storage(MemoryInstance::new(), storage, ip);
    vm.init_script(ready).expect("init_script");
    vm
}

/// Convenience: VM for a script given as instructions, generous gas, empty storage.
pub fn vm_for_script(script: &[Instruction], data: Vec<u8>, gas_limit: u64) -> Vm {
    let bytes: Vec<u8> = script.iter().copied().collect();
    let params = consensus();
    let ready = ready_script(bytes, data, gas_limit, &params, |_| {});
    vm_over(ready, MemoryStorage::default(), &params)
}

/// Run the VM from its current `$pc` until it stops (return/revert/panic/error) or
/// `max_steps` instructions were executed. Returns the last step and the count.
pub fn run_until_stop(vm: &mut Vm, max_steps: u64) -> (Step, u64) {
    let mut n = 0;
    loop {
        let s = step(vm);
        n += 1;
        if s != Step::Proceed || n >= max_steps {
            return (s, n)
        }
    }
}

/// Execute the instruction at `$pc`; also tells whether the VM was inside a called
/// contract *before* the step (`$fp != 0`). A `Return`/`ReturnData` step taken inside
/// a call returns to the caller and execution continues; at top level it ends the
/// script. `Revert`, `Panic`, `Error`, `HostPanic` always end the execution.
pub fn step_ctx(vm: &mut Vm) -> (Step, bool) {
    let in_call = reg(vm, RegId::FP) != 0;
    (step(vm), in_call)
}

pub fn is_final(step: &Step, was_in_call: bool) -> bool {
    match step {
        Step::Proceed => false,
        Step::Return(_) | Step::ReturnData(_) => !was_in_call,
        _ => true,
    }
}

/// Run until the script ends (see `is_final`) or `max_steps` instructions ran.
/// `on_step(vm_after, step, was_in_call)` is called after every instruction.
pub fn run_to_end(
    vm: &mut Vm,
    max_steps: u64,
    mut on_step: impl FnMut(&Vm, &Step, bool),
) -> (Step, u64) {
    let mut n = 0;
    loop {
        let (s, in_call) = step_ctx(vm);
        n += 1;
        on_step(vm, &s, in_call);
        if is_final(&s, in_call) || n >= max_steps {
            return (s, n)
        }
    }
}
