//! Check driver: CLI, evidence, violations, known findings, replay, exit codes.
//!
//! Exit codes: 0 = property held on everything explored (known findings are printed
//! as `KNOWN-FINDING:` lines), 1 = at least one `VIOLATION property=<id> replay=<path>`
//! line, 2 = machinery error (never a verdict).

use serde_json::{
    json,
    Value,
};
use std::{
    collections::{
        BTreeMap,
        HashSet,
    },
    hash::{
        Hash,
        Hasher,
    },
    path::PathBuf,
    sync::{
        atomic::{
            AtomicU64,
            Ordering,
        },
        Mutex,
    },
    time::{
        Duration,
        Instant,
    },
};

#[derive(Clone, Copy, PartialEq, Eq, Debug)]
pub enum Tier {
    Quick,
    Thorough,
}

#[derive(Clone, Copy, PartialEq, Eq, Debug)]
pub enum Level {
    Exploration,
    FaultEnumeration,
    ModelChecking,
}

impl Level {
    fn as_str(self) -> &'static str {
        match self {
            Level::Exploration => "exploration",
            Level::FaultEnumeration => "fault_enumeration",
            Level::ModelChecking => "model_checking",
        }
    }
}

#[derive(Clone, Debug)]
pub struct Viol {
    pub key: String,
    pub what: String,
    pub case: Value,
    pub count: u64,
}

const FP_SHARDS: usize = 64;
const MAX_SAMPLES: usize = 8;
const MAX_DISTINCT_VIOLS: usize = 64;

pub struct Ctx {
    pub id: String,
    pub tier: Tier,
    pub seed: u64,
    pub level: Level,
    pub replaying: bool,
    start: Instant,
    deadline: Option<Instant>,
    evals: AtomicU64,
    states: AtomicU64,
    transitions: AtomicU64,
    traces: AtomicU64,
    fps: Vec<Mutex<HashSet<u64>>>,
    samples: Mutex<Vec<Value>>,
    outcomes: Mutex<BTreeMap<String, u64>>,
    extra: Mutex<BTreeMap<String, Value>>,
    caps: Mutex<Vec<String>>,
    viols: Mutex<BTreeMap<String, Viol>>,
    viol_total: AtomicU64,
    assumptions: Mutex<Vec<String>>,
    rule: Mutex<String>,
}

pub fn hash64<T: Hash + ?Sized>(t: &T) -> u64 {
    // Deterministic (fixed keys) SipHash via DefaultHasher::new().
    #[allow(deprecated)]
    let mut h = std::hash::SipHasher::new_with_keys(0x7665_7269_6621, 0x6675_656c);
    t.hash(&mut h);
    h.finish()
}

impl Ctx {
    fn new(id: &str, tier: Tier, level: Level, replaying: bool) -> Self {
        let seed = std::env::var("VERIF_SEED")
            .ok()
            .and_then(|s| s.parse::<i64>().ok())
            .unwrap_or(0) as u64;
        let budget = std::env::var("VERIF_BUDGET_S")
            .ok()
            .and_then(|s| s.parse::<u64>().ok());
        let start = Instant::now();
        let deadline = match (tier, budget) {
            (_, Some(b)) => Some(start + Duration::from_secs(b)),
            (Tier::Quick, None) => Some(start + Duration::from_secs(50)),
            (Tier::Thorough, None) => Some(start + Duration::from_secs(20 * 60)),
        };
        Ctx {
            id: id.to_string(),
            tier,
            seed,
            level,
            replaying,
            start,
            deadline,
            evals: AtomicU64::new(0),
            states: AtomicU64::new(0),
            transitions: AtomicU64::new(0),
            traces: AtomicU64::new(0),
            fps: (0..FP_SHARDS).map(|_| Mutex::new(HashSet::new())).collect(),
            samples: Mutex::new(Vec::new()),
            outcomes: Mutex::new(BTreeMap::new()),
            extra: Mutex::new(BTreeMap::new()),
            caps: Mutex::new(Vec::new()),
            viols: Mutex::new(BTreeMap::new()),
            viol_total: AtomicU64::new(0),
            assumptions: Mutex::new(Vec::new()),
            rule: Mutex::new(String::new()),
        }
    }

    pub fn quick(&self) -> bool {
        self.tier == Tier::Quick
    }

    pub fn thorough(&self) -> bool {
        self.tier == Tier::Thorough
    }

    /// Pick by tier.
    pub fn pick<T>(&self, quick: T, thorough: T) -> T {
        if self.quick() {
            quick
        } else {
            thorough
        }
    }

    pub fn elapsed(&self) -> f64 {
        self.start.elapsed().as_secs_f64()
    }

    /// True when the wall-clock budget of this tier is used up. A check that stops
    /// because of this must call `cap(..)` so the run is not reported as exhaustive.
    pub fn out_of_time(&self) -> bool {
        self.deadline.map(|d| Instant::now() >= d).unwrap_or(false)
    }

    pub fn evals(&self, n: u64) {
        self.evals.fetch_add(n, Ordering::Relaxed);
    }

    pub fn add_states(&self, n: u64) {
        self.states.fetch_add(n, Ordering::Relaxed);
    }

    pub fn add_transitions(&self, n: u64) {
        self.transitions.fetch_add(n, Ordering::Relaxed);
        // every transition is a call into the implementation
        self.traces.fetch_add(n, Ordering::Relaxed);
    }

    /// Register an observation fingerprint of a *non-trivial* case (by the check's
    /// stated rule). `distinct_nontrivial` is the number of distinct fingerprints.
    pub fn fp(&self, h: u64) {
        self.fps[(h as usize) % FP_SHARDS].lock().unwrap().insert(h);
    }

    pub fn fp_of<T: Hash + ?Sized>(&self, t: &T) {
        self.fp(hash64(t));
    }

    pub fn fps_merge(&self, set: impl IntoIterator<Item = u64>) {
        for h in set {
            self.fp(h);
        }
    }

    pub fn distinct(&self) -> u64 {
        self.fps.iter().map(|s| s.lock().unwrap().len() as u64).sum()
    }

    pub fn sample(&self, v: Value) {
        let mut s = self.samples.lock().unwrap();
        if s.len() < MAX_SAMPLES {
            s.push(v);
        }
    }

    pub fn sample_count(&self) -> usize {
        self.samples.lock().unwrap().len()
    }

    pub fn want_sample(&self) -> bool {
        self.samples.lock().unwrap().len() < MAX_SAMPLES
    }

    pub fn outcome(&self, label: &str, n: u64) {
        *self
            .outcomes
            .lock()
            .unwrap()
            .entry(label.to_string())
            .or_insert(0) += n;
    }

    pub fn outcomes_merge(&self, m: &BTreeMap<String, u64>) {
        let mut o = self.outcomes.lock().unwrap();
        for (k, v) in m {
            *o.entry(k.clone()).or_insert(0) += *v;
        }
    }

    /// Extra coverage key (bounds completed, alphabets, per-depth counts …).
    pub fn set(&self, key: &str, v: Value) {
        self.extra.lock().unwrap().insert(key.to_string(), v);
    }

    pub fn cap(&self, reason: impl Into<String>) {
        self.caps.lock().unwrap().push(reason.into());
    }

    pub fn assume(&self, a: impl Into<String>) {
        self.assumptions.lock().unwrap().push(a.into());
    }

    pub fn rule(&self, r: impl Into<String>) {
        *self.rule.lock().unwrap() = r.into();
    }

    /// Report a violation. `key` is the canonical identity of the failing case
    /// *class* (matched against known_findings.json); `case` must be re-runnable by
    /// the check's replay function.
    pub fn violation(&self, key: impl Into<String>, what: impl Into<String>, case: Value) {
        let key = key.into();
        self.viol_total.fetch_add(1, Ordering::Relaxed);
        let mut v = self.viols.lock().unwrap();
        if let Some(e) = v.get_mut(&key) {
            e.count += 1;
            return;
        }
        if v.len() >= MAX_DISTINCT_VIOLS {
            return;
        }
        v.insert(
            key.clone(),
            Viol {
                key,
                what: what.into(),
                case,
                count: 1,
            },
        );
    }

    pub fn violation_count(&self) -> u64 {
        self.viol_total.load(Ordering::Relaxed)
    }

    pub fn violations(&self) -> Vec<Viol> {
        self.viols.lock().unwrap().values().cloned().collect()
    }
}

pub fn root() -> PathBuf {
    std::env::var("VERIF_ROOT")
        .map(PathBuf::from)
        .unwrap_or_else(|_| PathBuf::from("/verif"))
}

#[derive(Debug, Clone)]
struct Known {
    status: String,
    property: String,
    key: String,
    what: String,
}

fn load_known() -> Vec<Known> {
    let p = root().join("known_findings.json");
    let Ok(s) = std::fs::read_to_string(&p) else {
        return vec![]
    };
    let v: Value = match serde_json::from_str(&s) {
        Ok(v) => v,
        Err(e) => {
            eprintln!("MACHINERY-ERROR: cannot parse {}: {e}", p.display());
            std::process::exit(2);
        }
    };
    v.as_array()
        .map(|a| {
            a.iter()
                .map(|e| Known {
                    status: e["status"].as_str().unwrap_or("").to_string(),
                    property: e["property"].as_str().unwrap_or("").to_string(),
                    key: e["key"].as_str().unwrap_or("").to_string(),
                    what: e["what"].as_str().unwrap_or("").to_string(),
                })
                .collect()
        })
        .unwrap_or_default()
}

fn write_evidence(ctx: &Ctx, known_hits: &[String], new_viols: usize) {
    let mut cov = serde_json::Map::new();
    let caps = ctx.caps.lock().unwrap().clone();
    let distinct = ctx.distinct();
    cov.insert("evaluations".into(), json!(ctx.evals.load(Ordering::Relaxed)));
    cov.insert("distinct_nontrivial".into(), json!(distinct));
    cov.insert("rule".into(), json!(ctx.rule.lock().unwrap().clone()));
    cov.insert("samples".into(), json!(ctx.samples.lock().unwrap().clone()));
    let st = ctx.states.load(Ordering::Relaxed);
    if st > 0 {
        cov.insert("states".into(), json!(st));
        cov.insert(
            "transitions".into(),
            json!(ctx.transitions.load(Ordering::Relaxed)),
        );
        cov.insert(
            "traces_validated_against_impl".into(),
            json!(ctx.traces.load(Ordering::Relaxed)),
        );
    }
    cov.insert("exhaustive".into(), json!(caps.is_empty()));
    if !caps.is_empty() {
        cov.insert("caps_hit".into(), json!(caps));
    }
    cov.insert(
        "outcome_histogram".into(),
        json!(ctx.outcomes.lock().unwrap().clone()),
    );
    cov.insert("known_findings_hit".into(), json!(known_hits));
    for (k, v) in ctx.extra.lock().unwrap().iter() {
        cov.insert(k.clone(), v.clone());
    }
    let ev = json!({
        "property_id": ctx.id,
        "tier": if ctx.quick() { "quick" } else { "thorough" },
        "seed": ctx.seed,
        "level": ctx.level.as_str(),
        "coverage": Value::Object(cov),
        "assumptions": ctx.assumptions.lock().unwrap().clone(),
        "wall_s": ctx.elapsed(),
        "violations": new_viols,
    });
    let dir = root().join("evidence");
    let _ = std::fs::create_dir_all(&dir);
    let p = dir.join(format!("{}.json", ctx.id));
    if let Err(e) = std::fs::write(&p, serde_json::to_string_pretty(&ev).unwrap()) {
        eprintln!("MACHINERY-ERROR: cannot write {}: {e}", p.display());
        std::process::exit(2);
    }
    // keep a copy of the last thorough run next to the per-run evidence file
    if !ctx.quick() {
        let tdir = root().join("evidence_thorough");
        let _ = std::fs::create_dir_all(&tdir);
        let _ = std::fs::write(
            tdir.join(format!("{}.json", ctx.id)),
            serde_json::to_string_pretty(&ev).unwrap(),
        );
    }
}

/// Entry point of every check binary.
///
/// * `explore(ctx)` enumerates the space and calls `ctx.violation(..)`.
/// * `replay(case, ctx)` re-runs exactly one recorded case through the same oracle
///   and calls `ctx.violation(..)` if it still fails.
pub fn run_check(
    id: &str,
    level: Level,
    explore: impl FnOnce(&Ctx),
    replay: impl Fn(&Value, &Ctx),
) -> ! {
    crate::guard::install_quiet_hook();
    let args: Vec<String> = std::env::args().collect();
    let mut tier = match std::env::var("VERIF_TIER").as_deref() {
        Ok("thorough") => Tier::Thorough,
        _ => Tier::Quick,
    };
    let mut replay_path: Option<String> = None;
    let mut i = 1;
    while i < args.len() {
        match args[i].as_str() {
            "--tier" => {
                i += 1;
                tier = match args.get(i).map(|s| s.as_str()) {
                    Some("quick") => Tier::Quick,
                    Some("thorough") => Tier::Thorough,
                    other => {
                        eprintln!("MACHINERY-ERROR: bad tier {other:?}");
                        std::process::exit(2);
                    }
                };
            }
            "--replay" => {
                i += 1;
                replay_path = args.get(i).cloned();
            }
            other => {
                eprintln!("MACHINERY-ERROR: unknown argument {other}");
                std::process::exit(2);
            }
        }
        i += 1;
    }

    if let Some(p) = replay_path {
        let s = std::fs::read_to_string(&p).unwrap_or_else(|e| {
            eprintln!("MACHINERY-ERROR: cannot read replay {p}: {e}");
            std::process::exit(2);
        });
        let v: Value = serde_json::from_str(&s).unwrap_or_else(|e| {
            eprintln!("MACHINERY-ERROR: cannot parse replay {p}: {e}");
            std::process::exit(2);
        });
        let ctx = Ctx::new(id, tier, level, true);
        let r = crate::guard::catch_any(|| replay(&v["case"], &ctx));
        if let Err(m) = r {
            eprintln!("MACHINERY-ERROR: replay function panicked: {m}");
            std::process::exit(2);
        }
        let vs = ctx.violations();
        if vs.is_empty() {
            println!("REPLAY property={id} result=holds file={p}");
            std::process::exit(0);
        }
        for v in vs {
            println!("REPLAY property={id} result=violated key={} what={}", v.key, v.what);
        }
        println!("VIOLATION property={id} replay={p}");
        std::process::exit(1);
    }

    let ctx = Ctx::new(id, tier, level, false);
    let r = crate::guard::catch_any(|| explore(&ctx));
    if let Err(m) = r {
        eprintln!("MACHINERY-ERROR: explorer of {id} panicked: {m}");
        std::process::exit(2);
    }

    let known = load_known();
    let mut known_hits = Vec::new();
    let mut new_viols = Vec::new();
    for v in ctx.violations() {
        if let Some(k) = known
            .iter()
            .find(|k| k.status == "known" && k.property == id && k.key == v.key)
        {
            println!("KNOWN-FINDING: property={id} {} [key={} occurrences={}]", k.what, v.key, v.count);
            known_hits.push(v.key.clone());
        } else {
            new_viols.push(v);
        }
    }

    // Reproducibility gate: a violation must reproduce twice from its recorded case.
    let mut exit = 0;
    let rdir = root().join("replays");
    let _ = std::fs::create_dir_all(&rdir);
    for v in &new_viols {
        for round in 0..2 {
            let c2 = Ctx::new(id, tier, level, true);
            let r = crate::guard::catch_any(|| replay(&v.case, &c2));
            let ok = r.is_ok() && c2.violations().iter().any(|x| x.key == v.key);
            if !ok {
                eprintln!(
                    "MACHINERY-ERROR: violation key={} did not reproduce from its recorded case (round {round}): {:?} / {:?}",
                    v.key,
                    r.err(),
                    c2.violations().iter().map(|x| x.key.clone()).collect::<Vec<_>>()
                );
                eprintln!("  what: {}", v.what);
                eprintln!("  case: {}", v.case);
                write_evidence(&ctx, &known_hits, new_viols.len());
                std::process::exit(2);
            }
        }
        let file = rdir.join(format!("{}-{:016x}.json", id, hash64(&v.key)));
        let body = json!({
            "property": id,
            "key": v.key,
            "what": v.what,
            "occurrences": v.count,
            "case": v.case,
            "found_by": { "tier": if ctx.quick() { "quick" } else { "thorough" }, "seed": ctx.seed },
        });
        let _ = std::fs::write(&file, serde_json::to_string_pretty(&body).unwrap());
        println!("VIOLATION property={id} replay={}", file.display());
        println!("  key={} occurrences={} what={}", v.key, v.count, v.what);
        exit = 1;
    }
    write_evidence(&ctx, &known_hits, new_viols.len());
    if exit == 0 && (ctx.sample_count() == 0 || ctx.distinct() < 2) {
        eprintln!(
            "MACHINERY-ERROR: vacuous evidence (samples={} distinct_nontrivial={}); the check must call ctx.sample(..) and ctx.fp(..)",
            ctx.sample_count(),
            ctx.distinct()
        );
        std::process::exit(2);
    }
    let caps = ctx.caps.lock().unwrap().clone();
    println!(
        "SUMMARY property={id} tier={:?} evaluations={} distinct_nontrivial={} states={} transitions={} violations={} known={} exhaustive={} wall_s={:.1}",
        ctx.tier,
        ctx.evals.load(Ordering::Relaxed),
        ctx.distinct(),
        ctx.states.load(Ordering::Relaxed),
        ctx.transitions.load(Ordering::Relaxed),
        new_viols.len(),
        known_hits.len(),
        caps.is_empty(),
        ctx.elapsed()
    );
    std::process::exit(exit);
}
