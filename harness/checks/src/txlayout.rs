//! txlayout — hand-written "layout walker" for the canonical transaction encoding.
//!
//! Shared by C03 (which bytes may change the id) and C04 (expected offsets); include
//! with `#[path = "../txlayout.rs"] mod txlayout;`.
//!
//! The walker is an independent description of WHERE every field of every transaction
//! kind / input / output lives in the canonical encoding. It is written down from the
//! transaction-format documentation (the spec tables linked from the doc comments of
//! `fuel-tx/src/transaction/types/*.rs`) and the canonical encoding rules:
//!
//!  * everything is a sequence of 8-byte words; `u8`/`u16`/`u32`/`u64` are one big-endian
//!    word; 32-byte ids are raw;
//!  * an enum starts with its discriminant word;
//!  * a byte vector stores its LENGTH word in the fixed part of the enclosing structure
//!    and its bytes, zero-padded to a word, in the variable part; a vector of structures
//!    stores its COUNT word in the fixed part and the elements (each encoded completely)
//!    in the variable part;
//!  * a structure is: fixed parts of all fields in order, then variable parts of all
//!    fields in order.
//!
//! Format tables used (field order):
//!
//! ```text
//! Script : type=0 scriptGasLimit receiptsRoot scriptLength scriptDataLength policyTypes
//!          inputsCount outputsCount witnessesCount | script scriptData policies inputs outputs witnesses
//! Create : type=1 bytecodeWitnessIndex salt storageSlotsCount policyTypes inputsCount
//!          outputsCount witnessesCount | storageSlots policies inputs outputs witnesses
//! Mint   : type=2 txPointer inputContract outputContract mintAmount mintAssetId gasPrice
//! Upgrade: type=3 purpose(type, ..) policyTypes inputsCount outputsCount witnessesCount
//!          | policies inputs outputs witnesses
//! Upload : type=4 root witnessIndex subsectionIndex subsectionsNumber proofSetCount
//!          policyTypes inputsCount outputsCount witnessesCount | proofSet policies inputs outputs witnesses
//! Blob   : type=5 id witnessIndex policyTypes inputsCount outputsCount witnessesCount
//!          | policies inputs outputs witnesses
//! policies: one word per set bit of policyTypes, in bit order
//!          (Tip=1, WitnessLimit=2, Maturity=4, MaxFee=8, Expiration=16, Owner=32)
//! InputCoin    : type=0 txID outputIndex owner amount assetId txPointer(blockHeight, txIndex)
//!                witnessIndex predicateGasUsed predicateLength predicateDataLength | predicate predicateData
//! InputContract: type=1 txID outputIndex balanceRoot stateRoot txPointer contractID
//! InputMessage : type=2 sender recipient amount nonce witnessIndex predicateGasUsed dataLength
//!                predicateLength predicateDataLength | data predicate predicateData
//! OutputCoin=0 / OutputChange=2 / OutputVariable=3: type to amount assetId
//! OutputContract=1: type inputIndex balanceRoot stateRoot
//! OutputContractCreated=4: type contractID stateRoot
//! Witness: dataLength | data         StorageSlot: key value
//! UpgradePurpose: ConsensusParameters=0 witnessIndex checksum / StateTransition=1 root
//! ```
//!
//! Malleable fields (zeroed for the id; the property statement's list, grounded in the
//! "Note" sections the `prepare_sign` doc comments refer to): Script `receiptsRoot`;
//! InputCoin `txPointer`, `predicateGasUsed`; InputContract `txID`, `outputIndex`,
//! `balanceRoot`, `stateRoot`, `txPointer`; InputMessage `predicateGasUsed`;
//! OutputContract `balanceRoot`, `stateRoot`; OutputChange `amount`; OutputVariable
//! `to`, `amount`, `assetId`. Mint: the same InputContract / OutputContract fields of
//! its embedded contract input/output (which carry no type word); Mint's own
//! `txPointer` is NOT malleable.
//!
//! The walker reads field VALUES and vector LENGTHS through public accessors / public
//! struct fields only. It never calls an `*_offset*`, `size*` or `to_bytes` function of
//! the subject.
//!
//! Output: a [`Layout`] = the walker's own encoding (`bytes`) + a gap-free list of
//! [`Field`]s `(byte range, path, malleable?, in_witnesses?)` + named `marks` (start
//! positions of regions that may be empty: `policies`, `inputs`, `inputs[i].predicate`…).

#![allow(dead_code)]

use fuel_tx::{
    field,
    input::{
        coin::{
            CoinPredicate,
            CoinSigned,
        },
        contract::Contract as InputContract,
        message::{
            MessageCoinPredicate,
            MessageCoinSigned,
            MessageDataPredicate,
            MessageDataSigned,
        },
    },
    output::contract::Contract as OutputContract,
    policies::{
        Policies,
        PolicyType,
    },
    Input,
    Output,
    StorageSlot,
    Transaction,
    TxPointer,
    UpgradePurpose,
    UtxoId,
    Witness,
};
use std::collections::BTreeMap;

#[derive(Clone, Copy, Debug, PartialEq, Eq, Hash, PartialOrd, Ord)]
pub enum Class {
    /// enum discriminant word
    Discriminant,
    /// integer stored as one big-endian word
    Word,
    /// fixed-size raw bytes (32-byte ids)
    Fixed,
    /// length / count word of a vector, or the policy bit mask (decides the structure)
    Length,
    /// content of a byte vector (unpadded)
    Bytes,
    /// zero padding of a byte vector
    Padding,
}

#[derive(Clone, Debug)]
pub struct Field {
    pub start: usize,
    pub end: usize,
    /// e.g. `inputs[1].txPointer.blockHeight`
    pub path: String,
    /// path without indices, with the variant name: `Input::CoinPredicate.txPointer.blockHeight`
    pub class_path: String,
    pub class: Class,
    /// zeroed before the id is computed
    pub malleable: bool,
    /// part of the witnesses (removed before the id is computed)
    pub in_witnesses: bool,
    /// the witnesses count word (becomes zero when the witnesses are removed)
    pub witness_count: bool,
}

#[derive(Clone, Debug, Default)]
pub struct Layout {
    /// the walker's own encoding of the value
    pub bytes: Vec<u8>,
    /// gap-free, ordered, non-empty fields covering `0..bytes.len()`
    pub fields: Vec<Field>,
    /// start positions of named regions (present even when the region is empty)
    pub marks: BTreeMap<String, usize>,
}

pub const fn pad8(n: usize) -> usize {
    (n + 7) / 8 * 8
}

impl Layout {
    pub fn len(&self) -> usize {
        self.bytes.len()
    }

    /// The field containing byte `pos`.
    pub fn field_at(&self, pos: usize) -> &Field {
        let i = self.fields.partition_point(|f| f.end <= pos);
        &self.fields[i]
    }

    /// Byte range covered by `path` itself and by its sub-fields (`path.xxx`, `path[i]…`).
    /// The padding of a byte vector (`path#pad`) is not part of the vector's own span, but
    /// is part of the span of every enclosing structure.
    pub fn span(&self, path: &str) -> Option<(usize, usize)> {
        let mut lo = usize::MAX;
        let mut hi = 0usize;
        for f in &self.fields {
            let p = f.path.as_str();
            let hit = p == path
                || (p.len() > path.len()
                    && p.starts_with(path)
                    && matches!(p.as_bytes()[path.len()], b'.' | b'['));
            if hit {
                lo = lo.min(f.start);
                hi = hi.max(f.end);
            }
        }
        (lo != usize::MAX).then_some((lo, hi))
    }

    /// Start of `path`: a mark if there is one, else the start of its span.
    pub fn start_of(&self, path: &str) -> Option<usize> {
        self.marks.get(path).copied().or_else(|| self.span(path).map(|s| s.0))
    }

    /// Internal consistency of the walker output itself.
    pub fn self_check(&self) -> Result<(), String> {
        let mut at = 0usize;
        for f in &self.fields {
            if f.start != at || f.end <= f.start {
                return Err(format!("field {} covers {}..{} but the previous one ended at {at}", f.path, f.start, f.end))
            }
            at = f.end;
        }
        if at != self.bytes.len() {
            return Err(format!("fields end at {at}, encoding has {} bytes", self.bytes.len()))
        }
        if self.bytes.len() % 8 != 0 {
            return Err("walker encoding is not word aligned".into())
        }
        Ok(())
    }

    /// The walker's encoding with malleable fields zeroed and the witnesses removed
    /// (witness bytes dropped, witnesses count word zero).
    pub fn signing_bytes(&self) -> Vec<u8> {
        self.signing_bytes_with(&|_| None)
    }

    /// As [`signing_bytes`], but `over(field)` may override the malleable flag of a field
    /// (used only to DIAGNOSE which field class explains a wrong id).
    pub fn signing_bytes_with(&self, over: &dyn Fn(&Field) -> Option<bool>) -> Vec<u8> {
        let mut out = Vec::with_capacity(self.bytes.len());
        for f in &self.fields {
            if f.witness_count {
                out.extend_from_slice(&[0u8; 8]);
            } else if f.in_witnesses {
                // removed
            } else if over(f).unwrap_or(f.malleable) {
                out.resize(out.len() + (f.end - f.start), 0);
            } else {
                out.extend_from_slice(&self.bytes[f.start..f.end]);
            }
        }
        out
    }

    pub fn of_tx(tx: &Transaction) -> Layout {
        let mut w = W::default();
        walk_tx(&mut w, tx);
        w.finish()
    }

    /// Layout of a stand-alone input (offsets relative to the input's first byte).
    pub fn of_input(input: &Input) -> Layout {
        let mut w = W::default();
        walk_input(&mut w, "input", input);
        w.finish()
    }

    pub fn of_output(output: &Output) -> Layout {
        let mut w = W::default();
        walk_output(&mut w, "output", output);
        w.finish()
    }
}

// ------------------------------------------------------------------ emitter

#[derive(Default)]
struct W {
    bytes: Vec<u8>,
    fields: Vec<Field>,
    marks: BTreeMap<String, usize>,
    in_witnesses: bool,
}

impl W {
    fn finish(self) -> Layout {
        Layout {
            bytes: self.bytes,
            fields: self.fields,
            marks: self.marks,
        }
    }

    fn mark(&mut self, path: &str) {
        self.marks.insert(path.to_string(), self.bytes.len());
    }

    fn emit(&mut self, path: String, class_path: String, class: Class, data: &[u8], malleable: bool) {
        if data.is_empty() {
            return
        }
        let start = self.bytes.len();
        self.bytes.extend_from_slice(data);
        self.fields.push(Field {
            start,
            end: self.bytes.len(),
            path,
            class_path,
            class,
            malleable,
            in_witnesses: self.in_witnesses,
            witness_count: false,
        });
    }

    fn word(&mut self, p: &str, c: &str, name: &str, v: u64, malleable: bool) {
        self.emit(format!("{p}.{name}"), format!("{c}.{name}"), Class::Word, &v.to_be_bytes(), malleable);
    }

    fn discr(&mut self, p: &str, c: &str, v: u64) {
        self.emit(format!("{p}.type"), format!("{c}.type"), Class::Discriminant, &v.to_be_bytes(), false);
    }

    fn fixed(&mut self, p: &str, c: &str, name: &str, b: &[u8], malleable: bool) {
        self.emit(format!("{p}.{name}"), format!("{c}.{name}"), Class::Fixed, b, malleable);
    }

    fn length(&mut self, p: &str, c: &str, name: &str, n: usize) {
        self.emit(format!("{p}.{name}"), format!("{c}.{name}"), Class::Length, &(n as u64).to_be_bytes(), false);
    }

    /// Variable part of a byte vector: mark, content, zero padding to a word.
    fn bytes_padded(&mut self, p: &str, c: &str, name: &str, data: &[u8]) {
        let path = format!("{p}.{name}");
        self.mark(&path);
        self.emit(path.clone(), format!("{c}.{name}"), Class::Bytes, data, false);
        let pad = pad8(data.len()) - data.len();
        self.emit(format!("{path}#pad"), format!("{c}.{name}#pad"), Class::Padding, &[0u8; 8][..pad], false);
    }
}

// ------------------------------------------------------------------ leaves

fn walk_utxo_id(w: &mut W, p: &str, c: &str, u: &UtxoId, malleable: bool) {
    let (p, c) = (format!("{p}.utxoId"), format!("{c}.utxoId"));
    w.fixed(&p, &c, "txId", u.tx_id().as_ref(), malleable);
    w.word(&p, &c, "outputIndex", u.output_index() as u64, malleable);
}

fn walk_tx_pointer(w: &mut W, p: &str, c: &str, t: &TxPointer, malleable: bool) {
    let (p, c) = (format!("{p}.txPointer"), format!("{c}.txPointer"));
    w.word(&p, &c, "blockHeight", u32::from(t.block_height()) as u64, malleable);
    w.word(&p, &c, "txIndex", t.tx_index() as u64, malleable);
}

/// InputContract without the type word (shared by `Input::Contract` and Mint).
fn walk_input_contract_body(w: &mut W, p: &str, c: &str, k: &InputContract) {
    walk_utxo_id(w, p, c, &k.utxo_id, true);
    w.fixed(p, c, "balanceRoot", k.balance_root.as_ref(), true);
    w.fixed(p, c, "stateRoot", k.state_root.as_ref(), true);
    walk_tx_pointer(w, p, c, &k.tx_pointer, true);
    w.fixed(p, c, "contractId", k.contract_id.as_ref(), false);
}

/// OutputContract without the type word (shared by `Output::Contract` and Mint).
fn walk_output_contract_body(w: &mut W, p: &str, c: &str, k: &OutputContract) {
    w.word(p, c, "inputIndex", k.input_index as u64, false);
    w.fixed(p, c, "balanceRoot", k.balance_root.as_ref(), true);
    w.fixed(p, c, "stateRoot", k.state_root.as_ref(), true);
}

#[allow(clippy::too_many_arguments)]
fn walk_coin(
    w: &mut W,
    p: &str,
    c: &str,
    utxo_id: &UtxoId,
    owner: &[u8],
    amount: u64,
    asset_id: &[u8],
    tx_pointer: &TxPointer,
    witness_index: u64,
    predicate_gas_used: u64,
    predicate: &[u8],
    predicate_data: &[u8],
) {
    w.discr(p, c, 0);
    walk_utxo_id(w, p, c, utxo_id, false);
    w.fixed(p, c, "owner", owner, false);
    w.word(p, c, "amount", amount, false);
    w.fixed(p, c, "assetId", asset_id, false);
    walk_tx_pointer(w, p, c, tx_pointer, true);
    w.word(p, c, "witnessIndex", witness_index, false);
    w.word(p, c, "predicateGasUsed", predicate_gas_used, true);
    w.length(p, c, "predicateLength", predicate.len());
    w.length(p, c, "predicateDataLength", predicate_data.len());
    w.bytes_padded(p, c, "predicate", predicate);
    w.bytes_padded(p, c, "predicateData", predicate_data);
}

#[allow(clippy::too_many_arguments)]
fn walk_message(
    w: &mut W,
    p: &str,
    c: &str,
    sender: &[u8],
    recipient: &[u8],
    amount: u64,
    nonce: &[u8],
    witness_index: u64,
    predicate_gas_used: u64,
    data: &[u8],
    predicate: &[u8],
    predicate_data: &[u8],
) {
    w.discr(p, c, 2);
    w.fixed(p, c, "sender", sender, false);
    w.fixed(p, c, "recipient", recipient, false);
    w.word(p, c, "amount", amount, false);
    w.fixed(p, c, "nonce", nonce, false);
    w.word(p, c, "witnessIndex", witness_index, false);
    w.word(p, c, "predicateGasUsed", predicate_gas_used, true);
    w.length(p, c, "dataLength", data.len());
    w.length(p, c, "predicateLength", predicate.len());
    w.length(p, c, "predicateDataLength", predicate_data.len());
    w.bytes_padded(p, c, "data", data);
    w.bytes_padded(p, c, "predicate", predicate);
    w.bytes_padded(p, c, "predicateData", predicate_data);
}

pub fn input_class(input: &Input) -> &'static str {
    match input {
        Input::CoinSigned(_) => "Input::CoinSigned",
        Input::CoinPredicate(_) => "Input::CoinPredicate",
        Input::Contract(_) => "Input::Contract",
        Input::MessageCoinSigned(_) => "Input::MessageCoinSigned",
        Input::MessageCoinPredicate(_) => "Input::MessageCoinPredicate",
        Input::MessageDataSigned(_) => "Input::MessageDataSigned",
        Input::MessageDataPredicate(_) => "Input::MessageDataPredicate",
    }
}

pub fn output_class(output: &Output) -> &'static str {
    match output {
        Output::Coin { .. } => "Output::Coin",
        Output::Contract(_) => "Output::Contract",
        Output::Change { .. } => "Output::Change",
        Output::Variable { .. } => "Output::Variable",
        Output::ContractCreated { .. } => "Output::ContractCreated",
    }
}

fn walk_input(w: &mut W, p: &str, input: &Input) {
    w.mark(p);
    let c = input_class(input);
    match input {
        Input::CoinSigned(CoinSigned {
            utxo_id,
            owner,
            amount,
            asset_id,
            tx_pointer,
            witness_index,
            ..
        }) => walk_coin(
            w,
            p,
            c,
            utxo_id,
            owner.as_ref(),
            *amount,
            asset_id.as_ref(),
            tx_pointer,
            *witness_index as u64,
            0,
            &[],
            &[],
        ),
        Input::CoinPredicate(CoinPredicate {
            utxo_id,
            owner,
            amount,
            asset_id,
            tx_pointer,
            predicate_gas_used,
            predicate,
            predicate_data,
            ..
        }) => walk_coin(
            w,
            p,
            c,
            utxo_id,
            owner.as_ref(),
            *amount,
            asset_id.as_ref(),
            tx_pointer,
            0,
            *predicate_gas_used,
            predicate.as_slice(),
            predicate_data.as_slice(),
        ),
        Input::Contract(k) => {
            w.discr(p, c, 1);
            walk_input_contract_body(w, p, c, k);
        }
        Input::MessageCoinSigned(MessageCoinSigned {
            sender,
            recipient,
            amount,
            nonce,
            witness_index,
            ..
        }) => walk_message(
            w,
            p,
            c,
            sender.as_ref(),
            recipient.as_ref(),
            *amount,
            nonce.as_ref(),
            *witness_index as u64,
            0,
            &[],
            &[],
            &[],
        ),
        Input::MessageCoinPredicate(MessageCoinPredicate {
            sender,
            recipient,
            amount,
            nonce,
            predicate_gas_used,
            predicate,
            predicate_data,
            ..
        }) => walk_message(
            w,
            p,
            c,
            sender.as_ref(),
            recipient.as_ref(),
            *amount,
            nonce.as_ref(),
            0,
            *predicate_gas_used,
            &[],
            predicate.as_slice(),
            predicate_data.as_slice(),
        ),
        Input::MessageDataSigned(MessageDataSigned {
            sender,
            recipient,
            amount,
            nonce,
            witness_index,
            data,
            ..
        }) => walk_message(
            w,
            p,
            c,
            sender.as_ref(),
            recipient.as_ref(),
            *amount,
            nonce.as_ref(),
            *witness_index as u64,
            0,
            data.as_slice(),
            &[],
            &[],
        ),
        Input::MessageDataPredicate(MessageDataPredicate {
            sender,
            recipient,
            amount,
            nonce,
            predicate_gas_used,
            data,
            predicate,
            predicate_data,
            ..
        }) => walk_message(
            w,
            p,
            c,
            sender.as_ref(),
            recipient.as_ref(),
            *amount,
            nonce.as_ref(),
            0,
            *predicate_gas_used,
            data.as_slice(),
            predicate.as_slice(),
            predicate_data.as_slice(),
        ),
    }
}

fn walk_output(w: &mut W, p: &str, output: &Output) {
    w.mark(p);
    let c = output_class(output);
    match output {
        Output::Coin { to, amount, asset_id } => {
            w.discr(p, c, 0);
            w.fixed(p, c, "to", to.as_ref(), false);
            w.word(p, c, "amount", *amount, false);
            w.fixed(p, c, "assetId", asset_id.as_ref(), false);
        }
        Output::Contract(k) => {
            w.discr(p, c, 1);
            walk_output_contract_body(w, p, c, k);
        }
        Output::Change { to, amount, asset_id } => {
            w.discr(p, c, 2);
            w.fixed(p, c, "to", to.as_ref(), false);
            w.word(p, c, "amount", *amount, true);
            w.fixed(p, c, "assetId", asset_id.as_ref(), false);
        }
        Output::Variable { to, amount, asset_id } => {
            w.discr(p, c, 3);
            w.fixed(p, c, "to", to.as_ref(), true);
            w.word(p, c, "amount", *amount, true);
            w.fixed(p, c, "assetId", asset_id.as_ref(), true);
        }
        Output::ContractCreated { contract_id, state_root } => {
            w.discr(p, c, 4);
            w.fixed(p, c, "contractId", contract_id.as_ref(), false);
            w.fixed(p, c, "stateRoot", state_root.as_ref(), false);
        }
    }
}

fn walk_witness(w: &mut W, p: &str, wit: &Witness) {
    w.mark(p);
    let data = wit.as_vec();
    w.length(p, "Witness", "dataLength", data.len());
    w.bytes_padded(p, "Witness", "data", data);
}

fn walk_storage_slot(w: &mut W, p: &str, s: &StorageSlot) {
    w.mark(p);
    w.fixed(p, "StorageSlot", "key", s.key().as_ref(), false);
    w.fixed(p, "StorageSlot", "value", s.value().as_ref(), false);
}

pub const POLICY_ORDER: [(PolicyType, u32, &str); 6] = [
    (PolicyType::Tip, 1, "Tip"),
    (PolicyType::WitnessLimit, 2, "WitnessLimit"),
    (PolicyType::Maturity, 4, "Maturity"),
    (PolicyType::MaxFee, 8, "MaxFee"),
    (PolicyType::Expiration, 16, "Expiration"),
    (PolicyType::Owner, 32, "Owner"),
];

// ------------------------------------------------------------------ transactions

/// Fixed part shared by the chargeable kinds: policyTypes and the three counts.
fn common_fixed<T>(w: &mut W, kind: &str, tx: &T)
where
    T: field::Policies + field::Inputs + field::Outputs + field::Witnesses,
{
    let pol: &Policies = tx.policies();
    w.emit(
        "policyTypes".into(),
        format!("{kind}.policyTypes"),
        Class::Length,
        &(pol.bits() as u64).to_be_bytes(),
        false,
    );
    w.emit(
        "inputsCount".into(),
        format!("{kind}.inputsCount"),
        Class::Length,
        &(tx.inputs().len() as u64).to_be_bytes(),
        false,
    );
    w.emit(
        "outputsCount".into(),
        format!("{kind}.outputsCount"),
        Class::Length,
        &(tx.outputs().len() as u64).to_be_bytes(),
        false,
    );
    w.emit(
        "witnessesCount".into(),
        format!("{kind}.witnessesCount"),
        Class::Length,
        &(tx.witnesses().len() as u64).to_be_bytes(),
        false,
    );
    let last = w.fields.last_mut().expect("just emitted");
    last.in_witnesses = true;
    last.witness_count = true;
}

/// Variable part shared by the chargeable kinds: policies, inputs, outputs, witnesses.
fn common_variable<T>(w: &mut W, tx: &T)
where
    T: field::Policies + field::Inputs + field::Outputs + field::Witnesses,
{
    let pol: &Policies = tx.policies();
    w.mark("policies");
    for (ty, mask, name) in POLICY_ORDER {
        if pol.bits() & mask != 0 {
            let v = pol.get(ty).unwrap_or(0);
            w.word("policies", "policies", name, v, false);
        }
    }
    w.mark("inputs");
    for (i, input) in tx.inputs().iter().enumerate() {
        walk_input(w, &format!("inputs[{i}]"), input);
    }
    w.mark("outputs");
    for (i, output) in tx.outputs().iter().enumerate() {
        walk_output(w, &format!("outputs[{i}]"), output);
    }
    w.mark("witnesses");
    w.in_witnesses = true;
    for (i, wit) in tx.witnesses().iter().enumerate() {
        walk_witness(w, &format!("witnesses[{i}]"), wit);
    }
    w.in_witnesses = false;
    w.mark("end");
}

fn top_discr(w: &mut W, kind: &str, v: u64) {
    w.emit("type".into(), format!("{kind}.type"), Class::Discriminant, &v.to_be_bytes(), false);
}

fn top_word(w: &mut W, kind: &str, name: &str, v: u64) {
    w.emit(name.into(), format!("{kind}.{name}"), Class::Word, &v.to_be_bytes(), false);
}

fn top_fixed(w: &mut W, kind: &str, name: &str, b: &[u8], malleable: bool) {
    w.emit(name.into(), format!("{kind}.{name}"), Class::Fixed, b, malleable);
}

fn top_len(w: &mut W, kind: &str, name: &str, n: usize) {
    w.emit(name.into(), format!("{kind}.{name}"), Class::Length, &(n as u64).to_be_bytes(), false);
}

fn top_bytes(w: &mut W, kind: &str, name: &str, data: &[u8]) {
    w.mark(name);
    w.emit(name.into(), format!("{kind}.{name}"), Class::Bytes, data, false);
    let pad = pad8(data.len()) - data.len();
    w.emit(format!("{name}#pad"), format!("{kind}.{name}#pad"), Class::Padding, &[0u8; 8][..pad], false);
}

pub fn tx_kind(tx: &Transaction) -> &'static str {
    match tx {
        Transaction::Script(_) => "Script",
        Transaction::Create(_) => "Create",
        Transaction::Mint(_) => "Mint",
        Transaction::Upgrade(_) => "Upgrade",
        Transaction::Upload(_) => "Upload",
        Transaction::Blob(_) => "Blob",
    }
}

fn walk_tx(w: &mut W, tx: &Transaction) {
    use field::{
        BlobId as _,
        BytecodeRoot as _,
        BytecodeWitnessIndex as _,
        InputContract as _,
        MintAmount as _,
        MintAssetId as _,
        MintGasPrice as _,
        OutputContract as _,
        ProofSet as _,
        ReceiptsRoot as _,
        Salt as _,
        Script as _,
        ScriptData as _,
        ScriptGasLimit as _,
        StorageSlots as _,
        SubsectionIndex as _,
        SubsectionsNumber as _,
        TxPointer as _,
        UpgradePurpose as _,
    };
    match tx {
        Transaction::Script(t) => {
            let k = "Script";
            top_discr(w, k, 0);
            top_word(w, k, "scriptGasLimit", *t.script_gas_limit());
            top_fixed(w, k, "receiptsRoot", t.receipts_root().as_ref(), true);
            top_len(w, k, "scriptLength", t.script().len());
            top_len(w, k, "scriptDataLength", t.script_data().len());
            common_fixed(w, k, t);
            top_bytes(w, k, "script", t.script());
            top_bytes(w, k, "scriptData", t.script_data());
            common_variable(w, t);
        }
        Transaction::Create(t) => {
            let k = "Create";
            top_discr(w, k, 1);
            top_word(w, k, "bytecodeWitnessIndex", *t.bytecode_witness_index() as u64);
            top_fixed(w, k, "salt", t.salt().as_ref(), false);
            top_len(w, k, "storageSlotsCount", t.storage_slots().len());
            common_fixed(w, k, t);
            w.mark("storageSlots");
            for (i, s) in t.storage_slots().iter().enumerate() {
                walk_storage_slot(w, &format!("storageSlots[{i}]"), s);
            }
            common_variable(w, t);
        }
        Transaction::Mint(t) => {
            let k = "Mint";
            top_discr(w, k, 2);
            walk_tx_pointer(w, "mint", "Mint", t.tx_pointer(), false);
            w.mark("inputContract");
            walk_input_contract_body(w, "inputContract", "Mint.inputContract", t.input_contract());
            w.mark("outputContract");
            walk_output_contract_body(w, "outputContract", "Mint.outputContract", t.output_contract());
            top_word(w, k, "mintAmount", *t.mint_amount());
            top_fixed(w, k, "mintAssetId", t.mint_asset_id().as_ref(), false);
            top_word(w, k, "gasPrice", *t.gas_price());
            w.mark("end");
        }
        Transaction::Upgrade(t) => {
            let k = "Upgrade";
            top_discr(w, k, 3);
            w.mark("purpose");
            match t.upgrade_purpose() {
                UpgradePurpose::ConsensusParameters {
                    witness_index,
                    checksum,
                } => {
                    let c = "UpgradePurpose::ConsensusParameters";
                    w.discr("purpose", c, 0);
                    w.word("purpose", c, "witnessIndex", *witness_index as u64, false);
                    w.fixed("purpose", c, "checksum", checksum.as_ref(), false);
                }
                UpgradePurpose::StateTransition { root } => {
                    let c = "UpgradePurpose::StateTransition";
                    w.discr("purpose", c, 1);
                    w.fixed("purpose", c, "root", root.as_ref(), false);
                }
            }
            common_fixed(w, k, t);
            common_variable(w, t);
        }
        Transaction::Upload(t) => {
            let k = "Upload";
            top_discr(w, k, 4);
            top_fixed(w, k, "root", t.bytecode_root().as_ref(), false);
            top_word(w, k, "witnessIndex", *t.bytecode_witness_index() as u64);
            top_word(w, k, "subsectionIndex", *t.subsection_index() as u64);
            top_word(w, k, "subsectionsNumber", *t.subsections_number() as u64);
            top_len(w, k, "proofSetCount", t.proof_set().len());
            common_fixed(w, k, t);
            w.mark("proofSet");
            for (i, n) in t.proof_set().iter().enumerate() {
                let p = format!("proofSet[{i}]");
                w.mark(&p);
                w.emit(p, "Upload.proofSet[]".into(), Class::Fixed, n.as_ref(), false);
            }
            common_variable(w, t);
        }
        Transaction::Blob(t) => {
            let k = "Blob";
            top_discr(w, k, 5);
            top_fixed(w, k, "id", t.blob_id().as_ref(), false);
            top_word(w, k, "witnessIndex", *t.bytecode_witness_index() as u64);
            common_fixed(w, k, t);
            common_variable(w, t);
        }
    }
}

// ------------------------------------------------------------------ precompute repair

/// Some corpus transactions are refused by `precompute` for reasons unrelated to ids and
/// offsets (Create: the bytecode witness index must name an existing witness; Upgrade with
/// the ConsensusParameters purpose: the named witness must hold serialized parameters
/// matching the checksum). This returns a minimally repaired copy that `precompute`
/// accepts — everything else (inputs, outputs, policies, other witnesses) is unchanged —
/// or `None` if the kind needs no repair.
pub fn repaired_for_precompute(tx: &Transaction) -> Option<Transaction> {
    use field::{
        BytecodeWitnessIndex as _,
        UpgradePurpose as _,
        Witnesses as _,
    };
    match tx {
        Transaction::Create(t) => {
            let mut t = t.clone();
            if t.witnesses().is_empty() {
                t.witnesses_mut().push(Witness::from(vec![0x24u8, 0, 0, 0]));
            }
            *t.bytecode_witness_index_mut() = 0;
            Some(t.into())
        }
        Transaction::Upgrade(t) if matches!(t.upgrade_purpose(), UpgradePurpose::ConsensusParameters { .. }) => {
            let mut t = t.clone();
            let params = postcard::to_allocvec(&fuel_tx::ConsensusParameters::standard()).ok()?;
            let checksum: [u8; 32] = vcore::oracle::sha256(&[&params]);
            if t.witnesses().is_empty() {
                t.witnesses_mut().push(Witness::from(params));
            } else {
                t.witnesses_mut()[0] = Witness::from(params);
            }
            *t.upgrade_purpose_mut() = UpgradePurpose::ConsensusParameters {
                witness_index: 0,
                checksum: checksum.into(),
            };
            Some(t.into())
        }
        _ => None,
    }
}
