//! C26 part (a): schedule conformance, one injected instruction per case.
//!
//! A case = (context, preparation, one raw instruction word, expected cost terms).
//! Preparation and the instruction word are built by the harness from the spec's
//! instruction format (not from `fuel_asm::op::*`); the expected terms come from
//! `c26_sched::rule` (Appendix C) plus, for the size / storage / new-balance-entry
//! rules, from what the harness itself put into storage.
#![allow(dead_code)]

use crate::{
    c26_sched::*,
    progkit::*,
};
use fuel_asm::{
    op,
    Opcode,
    RegId,
};
use fuel_storage::StorageMutate;
use fuel_tx::{
    ConsensusParameters,
    GasCosts,
    TxParameters,
};
use fuel_types::{
    BlobId,
    Bytes32,
};
use fuel_vm::storage::{
    BlobData,
    InterpreterStorage,
    MemoryStorage,
};
use vcore::vmkit::{
    self,
    Step,
    Vm,
};

pub const SWEEP: [u64; 8] = [0, 1, 7, 8, 9, 100, 1000, 65536];
pub const ALLOC: u64 = 262_143;
pub const G_BIG: u64 = 1 << 39;
pub const POKE: u64 = 200_000;

pub fn params_for(costs: &GasCosts) -> ConsensusParameters {
    let mut p = ConsensusParameters::standard();
    p.set_tx_params(TxParameters::DEFAULT.with_max_gas_per_tx(1 << 40));
    p.set_block_gas_limit(1 << 41);
    p.set_gas_costs(costs.clone());
    p
}

pub fn blob_id(i: usize) -> BlobId {
    BlobId::new([0xB0 + i as u8; 32])
}

fn key(last: u8) -> Bytes32 {
    let mut k = [0u8; 32];
    k[31] = last;
    Bytes32::new(k)
}
const K_SET: u8 = 0x10; // 0x10..0x13 hold 32 bytes each
const K_UNSET: u8 = 0x40; // 0x40.. never written
const K_DYN: u8 = 0x80; // 100 bytes
const DYN_LEN: u64 = 100;

/// World for part (a): contract B's code replaced by `bsize` NOOP bytes (None = the
/// default 4-byte `ret`), one blob per sweep length, storage slots of contract A.
pub fn world_a(s: &Sched, bsize: Option<usize>) -> World {
    let mut cfg = WorldCfg::default();
    cfg.params = params_for(&s.costs);
    let mut w = World::new(cfg);
    if let Some(n) = bsize {
        w.storage
            .deploy_contract_with_id(&[], &vec![0x47u8; n], &B)
            .expect("deploy B");
    }
    for (i, n) in SWEEP.iter().enumerate() {
        <MemoryStorage as StorageMutate<BlobData>>::insert(
            &mut w.storage,
            &blob_id(i),
            &vec![0xC5u8; *n as usize],
        )
        .expect("blob");
    }
    for i in 0..4u8 {
        w.storage
            .contract_state_insert(&A, &key(K_SET + i), &[0x5a; 32])
            .expect("slot");
    }
    w.storage
        .contract_state_insert(&A, &key(K_DYN), &[0x6b; DYN_LEN as usize])
        .expect("slot");
    w.storage.commit();
    w.storage.persist();
    w
}

#[derive(Clone, Copy, Debug, PartialEq, Eq)]
pub enum CtxKind {
    Script,
    Contract,
}

#[derive(Clone, Debug)]
pub enum Pre {
    Reg(usize, u64),
    /// inject this word; must proceed
    Raw(u32),
}

#[derive(Clone, Debug)]
pub enum Expect {
    /// Fixed / Dep rule evaluated on the register file before the instruction
    Generic,
    Terms(Vec<Term>),
}

#[derive(Clone, Debug)]
pub struct ACase {
    pub op: String,
    pub label: String,
    pub ctx: CtxKind,
    pub pre: Vec<Pre>,
    pub raw: u32,
    pub expect: Expect,
}

pub struct EnvA {
    pub script: Vm,
    pub contract: Vm,
    pub hs: u64,
    pub hc: u64,
}

fn prep_heap(vm: &mut Vm) -> u64 {
    vmkit::set_reg(vm, 0x10, ALLOC);
    let s = vmkit::inject(vm, op::aloc(0x10));
    assert_eq!(s, Step::Proceed, "heap preparation");
    let h = vmkit::reg(vm, RegId::HP);
    let p = h + POKE;
    let mut poke = |addr: u64, bytes: &[u8]| {
        vm.memory_mut()
            .write_noownerchecks(addr, bytes.len())
            .expect("poke")
            .copy_from_slice(bytes);
    };
    for i in 0..SWEEP.len() {
        poke(p + 32 * i as u64, &blob_id(i).to_vec());
    }
    poke(p + 1024, &key(K_SET).to_vec());
    poke(p + 1056, &key(K_UNSET).to_vec());
    poke(p + 1088, &key(K_DYN).to_vec());
    h
}

pub fn build_env(w: &World) -> EnvA {
    let mut script = w.vm_after_prelude(&[op::ret(RegId::ONE)], G_BIG);
    let hs = prep_heap(&mut script);
    let body = [op::call(r::CALL_A, RegId::ZERO, r::ASSET_BASE, 0x10)];
    let mut contract = w.vm_after_prelude(&body, G_BIG);
    vmkit::set_reg(&mut contract, 0x10, G_BIG / 2);
    let s = vmkit::step(&mut contract);
    assert_eq!(s, Step::Proceed, "entering contract A");
    assert!(vmkit::reg(&contract, RegId::FP) != 0);
    let hc = prep_heap(&mut contract);
    EnvA {
        script,
        contract,
        hs,
        hc,
    }
}

// ------------------------------------------------------------------ encoders

fn o(op: Opcode) -> u32 {
    (op as u8 as u32) << 24
}
fn r4(op: Opcode, a: u32, b: u32, c: u32, d: u32) -> u32 {
    o(op) | (a << 18) | (b << 12) | (c << 6) | d
}
fn ri12(op: Opcode, a: u32, b: u32, imm: u32) -> u32 {
    assert!(imm < (1 << 12));
    o(op) | (a << 18) | (b << 12) | imm
}
fn ri18(op: Opcode, a: u32, imm: u32) -> u32 {
    assert!(imm < (1 << 18));
    o(op) | (a << 18) | imm
}
fn i24(op: Opcode, imm: u32) -> u32 {
    assert!(imm < (1 << 24));
    o(op) | imm
}

// operand registers (free ones)
const R: u32 = 0x10; // result
const A_: u32 = 0x11;
const B_: u32 = 0x12;
const C_: u32 = 0x13;
const D_: u32 = 0x14;
const ST: u32 = 0x15; // status result
const Z: u32 = 0; // $zero

struct Bld {
    v: Vec<ACase>,
}

impl Bld {
    fn add(&mut self, op: Opcode, label: &str, ctx: CtxKind, pre: Vec<Pre>, raw: u32, expect: Expect) {
        assert_eq!(w_op(raw), op as u8);
        let opn = format!("{op:?}");
        let c = match ctx {
            CtxKind::Script => "script",
            CtxKind::Contract => "contract",
        };
        self.v.push(ACase {
            label: format!("{opn}/{c}/{label}"),
            op: opn,
            ctx,
            pre,
            raw,
            expect,
        });
    }
}

fn reg(i: u32, v: u64) -> Pre {
    Pre::Reg(i as usize, v)
}

/// All cases of one world variant. `bsize` = code length of contract B in this
/// variant; `full` = also emit the cases that do not depend on B's size.
pub fn cases(env: &EnvA, bsize: u64, full: bool, epar_max: u64) -> Vec<ACase> {
    use CtxKind::*;
    use Expect::*;
    use Opcode as O;
    let mut b = Bld { v: vec![] };
    let call_a = r::CALL_A as u32;
    let call_b = r::CALL_B as u32;
    let asset_base = r::ASSET_BASE as u32;
    let asset_x = r::ASSET_X as u32;
    let recipient = r::RECIPIENT as u32;
    let pattern = r::PATTERN as u32;
    let h_of = |c: CtxKind| if c == Script { env.hs } else { env.hc };

    if full {
        let ab = || vec![reg(A_, 7), reg(B_, 3)];
        // ---- ALU
        for opx in [
            O::ADD, O::AND, O::DIV, O::EQ, O::EXP, O::GT, O::LT, O::MLOG, O::MROO, O::MOD,
            O::MUL, O::OR, O::SLL, O::SRL, O::SUB, O::XOR,
        ] {
            b.add(opx, "7,3", Script, ab(), r4(opx, R, A_, B_, 0), Generic);
        }
        b.add(O::ADD, "7,3", Contract, ab(), r4(O::ADD, R, A_, B_, 0), Generic);
        for opx in [O::MOVE, O::NOT] {
            b.add(opx, "7", Script, ab(), r4(opx, R, A_, 0, 0), Generic);
        }
        b.add(O::MLDV, "7*3/3", Script, ab(), r4(O::MLDV, R, A_, B_, B_), Generic);
        b.add(O::NIOP, "add.u8", Script, ab(), r4(O::NIOP, R, A_, B_, 0), Generic);
        for opx in [
            O::ADDI, O::ANDI, O::DIVI, O::EXPI, O::MODI, O::MULI, O::ORI, O::SLLI, O::SRLI,
            O::SUBI, O::XORI,
        ] {
            b.add(opx, "7,#3", Script, ab(), ri12(opx, R, A_, 3), Generic);
        }
        b.add(O::MOVI, "#5", Script, vec![], ri18(O::MOVI, R, 5), Generic);
        b.add(O::NOOP, "", Script, vec![], o(O::NOOP), Generic);
        b.add(O::NOOP, "", Contract, vec![], o(O::NOOP), Generic);
        b.add(O::FLAG, "0", Script, vec![], r4(O::FLAG, Z, 0, 0, 0), Generic);
        // ---- control flow (injected: nothing is fetched from the target)
        b.add(O::JI, "#5", Script, vec![], i24(O::JI, 5), Generic);
        b.add(O::JMP, "7", Script, ab(), r4(O::JMP, A_, 0, 0, 0), Generic);
        b.add(O::JNE, "taken", Script, ab(), r4(O::JNE, A_, A_, B_, 0), Generic);
        b.add(O::JNE, "not-taken", Script, ab(), r4(O::JNE, A_, A_, A_, 0), Generic);
        b.add(O::JNEI, "taken", Script, ab(), ri12(O::JNEI, A_, B_, 5), Generic);
        b.add(O::JNEI, "not-taken", Script, ab(), ri12(O::JNEI, A_, A_, 5), Generic);
        b.add(O::JNZI, "taken", Script, ab(), ri18(O::JNZI, A_, 5), Generic);
        b.add(O::JNZI, "not-taken", Script, ab(), ri18(O::JNZI, Z, 5), Generic);
        b.add(O::JMPF, "+1", Script, vec![], ri18(O::JMPF, Z, 1), Generic);
        b.add(O::JMPB, "-1", Script, vec![], ri18(O::JMPB, Z, 0), Generic);
        b.add(O::JNZF, "taken", Script, ab(), ri12(O::JNZF, A_, Z, 1), Generic);
        b.add(O::JNZF, "not-taken", Script, ab(), ri12(O::JNZF, Z, Z, 1), Generic);
        b.add(O::JNZB, "taken", Script, ab(), ri12(O::JNZB, A_, Z, 0), Generic);
        b.add(O::JNZB, "not-taken", Script, ab(), ri12(O::JNZB, Z, Z, 0), Generic);
        b.add(O::JNEF, "taken", Script, ab(), r4(O::JNEF, A_, B_, Z, 1), Generic);
        b.add(O::JNEF, "not-taken", Script, ab(), r4(O::JNEF, A_, A_, Z, 1), Generic);
        b.add(O::JNEB, "taken", Script, ab(), r4(O::JNEB, A_, B_, Z, 0), Generic);
        b.add(O::JNEB, "not-taken", Script, ab(), r4(O::JNEB, A_, A_, Z, 0), Generic);
        b.add(O::JAL, "1024", Script, vec![reg(A_, 1024)], ri12(O::JAL, R, A_, 1), Generic);
        for c in [Script, Contract] {
            b.add(O::RET, "1", c, vec![], r4(O::RET, 1, 0, 0, 0), Generic);
            b.add(O::RVRT, "1", c, vec![], r4(O::RVRT, 1, 0, 0, 0), Generic);
        }
        // ---- stack / heap
        for n in SWEEP {
            b.add(O::ALOC, &format!("{n}"), Script, vec![reg(A_, n)], r4(O::ALOC, A_, 0, 0, 0), Generic);
            b.add(O::CFE, &format!("{n}"), Script, vec![reg(A_, n)], r4(O::CFE, A_, 0, 0, 0), Generic);
            b.add(O::CFEI, &format!("#{n}"), Script, vec![], i24(O::CFEI, n as u32), Generic);
        }
        b.add(O::ALOC, "100", Contract, vec![reg(A_, 100)], r4(O::ALOC, A_, 0, 0, 0), Generic);
        b.add(O::CFEI, "#100", Contract, vec![], i24(O::CFEI, 100), Generic);
        b.add(O::CFSI, "#64", Script, vec![Pre::Raw(i24(O::CFEI, 64))], i24(O::CFSI, 64), Generic);
        b.add(O::CFS, "64", Script, vec![Pre::Raw(i24(O::CFEI, 64)), reg(A_, 64)], r4(O::CFS, A_, 0, 0, 0), Generic);
        b.add(O::PSHL, "#5", Script, vec![], i24(O::PSHL, 0b101), Generic);
        b.add(O::PSHH, "#5", Script, vec![], i24(O::PSHH, 0b101), Generic);
        b.add(O::POPL, "#5", Script, vec![Pre::Raw(i24(O::PSHL, 0b101))], i24(O::POPL, 0b101), Generic);
        b.add(O::POPH, "#5", Script, vec![Pre::Raw(i24(O::PSHH, 0b101))], i24(O::POPH, 0b101), Generic);
        // ---- memory
        for c in [Script, Contract] {
            let h = h_of(c);
            let sweep: Vec<u64> = if c == Script { SWEEP.to_vec() } else { vec![9, 1000] };
            for opx in [O::LB, O::LW, O::LQW, O::LHW] {
                b.add(opx, "pattern", c, vec![], ri12(opx, R, pattern, 0), Generic);
            }
            for opx in [O::SB, O::SW, O::SQW, O::SHW] {
                b.add(opx, "heap", c, vec![reg(A_, h), reg(B_, 0xabcd)], ri12(opx, A_, B_, 0), Generic);
            }
            for n in &sweep {
                let n = *n;
                let l = format!("{n}");
                b.add(O::MCL, &l, c, vec![reg(A_, h), reg(B_, n)], r4(O::MCL, A_, B_, 0, 0), Generic);
                b.add(O::MCLI, &format!("#{n}"), c, vec![reg(A_, h)], ri18(O::MCLI, A_, n as u32), Generic);
                b.add(O::MCP, &l, c, vec![reg(A_, h), reg(B_, h + 65536), reg(C_, n)], r4(O::MCP, A_, B_, C_, 0), Generic);
                b.add(O::MEQ, &l, c, vec![reg(A_, h), reg(B_, h + 65536), reg(D_, n)], r4(O::MEQ, R, A_, B_, D_), Generic);
                b.add(O::K256, &l, c, vec![reg(A_, h), reg(B_, h + 65536), reg(C_, n)], r4(O::K256, A_, B_, C_, 0), Generic);
                b.add(O::S256, &l, c, vec![reg(A_, h), reg(B_, h + 65536), reg(C_, n)], r4(O::S256, A_, B_, C_, 0), Generic);
                b.add(O::ED19, &l, c, vec![reg(A_, h), reg(B_, h + 100), reg(C_, h + 65536), reg(D_, n)], r4(O::ED19, A_, B_, C_, D_), Generic);
                b.add(O::LOGD, &l, c, vec![reg(C_, h), reg(D_, n)], r4(O::LOGD, Z, Z, C_, D_), Generic);
                b.add(O::RETD, &l, c, vec![reg(A_, h), reg(B_, n)], r4(O::RETD, A_, B_, 0, 0), Generic);
                b.add(O::SMO, &l, c, vec![reg(B_, h), reg(C_, n)], r4(O::SMO, recipient, B_, C_, Z), Generic);
            }
            let mcpi: Vec<u64> = if c == Script { vec![0, 1, 7, 8, 9, 100, 1000, 4095] } else { vec![9] };
            for n in mcpi {
                b.add(O::MCPI, &format!("#{n}"), c, vec![reg(A_, h), reg(B_, h + 65536)], ri12(O::MCPI, A_, B_, n as u32), Generic);
            }
        }
        {
            let h = env.hs;
            for n in SWEEP.iter().copied().filter(|n| *n <= epar_max) {
                b.add(O::EPAR, &format!("{n}"), Script, vec![reg(C_, n), reg(D_, h)], r4(O::EPAR, R, Z, C_, D_), Generic);
            }
            b.add(O::ECOP, "add(inf,inf)", Script, vec![reg(A_, h), reg(D_, h + 1000)], r4(O::ECOP, A_, Z, Z, D_), Generic);
            b.add(O::ECK1, "zero-sig", Script, vec![reg(A_, h), reg(B_, h + 1000), reg(C_, h + 2000)], r4(O::ECK1, A_, B_, C_, 0), Generic);
            b.add(O::ECR1, "zero-sig", Script, vec![reg(A_, h), reg(B_, h + 1000), reg(C_, h + 2000)], r4(O::ECR1, A_, B_, C_, 0), Generic);
            // wide integers: operands = the 64-byte pattern in script data (non-zero)
            let pre = vec![reg(A_, h)];
            b.add(O::WDCM, "eq.ind", Script, pre.clone(), r4(O::WDCM, R, pattern, pattern, 0x20), Generic);
            b.add(O::WQCM, "eq.ind", Script, pre.clone(), r4(O::WQCM, R, pattern, pattern, 0x20), Generic);
            b.add(O::WDOP, "add.ind", Script, pre.clone(), r4(O::WDOP, A_, pattern, pattern, 0x20), Generic);
            b.add(O::WQOP, "add.ind", Script, pre.clone(), r4(O::WQOP, A_, pattern, pattern, 0x20), Generic);
            // multiplication: direct (zero-extended register) operands, so no overflow
            let mul = vec![reg(A_, h), reg(B_, 3), reg(C_, 5)];
            b.add(O::WDML, "3*5", Script, mul.clone(), r4(O::WDML, A_, B_, C_, 0), Generic);
            b.add(O::WQML, "3*5", Script, mul, r4(O::WQML, A_, B_, C_, 0), Generic);
            b.add(O::WDDV, "ind", Script, pre.clone(), r4(O::WDDV, A_, pattern, pattern, 0x20), Generic);
            b.add(O::WQDV, "ind", Script, pre.clone(), r4(O::WQDV, A_, pattern, pattern, 0x20), Generic);
            for opx in [O::WDMD, O::WQMD, O::WDAM, O::WQAM, O::WDMM, O::WQMM] {
                b.add(opx, "pattern", Script, pre.clone(), r4(opx, A_, pattern, pattern, pattern), Generic);
            }
        }
        // ---- chain / tx introspection
        for c in [Script, Contract] {
            let h = h_of(c);
            b.add(O::BAL, "A,X", c, vec![], r4(O::BAL, R, asset_x, call_a, 0), Generic);
            b.add(O::BHEI, "", c, vec![], r4(O::BHEI, R, 0, 0, 0), Generic);
            b.add(O::BHSH, "0", c, vec![reg(A_, h)], r4(O::BHSH, A_, Z, 0, 0), Generic);
            b.add(O::CB, "", c, vec![reg(A_, h)], r4(O::CB, A_, 0, 0, 0), Generic);
            b.add(O::TIME, "0", c, vec![], r4(O::TIME, R, Z, 0, 0), Generic);
            b.add(O::GM, "chain-id", c, vec![], ri18(O::GM, R, 4), Generic);
            b.add(O::GTF, "script-data", c, vec![], ri12(O::GTF, R, Z, fuel_asm::GTFArgs::ScriptData as u32), Generic);
            b.add(O::LOG, "", c, vec![], r4(O::LOG, Z, Z, Z, Z), Generic);
            b.add(O::TRO, "1 X -> out4", c, vec![reg(A_, 1), reg(B_, 4)], r4(O::TRO, recipient, B_, A_, asset_x), Generic);
        }
        b.add(O::GM, "is-caller-external", Contract, vec![], ri18(O::GM, R, 1), Generic);
        // ---- transfers / mint / burn (balance-entry surcharge: Appendix C)
        let one = vec![reg(A_, 1)];
        b.add(O::TR, "script->A X (entry exists)", Script, one.clone(), r4(O::TR, call_a, A_, asset_x, 0), Terms(vec![Term::Fixed("tr")]));
        b.add(O::TR, "script->B X (entry created)", Script, one.clone(), r4(O::TR, call_b, A_, asset_x, 0), Terms(vec![Term::Fixed("tr"), Term::NewBytes(40)]));
        b.add(O::TR, "A->B X (entry created)", Contract, one.clone(), r4(O::TR, call_b, A_, asset_x, 0), Terms(vec![Term::Fixed("tr"), Term::NewBytes(40)]));
        b.add(
            O::TR,
            "A->B X twice (second)",
            Contract,
            vec![reg(A_, 1), Pre::Raw(r4(O::TR, call_b, A_, asset_x, 0))],
            r4(O::TR, call_b, A_, asset_x, 0),
            Terms(vec![Term::Fixed("tr")]),
        );
        let hc = env.hc;
        b.add(O::MINT, "first (entry created)", Contract, vec![reg(A_, 5), reg(B_, hc)], r4(O::MINT, A_, B_, 0, 0), Terms(vec![Term::Fixed("mint"), Term::NewBytes(40)]));
        b.add(
            O::MINT,
            "second",
            Contract,
            vec![reg(A_, 5), reg(B_, hc), Pre::Raw(r4(O::MINT, A_, B_, 0, 0))],
            r4(O::MINT, A_, B_, 0, 0),
            Terms(vec![Term::Fixed("mint")]),
        );
        b.add(
            O::BURN,
            "after mint",
            Contract,
            vec![reg(A_, 5), reg(B_, hc), Pre::Raw(r4(O::MINT, A_, B_, 0, 0))],
            r4(O::BURN, A_, B_, 0, 0),
            Generic,
        );
        // ---- calls with coins
        let fwd = |coins: u64| vec![reg(A_, coins), reg(D_, 1000)];
        b.add(
            O::CALL,
            "script->B 1 X (entry created)",
            Script,
            fwd(1),
            r4(O::CALL, call_b, A_, asset_x, D_),
            Terms(vec![Term::Base("call"), Term::Per("call", pad8(bsize)), Term::NewBytes(40)]),
        );
        b.add(
            O::CALL,
            "script->A 1 X (entry exists)",
            Script,
            fwd(1),
            r4(O::CALL, call_a, A_, asset_x, D_),
            Terms(vec![Term::Base("call"), Term::Per("call", pad8(4))]),
        );
        b.add(
            O::CALL,
            "script->B 1 base (entry exists)",
            Script,
            fwd(1),
            r4(O::CALL, call_b, A_, asset_base, D_),
            Terms(vec![Term::Base("call"), Term::Per("call", pad8(bsize))]),
        );
        // ---- blobs
        for (i, bl) in SWEEP.iter().enumerate() {
            let bl = *bl;
            let idp = |h: u64| h + POKE + 32 * i as u64;
            let h = env.hs;
            b.add(O::BSIZ, &format!("blob{bl}"), Script, vec![reg(A_, idp(h))], r4(O::BSIZ, R, A_, 0, 0), Terms(vec![Term::Base("bsiz"), Term::Per("bsiz", bl)]));
            for len in [0u64, 8] {
                b.add(
                    O::BLDD,
                    &format!("blob{bl} len{len}"),
                    Script,
                    vec![reg(A_, h), reg(B_, idp(h)), reg(D_, len)],
                    r4(O::BLDD, A_, B_, Z, D_),
                    Terms(vec![Term::Base("bldd"), Term::Per("bldd", len.max(bl))]),
                );
            }
            for len in [0u64, 8, 1000] {
                b.add(
                    O::LDC,
                    &format!("mode1 blob{bl} len{len}"),
                    Script,
                    vec![reg(A_, idp(h)), reg(D_, len)],
                    r4(O::LDC, A_, Z, D_, 1),
                    Terms(vec![Term::Base("ldc"), Term::Per("ldc", pad8(len).max(bl))]),
                );
            }
        }
        {
            // blob of 100 bytes (index 5) x requested length sweep
            let h = env.hs;
            let idp = h + POKE + 32 * 5;
            for len in SWEEP {
                b.add(
                    O::BLDD,
                    &format!("blob100 len{len}"),
                    Script,
                    vec![reg(A_, h), reg(B_, idp), reg(D_, len)],
                    r4(O::BLDD, A_, B_, Z, D_),
                    Terms(vec![Term::Base("bldd"), Term::Per("bldd", len.max(100))]),
                );
                b.add(
                    O::LDC,
                    &format!("mode2 len{len}"),
                    Script,
                    vec![reg(A_, h), reg(D_, len)],
                    r4(O::LDC, A_, Z, D_, 2),
                    Terms(vec![Term::Base("ldc"), Term::Per("ldc", pad8(len))]),
                );
            }
            b.add(
                O::LDC,
                "mode2 len100",
                Contract,
                vec![reg(A_, env.hc), reg(D_, 100)],
                r4(O::LDC, A_, Z, D_, 2),
                Terms(vec![Term::Base("ldc"), Term::Per("ldc", pad8(100))]),
            );
        }
        storage_cases(&mut b, env);
    }

    // ---- depends on the size of contract B's code (every variant)
    let n = bsize;
    for c in [Script, Contract] {
        let h = h_of(c);
        b.add(
            O::CALL,
            &format!("B[{n}] no coins"),
            c,
            vec![reg(D_, 1000)],
            r4(O::CALL, call_b, Z, asset_base, D_),
            Terms(vec![Term::Base("call"), Term::Per("call", pad8(n))]),
        );
        b.add(O::CSIZ, &format!("B[{n}]"), c, vec![], r4(O::CSIZ, R, call_b, 0, 0), Terms(vec![Term::Base("csiz"), Term::Per("csiz", n)]));
        b.add(O::CROO, &format!("B[{n}]"), c, vec![reg(A_, h)], r4(O::CROO, A_, call_b, 0, 0), Terms(vec![Term::Base("croo"), Term::Per("croo", n)]));
        let lens: Vec<u64> = if full && c == Script { SWEEP.to_vec() } else { vec![0, 8] };
        for len in lens {
            b.add(
                O::CCP,
                &format!("B[{n}] len{len}"),
                c,
                vec![reg(A_, h), reg(D_, len)],
                r4(O::CCP, A_, call_b, Z, D_),
                Terms(vec![Term::Base("ccp"), Term::Per("ccp", len.max(n))]),
            );
            b.add(
                O::LDC,
                &format!("mode0 B[{n}] len{len}"),
                c,
                vec![reg(D_, len)],
                r4(O::LDC, call_b, Z, D_, 0),
                Terms(vec![Term::Base("ldc"), Term::Per("ldc", pad8(len).max(n))]),
            );
        }
    }
    b.v
}

/// Storage instructions, inside contract A. Composite reference of Appendix C; it
/// follows the anchored code's micro-operation structure (see evidence note).
fn storage_cases(b: &mut Bld, env: &EnvA) {
    use CtxKind::Contract as K;
    use Expect::Terms;
    use Opcode as O;
    let h = env.hc;
    let p = h + POKE;
    let k_set = p + 1024;
    let k_unset = p + 1056;
    let k_dyn = p + 1088;
    let noop = || Term::Fixed("noop");
    let cold = |l: u64| Term::Full("storage_read_cold", l);
    let hot = |l: u64| Term::Full("storage_read_hot", l);
    let write = |l: u64| Term::Full("storage_write", l);
    let clear = |n: u64| Term::Full("storage_clear", n);
    let spld = |kp: u64| vec![reg(C_, kp), Pre::Raw(r4(O::SPLD, R, C_, 0, 0))];
    let with = |mut a: Vec<Pre>, mut bb: Vec<Pre>| {
        a.append(&mut bb);
        a
    };
    // key, stored length, name
    let keys = [(k_set, 32u64, "set32"), (k_unset, 0u64, "unset"), (k_dyn, DYN_LEN, "dyn100")];

    for (kp, len, name) in keys {
        // SPLD
        b.add(O::SPLD, &format!("{name} cold"), K, vec![reg(A_, kp)], r4(O::SPLD, R, A_, 0, 0), Terms(vec![noop(), cold(len)]));
        b.add(O::SPLD, &format!("{name} hot"), K, with(spld(kp), vec![reg(A_, kp)]), r4(O::SPLD, R, A_, 0, 0), Terms(vec![noop(), hot(len)]));
        // SRW (word 0) — needs >= 8 bytes when set
        b.add(O::SRW, &format!("{name} cold"), K, vec![reg(C_, kp)], r4(O::SRW, R, ST, C_, 0), Terms(vec![noop(), cold(len)]));
        b.add(O::SRW, &format!("{name} hot"), K, spld(kp), r4(O::SRW, R, ST, C_, 0), Terms(vec![noop(), hot(len)]));
        // SWW: read, write 32, new bytes
        let neu = 32u64.saturating_sub(len);
        b.add(O::SWW, &format!("{name} cold"), K, vec![reg(A_, kp), reg(C_, 77)], r4(O::SWW, A_, ST, C_, 0), Terms(vec![noop(), cold(len), write(32), Term::NewBytes(neu)]));
        b.add(O::SWW, &format!("{name} hot"), K, with(spld(kp), vec![reg(A_, kp), reg(B_, 77)]), r4(O::SWW, A_, ST, B_, 0), Terms(vec![noop(), hot(len), write(32), Term::NewBytes(neu)]));
        // SRDD / SRDI: 8 bytes at offset 0 (unset: $err = 1)
        b.add(O::SRDD, &format!("{name} cold"), K, vec![reg(A_, h), reg(B_, kp), reg(D_, 8)], r4(O::SRDD, A_, B_, Z, D_), Terms(vec![noop(), cold(len)]));
        b.add(O::SRDI, &format!("{name} cold"), K, vec![reg(A_, h), reg(B_, kp)], r4(O::SRDI, A_, B_, Z, 8), Terms(vec![noop(), cold(len)]));
        b.add(O::SRDD, &format!("{name} hot"), K, with(spld(kp), vec![reg(A_, h), reg(B_, kp), reg(D_, 8)]), r4(O::SRDD, A_, B_, Z, D_), Terms(vec![noop(), hot(len)]));
        // SWRD / SWRI: no read charge; new bytes against the old length
        for n in SWEEP {
            b.add(
                O::SWRD,
                &format!("{name} len{n}"),
                K,
                vec![reg(A_, kp), reg(B_, h), reg(C_, n)],
                r4(O::SWRD, A_, B_, C_, 0),
                Terms(vec![noop(), write(n), Term::NewBytes(n.saturating_sub(len))]),
            );
        }
        for n in [0u64, 1, 7, 8, 9, 100, 1000, 4095] {
            b.add(
                O::SWRI,
                &format!("{name} #{n}"),
                K,
                vec![reg(A_, kp), reg(B_, h)],
                ri12(O::SWRI, A_, B_, n as u32),
                Terms(vec![noop(), write(n), Term::NewBytes(n.saturating_sub(len))]),
            );
        }
        // SUPD / SUPI: read, then write of the resulting length
        for (off, wl) in [(0u64, 8u64), (len, 16), (u64::MAX, 40)] {
            let at = if off == u64::MAX { len } else { off };
            let after = len.max(at + wl);
            let terms = vec![noop(), cold(len), write(after), Term::NewBytes(after - len)];
            b.add(
                O::SUPD,
                &format!("{name} off{} len{wl}", if off == u64::MAX { "END".to_string() } else { off.to_string() }),
                K,
                vec![reg(A_, kp), reg(B_, h), reg(C_, off), reg(D_, wl)],
                r4(O::SUPD, A_, B_, C_, D_),
                Terms(terms.clone()),
            );
            b.add(
                O::SUPI,
                &format!("{name} off{} #{wl}", if off == u64::MAX { "END".to_string() } else { off.to_string() }),
                K,
                vec![reg(A_, kp), reg(B_, h), reg(C_, off)],
                r4(O::SUPI, A_, B_, C_, wl as u32),
                Terms(terms),
            );
        }
    }
    // ranges: SET run has 4 consecutive 32-byte slots, UNSET run is empty
    for (kp, len, name) in [(k_set, 32u64, "set"), (k_unset, 0u64, "unset")] {
        for n in [0u64, 1, 2, 4] {
            let reads_cold: Vec<Term> = (0..n).map(|_| cold(len)).collect();
            // SRWQ (unset slots read as zeros)
            let mut t = vec![noop()];
            t.extend(reads_cold.clone());
            b.add(O::SRWQ, &format!("{name} x{n}"), K, vec![reg(A_, h), reg(C_, kp), reg(D_, n)], r4(O::SRWQ, A_, ST, C_, D_), Terms(t));
            // SCWQ: read each, clear range
            let mut t = vec![noop()];
            t.extend(reads_cold.clone());
            t.push(clear(n));
            b.add(O::SCWQ, &format!("{name} x{n}"), K, vec![reg(A_, kp), reg(C_, n)], r4(O::SCWQ, A_, ST, C_, 0), Terms(t));
            // SWWQ: per slot read + write 32 + new bytes
            let mut t = vec![noop()];
            for _ in 0..n {
                t.push(cold(len));
                t.push(write(32));
                t.push(Term::NewBytes(32 - len));
            }
            b.add(O::SWWQ, &format!("{name} x{n}"), K, vec![reg(A_, kp), reg(C_, h), reg(D_, n)], r4(O::SWWQ, A_, ST, C_, D_), Terms(t));
        }
        // first slot already touched: hot, the rest cold
        let mut t = vec![noop(), hot(len)];
        t.extend((0..3).map(|_| cold(len)));
        b.add(O::SRWQ, &format!("{name} x4 first hot"), K, with(spld(kp), vec![reg(A_, h), reg(D_, 4)]), r4(O::SRWQ, A_, ST, C_, D_), Terms(t));
    }
    for n in SWEEP {
        b.add(O::SCLR, &format!("x{n}"), K, vec![reg(A_, k_set), reg(B_, n)], r4(O::SCLR, A_, B_, 0, 0), Terms(vec![noop(), clear(n)]));
    }
}

#[derive(Debug, Clone)]
pub enum AOutcome {
    Ok { cost: u64 },
    /// the instruction (or its preparation) did not succeed with benign arguments
    NotExecuted(String),
    Violation { key: String, what: String },
}

pub fn run_case(s: &Sched, env: &EnvA, c: &ACase) -> AOutcome {
    let mut vm = match c.ctx {
        CtxKind::Script => env.script.clone(),
        CtxKind::Contract => env.contract.clone(),
    };
    for p in &c.pre {
        match p {
            Pre::Reg(i, v) => vmkit::set_reg(&mut vm, *i, *v),
            Pre::Raw(w) => {
                let st = vmkit::inject_raw(&mut vm, *w);
                if st != Step::Proceed {
                    return AOutcome::NotExecuted(format!("preparation {w:#010x}: {}", st.label()))
                }
            }
        }
    }
    let regs = vmkit::regs(&vm);
    let (c0, g0) = (regs[RegId::CGAS.to_u8() as usize], regs[RegId::GGAS.to_u8() as usize]);
    let expected = match &c.expect {
        Expect::Terms(t) => eval(s, t),
        Expect::Generic => match generic_terms(&c.op, c.raw, &regs) {
            Some(t) => eval(s, &t),
            None => return AOutcome::NotExecuted("no generic rule".into()),
        },
    };
    let st = vmkit::inject_raw(&mut vm, c.raw);
    let (c1, g1) = (vmkit::reg(&vm, RegId::CGAS), vmkit::reg(&vm, RegId::GGAS));
    let viol = |class: &str, what: String| AOutcome::Violation {
        key: format!("C26:a:{class}:{}", c.op),
        what: format!("[{}] {} (word {:#010x}): {what}", s.name, c.label, c.raw),
    };
    let succeeded = match (&st, c.op.as_str()) {
        (Step::Return(_), "RET") => true,
        (Step::ReturnData(_), "RETD") => true,
        (Step::Revert(_), "RVRT") => true,
        (Step::Proceed, "RET" | "RETD" | "RVRT") => false,
        (Step::Proceed, _) => true,
        _ => false,
    };
    if !succeeded {
        if st == Step::Panic(fuel_asm::PanicReason::OutOfGas) && expected <= c0 {
            return viol(
                "oog",
                format!("OutOfGas although reference cost {expected} <= available $cgas {c0}"),
            )
        }
        return AOutcome::NotExecuted(st.label())
    }
    let dg = g0.wrapping_sub(g1);
    if g1 > g0 || dg != expected {
        return viol(
            "charge",
            format!("$ggas {g0} -> {g1} (charged {}), reference cost {expected}", g0 as i128 - g1 as i128),
        )
    }
    // context gas: same amount, except that a return inside a call credits the
    // caller's saved context gas (= $ggas - $cgas at depth 1) back
    let returns_to_caller =
        c.ctx == CtxKind::Contract && matches!(st, Step::Return(_) | Step::ReturnData(_));
    let want_c1 = if returns_to_caller {
        (c0 - expected) + (g0 - c0)
    } else if c.op == "CALL" {
        // the callee starts with min(requested = $rD, available after the call's cost)
        regs[w_rd(c.raw)].min(c0 - expected)
    } else {
        c0 - expected
    };
    if c1 != want_c1 {
        return viol(
            "cgas",
            format!("$cgas {c0} -> {c1}, expected {want_c1} (reference cost {expected})"),
        )
    }
    AOutcome::Ok { cost: expected }
}
