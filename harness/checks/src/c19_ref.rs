//! C19 — reference validator and reference free balances.
//!
//! Written from the property statement and DESIGN.md Appendix D (which was compiled
//! from the statement plus the spec references quoted in
//! fuel-tx/src/transaction/validity.rs and the per-kind unique rules). It works on the
//! plain `Case` data only and calls nothing in fuel-tx / fuel-vm / fuel-merkle.
//! The verdict is boolean; the list of broken rules is for labels and evidence.

use super::c19_spec::*;
use std::collections::{
    BTreeMap,
    BTreeSet,
};
use vcore::oracle;

pub struct Ref {
    /// every broken rule, in Appendix D order (empty = valid)
    pub broken: Vec<&'static str>,
    /// expected free balances by asset tag (meaningful when valid, chargeable kinds)
    pub balances: BTreeMap<u8, u64>,
    /// expected retryable amount (sum of message-data inputs)
    pub retryable: u64,
}

impl Ref {
    pub fn valid(&self) -> bool {
        self.broken.is_empty()
    }
}

/// every rule name `reference` can report
pub const ALL_RULES: [&str; 59] = [
    "size", "policies", "witness_limit", "max_gas", "max_fee_unset", "maturity", "expiration",
    "inputs_count", "outputs_count", "witnesses_count", "owner_index", "owner_ownerless",
    "no_spendable", "dup_change", "dup_utxo", "dup_contract", "dup_nonce", "predicate_empty",
    "predicate_len", "predicate_data_len", "witness_index", "contract_in_out", "msg_data_len",
    "contract_out_index", "change_asset_absent", "coin_asset_absent", "balance_overflow",
    "coin_out_exceeds", "fee_exceeds", "script_len", "script_data_len", "script_created_output",
    "create_bytecode_witness", "create_bytecode_len", "create_slots_count", "create_slots_order",
    "restricted_nonbase_input", "restricted_contract_input", "restricted_msgdata_input",
    "restricted_contract_output", "restricted_variable_output", "restricted_change_nonbase",
    "restricted_created_output", "create_created_mismatch", "create_created_multiple",
    "create_created_missing", "upgrade_no_privileged", "upgrade_witness_index", "upgrade_checksum",
    "upgrade_payload", "upload_subsections", "upload_witness_index", "upload_proof",
    "blob_witness_index", "blob_id", "mint_size", "mint_height", "mint_output_index", "mint_asset",
];

/// rules that cannot be the only broken rule of any transaction: a contract input
/// (output) in a restricted kind needs its output (input), which is restricted too; a
/// non-base change output needs a non-base input, which is restricted too
pub const NEVER_ALONE: [&str; 3] = ["restricted_contract_input", "restricted_contract_output", "restricted_change_nonbase"];

// ------------------------------------------------------------------ canonical size

fn pad8(n: u64) -> u64 {
    n.div_ceil(8) * 8
}

fn in_size(i: &In) -> u64 {
    match i {
        // discriminant 8 + utxo 40 + owner 32 + amount 8 + asset 32 + tx pointer 16 +
        // witness index 8 + predicate gas 8 + predicate len 8 + predicate data len 8
        In::Coin { signed, pred, pdata, .. } => {
            168 + if *signed { 0 } else { pad8(*pred as u64) + pad8(*pdata as u64) }
        }
        // discriminant 8 + sender 32 + recipient 32 + amount 8 + nonce 32 + witness
        // index 8 + predicate gas 8 + data len 8 + predicate len 8 + predicate data len 8
        In::Msg { data, signed, dlen, pred, pdata, .. } => {
            152 + if *data { pad8(*dlen as u64) } else { 0 }
                + if *signed { 0 } else { pad8(*pred as u64) + pad8(*pdata as u64) }
        }
        // discriminant 8 + utxo 40 + two roots 64 + tx pointer 16 + contract id 32
        In::Contract { .. } => 160,
    }
}

fn out_size(o: &Out) -> u64 {
    match o {
        Out::Coin { .. } | Out::Change { .. } | Out::Variable { .. } => 80,
        Out::Contract { .. } => 80,
        Out::Created { .. } => 72,
    }
}

pub fn witness_bytes_total(t: &Tx) -> u64 {
    t.wits.iter().map(|w| 8 + pad8(wit_len(w))).sum()
}

fn pol_count(p: &Pol) -> u64 {
    [p.tip, p.witness_limit, p.maturity, p.max_fee, p.expiration, p.owner]
        .iter()
        .filter(|x| x.is_some())
        .count() as u64
}

/// Size of the canonical encoding, from the tx-format tables.
pub fn tx_size(t: &Tx) -> u64 {
    let head = match &t.body {
        Body::Script { script, data, .. } => 96 + pad8(*script as u64) + pad8(*data as u64),
        Body::Create { slots, .. } => 88 + 64 * slots.len() as u64,
        Body::UpgradeCp { .. } => 88,
        Body::UpgradeSt { .. } => 80,
        Body::Upload { proof, .. } => 104 + 32 * proof.len() as u64,
        Body::Blob { .. } => 80,
        Body::Mint { .. } => return 296,
    };
    head + 8 * pol_count(&t.pol)
        + t.ins.iter().map(in_size).sum::<u64>()
        + t.outs.iter().map(out_size).sum::<u64>()
        + witness_bytes_total(t)
}

// ------------------------------------------------------------------ identifiers

/// Contract code root: binary Merkle tree over 16 KiB leaves, the last leaf
/// zero-padded to a multiple of 8 bytes (identifiers/contract-id.md).
pub fn code_root(code: &[u8]) -> B32 {
    let leaves: Vec<Vec<u8>> = code
        .chunks(16 * 1024)
        .map(|c| {
            let mut v = c.to_vec();
            v.resize(pad8(c.len() as u64) as usize, 0);
            v
        })
        .collect();
    oracle::mth(&leaves)
}

pub fn state_root(slots: &[(u8, u8)]) -> B32 {
    let map: BTreeMap<B32, Vec<u8>> = slots
        .iter()
        .map(|(k, v)| (oracle::sha256(&[&slot_key_b(*k)]), slot_val_b(*v).to_vec()))
        .collect();
    oracle::smt_root(&map)
}

pub fn contract_id(salt: u8, code_root: &B32, state_root: &B32) -> B32 {
    oracle::sha256(&[b"FUEL", &salt_b(salt), code_root, state_root])
}

/// (contract id, state root) a Create transaction has to announce, `None` when the
/// bytecode witness index is out of range.
pub fn expected_created(t: &Tx) -> Option<(B32, B32)> {
    let Body::Create { bytecode_wit, salt, slots } = &t.body else {
        return None
    };
    let w = t.wits.get(*bytecode_wit as usize)?;
    let cr = code_root(&wit_bytes(w));
    let sr = state_root(slots);
    Some((contract_id(*salt, &cr, &sr), sr))
}

// ------------------------------------------------------------------ helpers

/// asset tag an input funds (messages count as base asset); contracts fund nothing
pub fn in_asset(i: &In) -> Option<u8> {
    match i {
        In::Coin { asset, .. } => Some(*asset),
        In::Msg { .. } => Some(BASE),
        In::Contract { .. } => None,
    }
}

/// spendable = coin or message without data
pub fn spendable(i: &In) -> Option<(u8, u64)> {
    match i {
        In::Coin { asset, amount, .. } => Some((*asset, *amount)),
        In::Msg { data: false, amount, .. } => Some((BASE, *amount)),
        _ => None,
    }
}

fn has_dup<T: Ord>(it: impl Iterator<Item = T>) -> bool {
    let mut s = BTreeSet::new();
    for x in it {
        if !s.insert(x) {
            return true
        }
    }
    false
}

// ------------------------------------------------------------------ the validator

pub fn reference(c: &Case) -> Ref {
    let t = &c.tx;
    let l = &c.lim;
    let h = c.height as u64;
    let mut b: Vec<&'static str> = vec![];
    let mut balances = BTreeMap::new();

    if let Body::Mint { height, out_index, asset, .. } = &t.body {
        if tx_size(t) > l.max_size {
            b.push("mint_size");
        }
        if *height as u64 != h {
            b.push("mint_height");
        }
        if *out_index != 0 {
            b.push("mint_output_index");
        }
        if *asset != BASE {
            b.push("mint_asset");
        }
        return Ref {
            broken: b,
            balances,
            retryable: 0,
        }
    }

    // ---- common part
    if tx_size(t) > l.max_size {
        b.push("size");
    }
    let p = &t.pol;
    if [p.maturity, p.expiration, p.owner].iter().any(|v| matches!(v, Some(x) if *x > u32::MAX as u64)) {
        b.push("policies");
    }
    if let Some(wl) = p.witness_limit {
        if witness_bytes_total(t) > wl {
            b.push("witness_limit");
        }
    }
    // free gas costs, gas_per_byte = 0, predicate gas 0: max gas is the script gas limit
    let max_gas = match &t.body {
        Body::Script { gas_limit, .. } => *gas_limit,
        _ => 0,
    };
    if max_gas > l.max_gas_per_tx {
        b.push("max_gas");
    }
    if p.max_fee.is_none() {
        b.push("max_fee_unset");
    }
    if p.maturity.unwrap_or(0) > h {
        b.push("maturity");
    }
    if let Some(e) = p.expiration {
        if e < h {
            b.push("expiration");
        }
    }
    if t.ins.len() > l.max_inputs as usize {
        b.push("inputs_count");
    }
    if t.outs.len() > l.max_outputs as usize {
        b.push("outputs_count");
    }
    if t.wits.len() as u64 > l.max_witnesses as u64 {
        b.push("witnesses_count");
    }
    if let Some(o) = p.owner {
        match t.ins.get(usize::try_from(o).unwrap_or(usize::MAX)) {
            None => b.push("owner_index"),
            Some(In::Contract { .. }) => b.push("owner_ownerless"),
            Some(_) => {}
        }
    }
    if !t.ins.iter().any(|i| spendable(i).is_some()) {
        b.push("no_spendable");
    }
    if has_dup(t.outs.iter().filter_map(|o| match o {
        Out::Change { asset, .. } => Some(*asset),
        _ => None,
    })) {
        b.push("dup_change");
    }
    if has_dup(t.ins.iter().filter_map(|i| match i {
        In::Coin { utxo, .. } => Some(*utxo),
        _ => None,
    })) {
        b.push("dup_utxo");
    }
    if has_dup(t.ins.iter().filter_map(|i| match i {
        In::Contract { contract, .. } => Some(*contract),
        _ => None,
    })) {
        b.push("dup_contract");
    }
    if has_dup(t.ins.iter().filter_map(|i| match i {
        In::Msg { nonce, .. } => Some(*nonce),
        _ => None,
    })) {
        b.push("dup_nonce");
    }

    // ---- per input
    let nw = t.wits.len();
    let (mut pe, mut pl, mut pdl, mut wi, mut cio, mut mdl) = (false, false, false, false, false, false);
    for (idx, i) in t.ins.iter().enumerate() {
        let (signed, pred, pdata, wit) = match i {
            In::Coin { signed, pred, pdata, wit, .. } => (*signed, *pred, *pdata, *wit),
            In::Msg { signed, pred, pdata, wit, .. } => (*signed, *pred, *pdata, *wit),
            In::Contract { .. } => {
                let n = t
                    .outs
                    .iter()
                    .filter(|o| matches!(o, Out::Contract { input_index } if *input_index as usize == idx))
                    .count();
                if n != 1 {
                    cio = true;
                }
                continue
            }
        };
        if signed {
            if wit as usize >= nw {
                wi = true;
            }
        } else {
            if pred == 0 {
                pe = true;
            }
            if pred as u64 > l.max_pred {
                pl = true;
            }
            if pdata as u64 > l.max_pdata {
                pdl = true;
            }
        }
        if let In::Msg { data: true, dlen, .. } = i {
            if *dlen == 0 || *dlen as u64 > l.max_msg_data {
                mdl = true;
            }
        }
    }
    for (f, n) in [
        (pe, "predicate_empty"),
        (pl, "predicate_len"),
        (pdl, "predicate_data_len"),
        (wi, "witness_index"),
        (cio, "contract_in_out"),
        (mdl, "msg_data_len"),
    ] {
        if f {
            b.push(n);
        }
    }

    // ---- per output
    let in_assets: BTreeSet<u8> = t.ins.iter().filter_map(in_asset).collect();
    let (mut coi, mut caa, mut coa) = (false, false, false);
    for o in &t.outs {
        match o {
            Out::Contract { input_index } => {
                if !matches!(t.ins.get(*input_index as usize), Some(In::Contract { .. })) {
                    coi = true;
                }
            }
            Out::Change { asset, .. } => {
                if !in_assets.contains(asset) {
                    caa = true;
                }
            }
            Out::Coin { asset, .. } => {
                if !in_assets.contains(asset) {
                    coa = true;
                }
            }
            _ => {}
        }
    }
    for (f, n) in [
        (coi, "contract_out_index"),
        (caa, "change_asset_absent"),
        (coa, "coin_asset_absent"),
    ] {
        if f {
            b.push(n);
        }
    }

    // ---- balances
    let mut sum_in: BTreeMap<u8, u128> = BTreeMap::new();
    for (a, v) in t.ins.iter().filter_map(spendable) {
        *sum_in.entry(a).or_default() += v as u128;
    }
    let mut retry: u128 = 0;
    for i in &t.ins {
        if let In::Msg { data: true, amount, .. } = i {
            retry += *amount as u128;
        }
    }
    let mut sum_out: BTreeMap<u8, u128> = BTreeMap::new();
    for o in &t.outs {
        if let Out::Coin { asset, amount, .. } = o {
            *sum_out.entry(*asset).or_default() += *amount as u128;
        }
    }
    if sum_in.values().any(|v| *v > u64::MAX as u128) {
        b.push("balance_overflow");
    }
    let fee = p.max_fee.unwrap_or(0) as u128;
    let mut out_exceeds = false;
    for (a, o) in &sum_out {
        if sum_in.get(a).copied().unwrap_or(0) < *o {
            out_exceeds = true;
        }
    }
    if out_exceeds {
        b.push("coin_out_exceeds");
    }
    let base_in = sum_in.get(&BASE).copied().unwrap_or(0);
    let base_out = sum_out.get(&BASE).copied().unwrap_or(0);
    if base_in >= base_out && base_in < base_out + fee {
        b.push("fee_exceeds");
    }
    for (a, v) in &sum_in {
        let mut free = v.saturating_sub(sum_out.get(a).copied().unwrap_or(0));
        if *a == BASE {
            free = free.saturating_sub(fee);
        }
        balances.insert(*a, free.min(u64::MAX as u128) as u64);
    }

    // ---- kind-specific
    let restricted = |b: &mut Vec<&'static str>, is_create: bool| {
        if t.ins.iter().any(|i| matches!(i, In::Coin { asset, .. } if *asset != BASE)) {
            b.push("restricted_nonbase_input");
        }
        if t.ins.iter().any(|i| matches!(i, In::Contract { .. })) {
            b.push("restricted_contract_input");
        }
        if t.ins.iter().any(|i| matches!(i, In::Msg { data: true, .. })) {
            b.push("restricted_msgdata_input");
        }
        if t.outs.iter().any(|o| matches!(o, Out::Contract { .. })) {
            b.push("restricted_contract_output");
        }
        if t.outs.iter().any(|o| matches!(o, Out::Variable { .. })) {
            b.push("restricted_variable_output");
        }
        if t.outs.iter().any(|o| matches!(o, Out::Change { asset, .. } if *asset != BASE)) {
            b.push("restricted_change_nonbase");
        }
        if !is_create && t.outs.iter().any(|o| matches!(o, Out::Created { .. })) {
            b.push("restricted_created_output");
        }
    };
    match &t.body {
        Body::Script { script, data, .. } => {
            if *script as u64 > l.max_script {
                b.push("script_len");
            }
            if *data as u64 > l.max_script_data {
                b.push("script_data_len");
            }
            if t.outs.iter().any(|o| matches!(o, Out::Created { .. })) {
                b.push("script_created_output");
            }
        }
        Body::Create { bytecode_wit, slots, .. } => {
            match t.wits.get(*bytecode_wit as usize) {
                None => b.push("create_bytecode_witness"),
                Some(w) => {
                    if wit_len(w) > l.contract_max_size {
                        b.push("create_bytecode_len");
                    }
                }
            }
            if slots.len() as u64 > l.max_slots {
                b.push("create_slots_count");
            }
            if !slots.windows(2).all(|w| slot_key_b(w[0].0) < slot_key_b(w[1].0)) {
                b.push("create_slots_order");
            }
            restricted(&mut b, true);
            let created: Vec<(&B32, &B32)> = t
                .outs
                .iter()
                .filter_map(|o| match o {
                    Out::Created { contract_id, state_root } => Some((contract_id, state_root)),
                    _ => None,
                })
                .collect();
            if let Some((id, sr)) = expected_created(t) {
                if created.iter().any(|(i, s)| **i != id || **s != sr) {
                    b.push("create_created_mismatch");
                }
            }
            if created.len() > 1 {
                b.push("create_created_multiple");
            }
            if created.is_empty() {
                b.push("create_created_missing");
            }
        }
        Body::UpgradeCp { .. } | Body::UpgradeSt { .. } => {
            let privileged = t.ins.iter().any(|i| match i {
                In::Coin { owner, .. } => *owner == PRIV,
                In::Msg { recipient, .. } => *recipient == PRIV,
                In::Contract { .. } => false,
            });
            if !privileged {
                b.push("upgrade_no_privileged");
            }
            if let Body::UpgradeCp { wit, checksum } = &t.body {
                match t.wits.get(*wit as usize) {
                    None => b.push("upgrade_witness_index"),
                    Some(w) => {
                        if wit_sha256(w) != *checksum {
                            b.push("upgrade_checksum");
                        }
                        // by construction only `Wit::Params` is a postcard encoding of
                        // consensus parameters
                        if !matches!(w, Wit::Params) {
                            b.push("upgrade_payload");
                        }
                    }
                }
            }
            restricted(&mut b, false);
        }
        Body::Upload { root, wit, index, count, proof } => {
            if *count > l.max_subsections {
                b.push("upload_subsections");
            }
            match t.wits.get(*wit as usize) {
                None => b.push("upload_witness_index"),
                Some(w) => {
                    let leaf = oracle::leaf_hash(&wit_bytes(w));
                    if oracle::root_from_path(*index as u64, *count as u64, leaf, proof) != Some(*root) {
                        b.push("upload_proof");
                    }
                }
            }
            restricted(&mut b, false);
        }
        Body::Blob { id, wit } => {
            match t.wits.get(*wit as usize) {
                None => b.push("blob_witness_index"),
                Some(w) => {
                    if wit_sha256(w) != *id {
                        b.push("blob_id");
                    }
                }
            }
            restricted(&mut b, false);
        }
        Body::Mint { .. } => unreachable!(),
    }

    Ref {
        broken: b,
        balances,
        retryable: retry.min(u64::MAX as u128) as u64,
    }
}
