//! C26 parts (b) and (c): gas invariants at every step of every program over a call-
//! heavy alphabet, and re-execution under every relevant gas limit.
#![allow(dead_code)]

use crate::{
    c26_a::params_for,
    c26_sched::*,
    progkit::*,
};
use fuel_asm::{
    op,
    Instruction,
    Opcode,
    PanicReason,
    RegId,
};
use fuel_tx::{
    Receipt,
    ScriptExecutionResult,
};
use fuel_types::ContractId;
use vcore::vmkit::{
    self,
    Step,
};

pub const MAX_STEPS: usize = 20_000;

// registers of the extra prelude / letters / contract B
const CALL_B0: u8 = 0x30; // B, param 0: "some"
const CALL_B1: u8 = 0x31; // B, param 1: burner ("all")
const CALL_B2: u8 = 0x32; // B, param 2: nested call into A
const TMPF: u8 = 0x33;
const T: u8 = 0x3c;
const T2: u8 = 0x3d;

pub struct Setup {
    pub sched: Sched,
    pub world: World,
    pub alphabet: Vec<Letter>,
    pub extra_prelude: Vec<Instruction>,
    /// gas used by prelude + extra prelude
    pub prelude_cost: u64,
    /// number of prelude + extra prelude instructions
    pub prelude_len: usize,
    pub l_big: u64,
    pub burn_units: u64,
    pub code_len: Vec<(ContractId, u64)>,
    pub max_letter_cost: u64,
}

fn code_b(units: u32) -> Vec<Instruction> {
    vec![
        /* 0 */ op::lw(0x38, RegId::FP, 73), // call parameter a
        /* 1 */ op::jnzi(0x38, 6),
        // a == 0: uses some gas, returns data
        /* 2 */ op::noop(),
        /* 3 */ op::movi(0x39, 7),
        /* 4 */ op::retd(RegId::FP, 0x39),
        /* 5 */ op::noop(),
        /* 6 */ op::subi(0x38, 0x38, 1),
        /* 7 */ op::jnzi(0x38, 11),
        // a == 1: burns everything it was given
        /* 8 */ op::movi(0x3a, units),
        /* 9 */ op::aloc(0x3a),
        /* 10 */ op::ji(9),
        // a == 2: forwards all it has to A, then returns
        /* 11 */ op::call(r::CALL_A, RegId::ZERO, r::ASSET_BASE, RegId::CGAS),
        /* 12 */ op::ret(RegId::ONE),
    ]
}

fn world_bc(s: &Sched, units: u32) -> World {
    let mut cfg = WorldCfg::default();
    cfg.params = params_for(&s.costs);
    cfg.code_a = vec![op::ret(RegId::ONE)];
    cfg.code_b = code_b(units);
    let mut extra = vec![];
    for a in 0..3u64 {
        extra.extend(call_struct(&B, a, 0));
    }
    cfg.extra_script_data = extra;
    World::new(cfg)
}

fn extra_prelude() -> Vec<Instruction> {
    vec![
        op::addi(CALL_B0, r::DATA, off::END),
        op::addi(CALL_B1, r::DATA, off::END + 48),
        op::addi(CALL_B2, r::DATA, off::END + 96),
        // F_WRAPPING, so that `$cgas - K` with a small `$cgas` wraps instead of panicking
        op::movi(TMPF, 2),
        op::flag(TMPF),
    ]
}

fn call_cost(s: &Sched, code_len: u64) -> u64 {
    eval(s, &[Term::Base("call"), Term::Per("call", pad8(code_len))])
}

fn alphabet(s: &Sched, len_a: u64, len_b: u64) -> Vec<Letter> {
    let ka = call_cost(s, len_a);
    let kb = call_cost(s, len_b);
    // cost of B's "some" path: lw, jnzi, noop, movi, retd(7)
    let some = eval(
        s,
        &[
            Term::Fixed("lw"),
            Term::Fixed("jnzi"),
            Term::Fixed("noop"),
            Term::Fixed("movi"),
            Term::Full("retd", 7),
        ],
    );
    let imm = |v: u64| -> u32 { v.min(262_143) as u32 };
    let call = |target: u8, gas: u8| op::call(target, RegId::ZERO, r::ASSET_BASE, gas);
    // requested = ($cgas after the SUB's own charge) - k  ==  (available after the
    // call's own cost) + (call cost - k)
    let rel = |target: u8, k: u64| {
        vec![
            op::movi(T2, imm(k)),
            op::sub(T, RegId::CGAS, T2),
            call(target, T),
        ]
    };
    vec![
        letter("noop", vec![op::noop()]),
        letter("cfei24", vec![op::cfei(24)]),
        letter("log", vec![op::log(RegId::ZERO, RegId::ONE, RegId::ZERO, RegId::ONE)]),
        letter("aloc100", vec![op::movi(T, 100), op::aloc(T)]),
        letter("trBX1", vec![op::movi(T, 1), op::tr(r::CALL_B, T, r::ASSET_X)]),
        letter("A<-0", vec![call(r::CALL_A, RegId::ZERO.to_u8())]),
        letter("A<-1", vec![call(r::CALL_A, RegId::ONE.to_u8())]),
        letter("A<-avail-1", rel(r::CALL_A, ka + 1)),
        letter("A<-avail", rel(r::CALL_A, ka)),
        letter("A<-avail+1", rel(r::CALL_A, ka.saturating_sub(1))),
        letter("A<-$cgas", vec![call(r::CALL_A, RegId::CGAS.to_u8())]),
        letter("A<-MAX", vec![op::not(T, RegId::ZERO), call(r::CALL_A, T)]),
        letter("Bsome<-exact", vec![op::movi(T, imm(some)), call(CALL_B0, T)]),
        letter(
            "Bsome<-exact-1",
            vec![op::movi(T, imm(some.saturating_sub(1))), call(CALL_B0, T)],
        ),
        letter("Bsome<-$cgas", vec![call(CALL_B0, RegId::CGAS.to_u8())]),
        letter("Bnested<-$cgas", vec![call(CALL_B2, RegId::CGAS.to_u8())]),
        letter("Bnested<-avail-1", rel(CALL_B2, kb + 1)),
        letter("Bburn<-$cgas", vec![call(CALL_B1, RegId::CGAS.to_u8())]),
        letter("Bburn<-half", vec![op::srli(T, RegId::CGAS, 1), call(CALL_B1, T)]),
        letter("Bburn<-1", vec![call(CALL_B1, RegId::ONE.to_u8())]),
        letter("ret", vec![op::ret(RegId::ONE)]),
        letter("rvrt", vec![op::rvrt(RegId::ZERO)]),
    ]
}

pub fn burner_letters() -> [&'static str; 3] {
    ["Bburn<-$cgas", "Bburn<-half", "Bburn<-1"]
}

impl Setup {
    pub fn script_of(&self, body: &[Instruction]) -> Vec<u8> {
        let mut all: Vec<Instruction> = self.extra_prelude.clone();
        all.extend_from_slice(body);
        all.push(op::ret(RegId::ONE)); // terminator: nothing runs into the script data
        self.world.script_bytes(&all)
    }

    pub fn len_of(&self, id: &ContractId) -> Option<u64> {
        self.code_len.iter().find(|(c, _)| c == id).map(|(_, l)| *l)
    }

    /// Build world + alphabet for a schedule; `k` = maximal program length (sizes the
    /// "unlimited" gas limit so that only the burner contract can exhaust it).
    pub fn new(s: &Sched, k: u32) -> Setup {
        let len_a = 4u64;
        let len_b = 4 * code_b(0).len() as u64;
        let mk = |units: u32| -> Setup {
            Setup {
                sched: s.clone(),
                world: world_bc(s, units),
                alphabet: alphabet(s, len_a, len_b),
                extra_prelude: extra_prelude(),
                prelude_cost: 0,
                prelude_len: 0,
                l_big: 0,
                burn_units: units as u64,
                code_len: vec![(A, len_a), (B, len_b)],
                max_letter_cost: 0,
            }
        };
        // calibration of the *inputs* (limits, burner size) with a generous limit
        let cal = mk(0);
        let g = 1u64 << 36;
        let used = |body: &[Instruction]| -> u64 {
            let t = run_trace(&cal, &cal.script_of(body), g);
            g - t.final_ggas()
        };
        let empty = used(&[]);
        let ret_cost = s.f("ret");
        let prelude_cost = empty - ret_cost;
        let mut m = 1u64;
        for l in &cal.alphabet {
            if burner_letters().contains(&l.name.as_str()) {
                continue
            }
            // letters that end the script do not reach the terminator
            let u = used(&l.ins);
            m = m.max(u.saturating_sub(prelude_cost));
        }
        // burner: one ALOC iteration costs about `m`
        let units = match s.d("aloc") {
            Dep::Light { upg, .. } => m.saturating_mul(upg).min(262_143),
            Dep::Heavy { gpu, .. } => {
                if gpu == 0 {
                    0
                } else {
                    (m / gpu).clamp(1, 262_143)
                }
            }
        };
        let mut st = mk(units as u32);
        st.prelude_cost = prelude_cost;
        st.prelude_len = st.world.prelude.len() + st.extra_prelude.len();
        st.max_letter_cost = m;
        st.l_big = prelude_cost + (k as u64 + 2) * m + ret_cost + 1;
        st
    }
}

// ------------------------------------------------------------------ traces

#[derive(Clone, Debug)]
pub struct StepRec {
    pub raw: u32,
    pub opname: String,
    pub in_call: bool,
    pub c0: u64,
    pub g0: u64,
    pub c1: u64,
    pub g1: u64,
    /// CALL: requested gas ($rD), forwarded coins ($rB)
    pub req: u64,
    pub coins: u64,
    /// reference cost where the reference map gives one without history
    pub refc: Option<u64>,
    pub step: Step,
    pub nrec: usize,
}

#[derive(Clone, Debug)]
pub struct Trace {
    pub limit: u64,
    pub steps: Vec<StepRec>,
    pub receipts: Vec<Receipt>,
    pub step_capped: bool,
}

impl Trace {
    pub fn final_ggas(&self) -> u64 {
        self.steps.last().map(|s| s.g1).unwrap_or(self.limit)
    }
    pub fn last_step(&self) -> Option<&Step> {
        self.steps.last().map(|s| &s.step)
    }
}

pub fn opname_of(raw: u32) -> String {
    match Opcode::try_from(w_op(raw)) {
        Ok(o) => format!("{o:?}"),
        Err(_) => format!("INVALID_{:02x}", w_op(raw)),
    }
}

pub fn run_trace(st: &Setup, script: &[u8], limit: u64) -> Trace {
    let mut vm = st.world.vm(script.to_vec(), limit);
    let mut steps: Vec<StepRec> = Vec::with_capacity(48);
    let mut capped = false;
    let (ci, gi, fpi, pci) = (
        RegId::CGAS.to_u8() as usize,
        RegId::GGAS.to_u8() as usize,
        RegId::FP.to_u8() as usize,
        RegId::PC.to_u8() as usize,
    );
    loop {
        let regs = vmkit::regs(&vm);
        let raw = vm
            .memory()
            .read_bytes::<_, 4>(regs[pci])
            .map(u32::from_be_bytes)
            .unwrap_or(0xffff_ffff);
        let opname = opname_of(raw);
        let in_call = regs[fpi] != 0;
        let mut req = 0;
        let mut coins = 0;
        let mut refc = generic_terms(&opname, raw, &regs).map(|t| eval(&st.sched, &t));
        if opname == "CALL" {
            req = regs[w_rd(raw)];
            coins = regs[w_rb(raw)];
            if coins == 0 {
                if let Ok(id) = vm.memory().read_bytes::<_, 32>(regs[w_ra(raw)]) {
                    if let Some(l) = st.len_of(&ContractId::new(id)) {
                        refc = Some(call_cost(&st.sched, l));
                    }
                }
            }
        }
        if matches!(rule(&opname), Rule::Fixed("tr") | Rule::Fixed("mint")) {
            refc = None; // history-dependent surcharge: covered by part (a)
        }
        let step = vmkit::step(&mut vm);
        let (c1, g1) = (vmkit::reg(&vm, RegId::CGAS), vmkit::reg(&vm, RegId::GGAS));
        let fin = vmkit::is_final(&step, in_call);
        steps.push(StepRec {
            raw,
            opname,
            in_call,
            c0: regs[ci],
            g0: regs[gi],
            c1,
            g1,
            req,
            coins,
            refc,
            step,
            nrec: vm.receipts().len(),
        });
        if fin {
            break
        }
        if steps.len() >= MAX_STEPS {
            capped = true;
            break
        }
    }
    Trace {
        limit,
        steps,
        receipts: vm.receipts().to_vec(),
        step_capped: capped,
    }
}

pub struct V {
    pub key: String,
    pub what: String,
}

fn v(key: impl Into<String>, what: String) -> Option<V> {
    Some(V {
        key: key.into(),
        what,
    })
}

pub fn is_oog(s: &Step) -> bool {
    *s == Step::Panic(PanicReason::OutOfGas)
}

fn succeeded(s: &Step) -> bool {
    matches!(
        s,
        Step::Proceed | Step::Return(_) | Step::ReturnData(_) | Step::Revert(_)
    )
}

/// Part (b): invariants on one trace. Returns the first violation.
pub fn check_b(t: &Trace) -> Option<V> {
    let mut saved: Vec<u64> = vec![];
    if let Some(f) = t.steps.first() {
        if f.c0 != t.limit || f.g0 != t.limit {
            return v(
                "C26:b:initial-gas",
                format!("limit {}: initial $cgas {} $ggas {}", t.limit, f.c0, f.g0),
            )
        }
    }
    for (i, s) in t.steps.iter().enumerate() {
        let at = format!("step {i} {} (word {:#010x}, {})", s.opname, s.raw, s.step.label());
        if s.c0 > s.g0 || s.c1 > s.g1 {
            return v(
                "C26:b:cgas>ggas",
                format!("{at}: $cgas/$ggas {}/{} -> {}/{}", s.c0, s.g0, s.c1, s.g1),
            )
        }
        if s.g1 > s.g0 {
            return v("C26:b:ggas-increased", format!("{at}: $ggas {} -> {}", s.g0, s.g1))
        }
        if s.g1 > t.limit {
            return v("C26:b:ggas>limit", format!("{at}: $ggas {} limit {}", s.g1, t.limit))
        }
        if is_oog(&s.step) {
            if s.c1 != 0 {
                return v(
                    "C26:b:oog-cgas-nonzero",
                    format!("{at}: after OutOfGas $cgas = {} (was {})", s.c1, s.c0),
                )
            }
            if s.g1 != s.g0 - s.c0 {
                return v(
                    "C26:b:oog-ggas",
                    format!("{at}: OutOfGas with $cgas {}: $ggas {} -> {}", s.c0, s.g0, s.g1),
                )
            }
            if let Some(r) = s.refc {
                if r <= s.c0 {
                    return v(
                        "C26:b:oog-unjustified",
                        format!("{at}: OutOfGas although reference cost {r} <= $cgas {}", s.c0),
                    )
                }
            }
            continue
        }
        if !succeeded(&s.step) {
            continue // other panics: only the monotonicity invariants above
        }
        let cost = s.g0 - s.g1;
        if let Some(r) = s.refc {
            if cost != r {
                return v(
                    format!("C26:b:charge:{}", s.opname),
                    format!("{at}: $ggas decreased by {cost}, reference cost {r}"),
                )
            }
        }
        if cost > s.c0 {
            return v(
                "C26:b:missed-oog",
                format!("{at}: charged {cost} with only $cgas {} available", s.c0),
            )
        }
        let mut want = s.c0 - cost;
        if s.opname == "CALL" && s.step == Step::Proceed {
            let fwd = s.req.min(want);
            saved.push(want - fwd);
            want = fwd;
            if s.c1 != want {
                return v(
                    "C26:b:call-forward",
                    format!(
                        "{at}: requested {} with {} available after the call's cost {cost}: callee $cgas {} (expected {want})",
                        s.req,
                        s.c0 - cost,
                        s.c1
                    ),
                )
            }
            match t.receipts.get(s.nrec.wrapping_sub(1)) {
                Some(Receipt::Call { gas, .. }) if *gas == fwd => {}
                other => {
                    return v(
                        "C26:b:call-receipt-gas",
                        format!("{at}: forwarded {fwd}, receipt {other:?}"),
                    )
                }
            }
        } else if s.in_call && matches!(s.step, Step::Return(_) | Step::ReturnData(_)) {
            let back = saved.pop().unwrap_or(0);
            want += back;
            if s.c1 != want {
                return v(
                    "C26:b:return-credit",
                    format!(
                        "{at}: callee had {} left after paying {cost}, caller kept {back}: caller $cgas {} (expected {want})",
                        s.c0 - cost,
                        s.c1
                    ),
                )
            }
        } else if s.c1 != want {
            return v(
                format!("C26:b:split:{}", s.opname),
                format!("{at}: $ggas charged {cost} but $cgas {} -> {}", s.c0, s.c1),
            )
        }
        let kept: u64 = saved.iter().sum();
        if s.g1 != s.c1 + kept {
            return v(
                "C26:b:conservation",
                format!("{at}: $ggas {} != $cgas {} + gas kept by callers {kept}", s.g1, s.c1),
            )
        }
    }
    None
}

fn strip(r: &Receipt) -> Receipt {
    let mut r = r.clone();
    if let Receipt::Call { gas, .. } = &mut r {
        *gas = 0;
    }
    r
}

/// End-to-end cross-check through `Interpreter::transact`.
pub fn check_e2e(st: &Setup, script: &[u8], t: &Trace) -> Option<V> {
    let o = st.world.transact(script.to_vec(), t.limit);
    let Some(Receipt::ScriptResult { result, gas_used }) = o.receipts.last() else {
        return v(
            "C26:b:no-script-result",
            format!("limit {}: transact gave {:?}, last receipt {:?}", t.limit, o.state, o.receipts.last()),
        )
    };
    let want = t.limit - t.final_ggas();
    if *gas_used != want {
        return v(
            "C26:b:gas_used",
            format!(
                "limit {}: ScriptResult.gas_used {gas_used}, limit - final $ggas of the stepped run = {want}",
                t.limit
            ),
        )
    }
    let kind = match t.last_step() {
        Some(Step::Return(_)) | Some(Step::ReturnData(_)) => ScriptExecutionResult::Success,
        Some(Step::Revert(_)) => ScriptExecutionResult::Revert,
        _ => ScriptExecutionResult::Panic,
    };
    if *result != kind {
        return v(
            "C26:b:result-kind",
            format!("limit {}: ScriptResult {result:?}, stepped run ended with {:?}", t.limit, t.last_step().map(|s| s.label())),
        )
    }
    // receipts of the stepped run are a prefix of transact's (then [Panic], ScriptResult)
    let n = t.receipts.len();
    let extra = o.receipts.len().saturating_sub(n);
    let same = o.receipts.len() >= n && o.receipts[..n] == t.receipts[..];
    let panic_ok = match (t.last_step(), o.receipts.get(n)) {
        (Some(Step::Panic(r)), Some(Receipt::Panic { reason, .. })) => reason.reason() == r && extra == 2,
        (Some(Step::Panic(_)), _) => false,
        _ => extra == 1,
    };
    if !same || !panic_ok {
        return v(
            "C26:b:receipts-e2e",
            format!(
                "limit {}: stepped run has {n} receipts and ended {:?}; transact has {} (tail {:?})",
                t.limit,
                t.last_step().map(|s| s.label()),
                o.receipts.len(),
                o.receipts.iter().skip(n.min(o.receipts.len())).collect::<Vec<_>>()
            ),
        )
    }
    None
}

/// Part (c): the run `t` (smaller limit) against the prediction derived from the
/// reference run `u` (same script, limit large enough for everything but the burner).
pub fn compare_c(u: &Trace, t: &Trace) -> Option<V> {
    let l = t.limit;
    let mut cgas = l;
    let mut ggas = l;
    let mut saved: Vec<u64> = vec![];
    let mut i = 0usize;
    loop {
        let Some(us) = u.steps.get(i) else {
            return v(
                "C26:c:longer",
                format!("limit {l}: the run continues after step {i}, where the run with limit {} ended", u.limit),
            )
        };
        let Some(ts) = t.steps.get(i) else {
            return v("C26:c:shorter", format!("limit {l}: run stopped before step {i} without a final step"))
        };
        let at = format!("limit {l} step {i} {} (word {:#010x})", us.opname, us.raw);
        if ts.raw != us.raw {
            return v("C26:c:diverged", format!("{at}: executes word {:#010x} instead", ts.raw))
        }
        if ts.c0 != cgas || ts.g0 != ggas {
            return v(
                "C26:c:pre-state",
                format!("{at}: $cgas/$ggas {}/{}, predicted {cgas}/{ggas}", ts.c0, ts.g0),
            )
        }
        // cost of this instruction: observed in the reference run, or (if that run
        // itself ran out of gas here) the reference map's value
        let cost: Option<u64> = if is_oog(&us.step) {
            us.refc
        } else {
            Some(us.g0 - us.g1)
        };
        let expect_oog = match cost {
            Some(c) => c > cgas,
            None => true,
        };
        if expect_oog {
            if !is_oog(&ts.step) {
                return v(
                    "C26:c:expected-oog",
                    format!("{at}: cost {cost:?} > available $cgas {cgas}, but the step gave {}", ts.step.label()),
                )
            }
            if ts.c1 != 0 {
                return v("C26:c:oog-cgas-nonzero", format!("{at}: after OutOfGas $cgas = {}", ts.c1))
            }
            if ts.g1 != ggas - cgas {
                return v(
                    "C26:c:oog-ggas",
                    format!("{at}: OutOfGas with $cgas {cgas}: $ggas {ggas} -> {}", ts.g1),
                )
            }
            if i + 1 != t.steps.len() {
                return v("C26:c:continued-after-oog", format!("{at}: {} more steps", t.steps.len() - i - 1))
            }
            // same receipts as the reference run had before this instruction
            let before = if i == 0 { 0 } else { u.steps[i - 1].nrec };
            let a: Vec<Receipt> = t.receipts.iter().map(strip).collect();
            let b: Vec<Receipt> = u.receipts[..before].iter().map(strip).collect();
            if a != b {
                return v(
                    "C26:c:receipts-prefix",
                    format!("{at}: {} receipts, reference run had {before} before this instruction", a.len()),
                )
            }
            return None
        }
        let c = cost.unwrap_or(0);
        if is_oog(&ts.step) {
            return v(
                "C26:c:unexpected-oog",
                format!("{at}: OutOfGas although cost {c} <= available $cgas {cgas}"),
            )
        }
        if is_oog(&us.step) {
            // cannot happen for limits below the reference limit (gas is monotone)
            return v("C26:c:beyond-reference", format!("{at}: reference run ran out of gas here"))
        }
        if ts.step != us.step {
            return v(
                "C26:c:step-kind",
                format!("{at}: {} (reference run: {})", ts.step.label(), us.step.label()),
            )
        }
        cgas -= c;
        ggas -= c;
        if us.opname == "CALL" && us.step == Step::Proceed {
            let fwd = ts.req.min(cgas);
            saved.push(cgas - fwd);
            cgas = fwd;
        } else if us.in_call && matches!(us.step, Step::Return(_) | Step::ReturnData(_)) {
            cgas += saved.pop().unwrap_or(0);
        }
        if ts.c1 != cgas || ts.g1 != ggas {
            return v(
                "C26:c:post-state",
                format!("{at}: $cgas/$ggas after = {}/{}, predicted {cgas}/{ggas}", ts.c1, ts.g1),
            )
        }
        if vmkit::is_final(&us.step, us.in_call) {
            if i + 1 != t.steps.len() {
                return v("C26:c:continued-after-end", format!("{at}"))
            }
            let a: Vec<Receipt> = t.receipts.iter().map(strip).collect();
            let b: Vec<Receipt> = u.receipts.iter().map(strip).collect();
            if a != b {
                return v("C26:c:receipts-prefix", format!("{at}: receipts differ from the reference run"))
            }
            return None
        }
        i += 1;
    }
}

/// Gas limits at which the outcome can change: prefix sums of the per-instruction
/// charges of the reference run (plus the cost of the instruction it ran out of gas
/// at), each -1/0/+1, capped at the reference limit.
pub fn fault_limits(u: &Trace, from: u64) -> Vec<u64> {
    let mut sums: Vec<u64> = vec![0];
    let mut acc = 0u64;
    for s in &u.steps {
        let c = if is_oog(&s.step) { s.refc } else { Some(s.g0 - s.g1) };
        match c {
            Some(c) => {
                acc = acc.saturating_add(c);
                sums.push(acc);
            }
            None => break,
        }
    }
    let mut out: Vec<u64> = vec![];
    for s in sums {
        for d in [-1i64, 0, 1] {
            let l = s as i128 + d as i128;
            if l >= from as i128 && l < u.limit as i128 {
                out.push(l as u64);
            }
        }
    }
    out.sort();
    out.dedup();
    out
}
