//! Shared by C09 / C10: leaf-content schedules, the harness node table for the
//! storage-backed binary tree, hex helpers. Nothing here is an oracle.
#![allow(dead_code)]

use fuel_merkle::{
    binary::{
        self,
        Primitive,
    },
    storage::Mappable,
};
use vcore::{
    nodestore::Shared,
    oracle::{
        self,
        H256,
    },
};

#[derive(Debug, Clone)]
pub struct Table;
impl Mappable for Table {
    type Key = Self::OwnedKey;
    type OwnedKey = u64;
    type OwnedValue = Primitive;
    type Value = Self::OwnedValue;
}
pub type Store = Shared<Table>;
pub type Tree = binary::MerkleTree<Table, Store>;

pub const SCHEDULES: [&str; 3] = [
    "mixed: p%5 -> empty | 1 byte | 32 bytes | 33 bytes | 8-byte big-endian p",
    "distinct: 8-byte big-endian p",
    "adversarial: p%4 -> empty | 0x01||h||h (65 bytes, looks like a node preimage) | 32 bytes = a leaf hash | 0x00||h (33 bytes, looks like a prefixed leaf)",
];

/// Leaf content at position `p` under content schedule `s`.
pub fn leaf(s: u8, p: u64) -> Vec<u8> {
    match s {
        0 => match p % 5 {
            0 => vec![],
            1 => vec![(p / 5) as u8],
            2 => vec![(p / 5) as u8 ^ 0x5b; 32],
            3 => vec![(p / 5) as u8 ^ 0xc3; 33],
            _ => p.to_be_bytes().to_vec(),
        },
        1 => p.to_be_bytes().to_vec(),
        _ => {
            let h = oracle::leaf_hash(&p.to_be_bytes());
            match p % 4 {
                0 => vec![],
                1 => {
                    let mut v = vec![1u8];
                    v.extend_from_slice(&h);
                    v.extend_from_slice(&h);
                    v
                }
                2 => h.to_vec(),
                _ => {
                    let mut v = vec![0u8];
                    v.extend_from_slice(&h);
                    v
                }
            }
        }
    }
}

pub fn leaves(s: u8, n: u64) -> Vec<Vec<u8>> {
    (0..n).map(|p| leaf(s, p)).collect()
}

pub fn hx(b: &[u8]) -> String {
    hex::encode(b)
}

pub fn unhx(s: &str) -> Vec<u8> {
    hex::decode(s).expect("hex")
}

pub fn unhx32(s: &str) -> H256 {
    let v = unhx(s);
    let mut h = [0u8; 32];
    h.copy_from_slice(&v);
    h
}

/// 2^k-1, 2^k, 2^k+1 for k in 0..=kmax, values that fit u64, sorted, deduplicated.
pub fn pow2_neighbours(kmax: u32) -> Vec<u64> {
    let mut v = std::collections::BTreeSet::new();
    for k in 0..=kmax {
        let p: u128 = 1u128 << k;
        for c in [p - 1, p, p + 1] {
            if c <= u64::MAX as u128 {
                v.insert(c as u64);
            }
        }
    }
    v.into_iter().collect()
}
