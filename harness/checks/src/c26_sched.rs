//! C26 shared part 1: gas schedules (default / unit / fingerprint) and the reference
//! cost map of DESIGN.md Appendix C. Nothing in here calls into fuel-vm; the only thing
//! taken from the subject is the *data* of a schedule (the public fields of
//! `GasCostsValuesV7`), which is the input of the property, not its implementation.
#![allow(dead_code)]

use fuel_tx::{
    consensus_parameters::gas::GasCostsValuesV7,
    DependentCost,
    GasCosts,
    GasCostsValues,
};
use std::collections::BTreeMap;

/// Re-implementation of `DependentCost` (Appendix C): Light: base + units / units_per_gas,
/// Heavy: base + units * gas_per_unit, saturating.
#[derive(Clone, Copy, Debug, PartialEq, Eq)]
pub enum Dep {
    Light { base: u64, upg: u64 },
    Heavy { base: u64, gpu: u64 },
}

impl Dep {
    pub fn from_real(d: DependentCost) -> Dep {
        match d {
            DependentCost::LightOperation {
                base,
                units_per_gas,
            } => Dep::Light {
                base,
                upg: units_per_gas,
            },
            DependentCost::HeavyOperation { base, gas_per_unit } => Dep::Heavy {
                base,
                gpu: gas_per_unit,
            },
        }
    }

    pub fn to_real(self) -> DependentCost {
        match self {
            Dep::Light { base, upg } => DependentCost::LightOperation {
                base,
                units_per_gas: upg,
            },
            Dep::Heavy { base, gpu } => DependentCost::HeavyOperation {
                base,
                gas_per_unit: gpu,
            },
        }
    }

    pub fn base(self) -> u64 {
        match self {
            Dep::Light { base, .. } | Dep::Heavy { base, .. } => base,
        }
    }

    pub fn per(self, units: u64) -> u64 {
        match self {
            Dep::Light { upg, .. } => units / upg.max(1),
            Dep::Heavy { gpu, .. } => units.saturating_mul(gpu),
        }
    }
}

/// The one place that lists the fields of the latest schedule version. `$cb` is
/// invoked as `$cb!{ fixed: [..], dep: [..], <extra args> }`. The struct literal built
/// from it (see `build_v7`) has no `..`, so a field added to or removed from
/// `GasCostsValuesV7` is a compile error (= machinery error), never a silent gap.
macro_rules! with_v7_lists {
    ($cb:ident $(, $arg:tt)*) => {
        $cb! {
            fixed: [add, addi, and, andi, bal, bhei, bhsh, burn, cb, cfsi, div, divi, eck1,
                ecr1, eq, exp, expi, flag, gm, gt, gtf, ji, jmp, jne, jnei, jnzi, jmpf, jmpb,
                jnzf, jnzb, jnef, jneb, lb, log, lt, lw, mint, mlog, mod_op, modi, move_op,
                movi, mroo, mul, muli, mldv, niop, noop, not, or, ori, poph, popl, pshh, pshl,
                ret, rvrt, sb, sll, slli, srl, srli, sub, subi, sw, time, tr, tro, wdcm, wqcm,
                wdop, wqop, wdml, wqml, wddv, wqdv, wdmd, wqmd, wdam, wqam, wdmm, wqmm, xor,
                xori, ecop, new_storage_per_byte],
            dep: [aloc, bsiz, bldd, cfe, cfei, call, ccp, croo, csiz, ed19, k256, ldc, logd,
                mcl, mcli, mcp, mcpi, meq, retd, s256, smo, epar, storage_read_cold,
                storage_read_hot, storage_write, storage_clear, contract_root, state_root,
                vm_initialization]
            $(, $arg)*
        }
    };
}

macro_rules! build_v7 {
    (fixed: [$($f:ident),*], dep: [$($d:ident),*], $fx:ident, $dx:ident) => {
        GasCostsValuesV7 {
            $($f: $fx(stringify!($f)),)*
            $($d: $dx(stringify!($d)),)*
        }
    };
}

macro_rules! read_v7 {
    (fixed: [$($f:ident),*], dep: [$($d:ident),*], $v:ident, $fm:ident, $dm:ident) => {
        $( $fm.insert(stringify!($f), $v.$f); )*
        $( $dm.insert(stringify!($d), Dep::from_real($v.$d)); )*
    };
}

#[derive(Clone)]
pub struct Sched {
    pub name: &'static str,
    pub fixed: BTreeMap<&'static str, u64>,
    pub dep: BTreeMap<&'static str, Dep>,
    pub costs: GasCosts,
}

impl Sched {
    pub fn of(name: &'static str, v: GasCostsValuesV7) -> Sched {
        let mut fm = BTreeMap::new();
        let mut dm = BTreeMap::new();
        with_v7_lists!(read_v7, v, fm, dm);
        Sched {
            name,
            fixed: fm,
            dep: dm,
            costs: GasCosts::new(GasCostsValues::V7(v)),
        }
    }

    pub fn f(&self, field: &str) -> u64 {
        *self
            .fixed
            .get(field)
            .unwrap_or_else(|| panic!("reference names unknown fixed field {field}"))
    }

    pub fn d(&self, field: &str) -> Dep {
        *self
            .dep
            .get(field)
            .unwrap_or_else(|| panic!("reference names unknown dependent field {field}"))
    }

    pub fn nspb(&self) -> u64 {
        self.f("new_storage_per_byte")
    }

    pub fn describe(&self) -> serde_json::Value {
        let dep: BTreeMap<&str, String> =
            self.dep.iter().map(|(k, v)| (*k, format!("{v:?}"))).collect();
        serde_json::json!({"fixed": self.fixed, "dependent": dep})
    }
}

pub fn primes(n: usize) -> Vec<u64> {
    let mut v: Vec<u64> = vec![];
    let mut c = 2u64;
    while v.len() < n {
        if v.iter().take_while(|p| *p * *p <= c).all(|p| c % p != 0) {
            v.push(c);
        }
        c += 1;
    }
    v
}

pub fn sched_default() -> Sched {
    match GasCostsValues::default() {
        GasCostsValues::V7(v) => Sched::of("default", v),
        other => panic!(
            "default schedule is not V7 any more ({}); extend c26_sched.rs",
            format!("{other:?}").chars().take(20).collect::<String>()
        ),
    }
}

pub fn sched_unit() -> Sched {
    Sched::of("unit", GasCostsValuesV7::unit())
}

/// Fingerprint schedule: every value of the schedule is a distinct prime. The per-unit
/// rates of the dependent costs get the smallest primes (so that every value of the
/// argument sweep changes the cost), then the bases, then the fixed costs.
/// `flip == false`: dependent fields at even list positions are Heavy, odd ones Light;
/// `flip == true`: the other way round.
pub fn sched_fingerprint(flip: bool) -> Sched {
    let ps = primes(400);
    let mut next = 0usize;
    let mut rates: BTreeMap<String, u64> = BTreeMap::new();
    let mut order: Vec<String> = vec![];
    {
        let mut fm: BTreeMap<&'static str, u64> = BTreeMap::new();
        let mut dm: BTreeMap<&'static str, Dep> = BTreeMap::new();
        let u = GasCostsValuesV7::unit();
        with_v7_lists!(read_v7, u, fm, dm);
        // list order of the dependent fields = order of the macro list; BTreeMap order is
        // alphabetical, which is just as deterministic.
        for k in dm.keys() {
            order.push(k.to_string());
        }
    }
    for k in &order {
        rates.insert(k.clone(), ps[next]);
        next += 1;
    }
    let mut bases: BTreeMap<String, u64> = BTreeMap::new();
    for k in &order {
        bases.insert(k.clone(), ps[next]);
        next += 1;
    }
    let idx: BTreeMap<String, usize> =
        order.iter().enumerate().map(|(i, k)| (k.clone(), i)).collect();
    let mut fx = |_name: &str| -> u64 {
        let p = ps[next];
        next += 1;
        p
    };
    let dx = |name: &str| -> DependentCost {
        let heavy = (idx[name] % 2 == 0) != flip;
        if heavy {
            DependentCost::HeavyOperation {
                base: bases[name],
                gas_per_unit: rates[name],
            }
        } else {
            DependentCost::LightOperation {
                base: bases[name],
                units_per_gas: rates[name],
            }
        }
    };
    let v: GasCostsValuesV7 = with_v7_lists!(build_v7, fx, dx);
    let s = Sched::of(if flip { "fingerprint-b" } else { "fingerprint-a" }, v);
    // self-check: all values distinct
    let mut all: Vec<u64> = s.fixed.values().copied().collect();
    for d in s.dep.values() {
        match d {
            Dep::Light { base, upg } => {
                all.push(*base);
                all.push(*upg)
            }
            Dep::Heavy { base, gpu } => {
                all.push(*base);
                all.push(*gpu)
            }
        }
    }
    let n = all.len();
    all.sort();
    all.dedup();
    assert_eq!(n, all.len(), "fingerprint schedule values must be distinct");
    s
}

// ------------------------------------------------------------------ cost terms

#[derive(Clone, Debug, PartialEq, Eq)]
pub enum Term {
    /// a fixed-cost field
    Fixed(&'static str),
    /// dependent field: base + per_unit(units)
    Full(&'static str, u64),
    /// dependent field: base only
    Base(&'static str),
    /// dependent field: per_unit(units) only
    Per(&'static str, u64),
    /// n bytes of new storage: n * new_storage_per_byte
    NewBytes(u64),
}

pub fn eval(s: &Sched, terms: &[Term]) -> u64 {
    let mut t = 0u64;
    for x in terms {
        let v = match x {
            Term::Fixed(f) => s.f(f),
            Term::Full(f, u) => s.d(f).base().saturating_add(s.d(f).per(*u)),
            Term::Base(f) => s.d(f).base(),
            Term::Per(f, u) => s.d(f).per(*u),
            Term::NewBytes(n) => n.saturating_mul(s.nspb()),
        };
        t = t.saturating_add(v);
    }
    t
}

// ------------------------------------------------------------------ reference map

#[derive(Clone, Copy, Debug, PartialEq, Eq)]
pub enum ArgSel {
    RA,
    RB,
    RC,
    RD,
    /// $rD, 0 => 32
    RD0is32,
    Imm12,
    Imm18,
    Imm24,
}

#[derive(Clone, Copy, Debug, PartialEq, Eq)]
pub enum Rule {
    /// cost = the named fixed field
    Fixed(&'static str),
    /// cost = f(field, selected argument)
    Dep(&'static str, ArgSel),
    /// base, then per-unit on the size of a stored object (case supplies the units)
    Size(&'static str),
    /// storage instruction: composite (case supplies the terms)
    Storage,
    /// no schedule entry exists (ECAL)
    NoSchedule,
    /// opcode unknown to the reference (new opcode): reported, never guessed
    Unknown,
}

/// Appendix C, first bullet: opcodes whose cost is the field of the same name.
const FIXED_SAME: &[&str] = &[
    "add", "addi", "and", "andi", "bal", "bhei", "bhsh", "burn", "cb", "div", "divi", "eck1",
    "ecr1", "eq", "exp", "expi", "flag", "gm", "gt", "gtf", "ji", "jmp", "jne", "jnei", "jnzi",
    "jmpf", "jmpb", "jnzf", "jnzb", "jnef", "jneb", "lb", "log", "lt", "lw", "mint", "mlog",
    "modi", "movi", "mroo", "mul", "muli", "mldv", "niop", "noop", "not", "or", "ori", "poph",
    "popl", "pshh", "pshl", "ret", "rvrt", "sb", "sll", "slli", "srl", "srli", "sub", "subi",
    "sw", "time", "tr", "tro", "wdcm", "wqcm", "wdop", "wqop", "wdml", "wqml", "wddv", "wqdv",
    "wdmd", "wqmd", "wdam", "wqam", "wdmm", "wqmm", "xor", "xori", "ecop", "cfsi",
];

/// Opcode mnemonic (upper case, as printed by `Opcode`'s Debug) -> rule.
pub fn rule(name: &str) -> Rule {
    use ArgSel::*;
    match name {
        // field names that cannot be Rust identifiers / serde names
        "MOD" => Rule::Fixed("mod_op"),
        "MOVE" => Rule::Fixed("move_op"),
        // forced sharing: the schedule type has no field of that name
        "CFS" => Rule::Fixed("cfsi"),
        "LQW" | "LHW" => Rule::Fixed("lw"),
        "SQW" | "SHW" => Rule::Fixed("sw"),
        "JAL" => Rule::Fixed("jmp"),
        // dependent costs and their argument
        "ALOC" => Rule::Dep("aloc", RA),
        "CFEI" => Rule::Dep("cfei", Imm24),
        "CFE" => Rule::Dep("cfe", RA),
        "MCL" => Rule::Dep("mcl", RB),
        "MCLI" => Rule::Dep("mcli", Imm18),
        "MCP" => Rule::Dep("mcp", RC),
        "MCPI" => Rule::Dep("mcpi", Imm12),
        "MEQ" => Rule::Dep("meq", RD),
        "RETD" => Rule::Dep("retd", RB),
        "LOGD" => Rule::Dep("logd", RD),
        "SMO" => Rule::Dep("smo", RC),
        "K256" => Rule::Dep("k256", RC),
        "S256" => Rule::Dep("s256", RC),
        "ED19" => Rule::Dep("ed19", RD0is32),
        "EPAR" => Rule::Dep("epar", RC),
        // base then size of the stored object
        "CALL" => Rule::Size("call"),
        "LDC" => Rule::Size("ldc"),
        "CCP" => Rule::Size("ccp"),
        "CSIZ" => Rule::Size("csiz"),
        "CROO" => Rule::Size("croo"),
        "BSIZ" => Rule::Size("bsiz"),
        "BLDD" => Rule::Size("bldd"),
        "SCWQ" | "SRW" | "SRWQ" | "SWW" | "SWWQ" | "SCLR" | "SRDD" | "SRDI" | "SWRD"
        | "SWRI" | "SUPD" | "SUPI" | "SPLD" => Rule::Storage,
        "ECAL" => Rule::NoSchedule,
        other => {
            let lower = other.to_ascii_lowercase();
            match FIXED_SAME.iter().find(|f| **f == lower) {
                Some(f) => Rule::Fixed(f),
                None => Rule::Unknown,
            }
        }
    }
}

// raw instruction word fields (fuel-specs instruction format: op(8) rA(6) rB(6) rC(6) rD(6)
// with the immediates occupying the low 12 / 18 / 24 bits)
pub fn w_op(raw: u32) -> u8 {
    (raw >> 24) as u8
}
pub fn w_ra(raw: u32) -> usize {
    ((raw >> 18) & 0x3f) as usize
}
pub fn w_rb(raw: u32) -> usize {
    ((raw >> 12) & 0x3f) as usize
}
pub fn w_rc(raw: u32) -> usize {
    ((raw >> 6) & 0x3f) as usize
}
pub fn w_rd(raw: u32) -> usize {
    (raw & 0x3f) as usize
}

pub fn select(sel: ArgSel, raw: u32, regs: &[u64]) -> u64 {
    match sel {
        ArgSel::RA => regs[w_ra(raw)],
        ArgSel::RB => regs[w_rb(raw)],
        ArgSel::RC => regs[w_rc(raw)],
        ArgSel::RD => regs[w_rd(raw)],
        ArgSel::RD0is32 => {
            let v = regs[w_rd(raw)];
            if v == 0 {
                32
            } else {
                v
            }
        }
        ArgSel::Imm12 => (raw & 0xfff) as u64,
        ArgSel::Imm18 => (raw & 0x3ffff) as u64,
        ArgSel::Imm24 => (raw & 0xff_ffff) as u64,
    }
}

/// Reference cost of an instruction that needs nothing but the instruction word and
/// the register file before it executes (Fixed and Dep rules). `None` for the rest.
pub fn generic_terms(opname: &str, raw: u32, regs: &[u64]) -> Option<Vec<Term>> {
    match rule(opname) {
        Rule::Fixed(f) => Some(vec![Term::Fixed(f)]),
        Rule::Dep(f, sel) => Some(vec![Term::Full(f, select(sel, raw, regs))]),
        _ => None,
    }
}

pub fn pad8(n: u64) -> u64 {
    n.div_ceil(8).saturating_mul(8)
}
