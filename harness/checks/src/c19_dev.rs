//! C19 — base transaction families and the deviation alphabet.
//!
//! A deviation is a small function `Case -> Case` meant to break exactly one rule
//! (`breaks = true`) or to move a quantity onto its limit (`breaks = false`). Whether
//! the result is valid is always decided by the reference validator, never by the fact
//! that a deviation was applied.

use super::{
    c19_ref::*,
    c19_spec::*,
};
use vcore::oracle;

pub const KINDS: [&str; 6] = ["Script", "Create", "UpgradeCp", "UpgradeSt", "Upload", "Blob"];

pub const IN_LETTERS: [&str; 9] = [
    "CoinSigned(base)",
    "CoinPredicate(base)",
    "MessageCoinSigned",
    "MessageCoinPredicate",
    "CoinSigned(X)",
    "CoinPredicate(X)",
    "MessageDataSigned",
    "MessageDataPredicate",
    "Contract",
];

pub const OUT_LETTERS: [&str; 7] = [
    "Coin(base)",
    "Change(base)",
    "Coin(X)",
    "Change(X)",
    "Variable",
    "Contract(k-th contract input)",
    "ContractCreated",
];

pub const POLV: [&str; 3] = [
    "max_fee=7",
    "tip=3,witness_limit=exact,maturity=5,max_fee=7,expiration=9,owner=0",
    "max_fee=0",
];

fn coin(signed: bool, i: usize, asset: u8) -> In {
    In::Coin {
        signed,
        utxo: (i as u8 + 1, i as u16),
        owner: i as u8,
        amount: 1000 * (i as u64 + 1),
        asset,
        wit: 0,
        pred: 8,
        pdata: 3,
        pgas: 0,
    }
}

fn msg(data: bool, signed: bool, i: usize) -> In {
    In::Msg {
        data,
        signed,
        nonce: i as u8 + 1,
        sender: 0x20 + i as u8,
        recipient: i as u8,
        amount: 1000 * (i as u64 + 1),
        wit: 0,
        dlen: 5,
        pred: 8,
        pdata: 3,
        pgas: 0,
    }
}

pub fn upload_parts(n: u16, index: u16) -> (B32, Vec<B32>, Wit) {
    let leaf = |k: u16| Wit::Fill {
        len: 16,
        byte: 0x60 + k as u8,
    };
    let hashes: Vec<B32> = (0..n).map(|k| oracle::leaf_hash(&wit_bytes(&leaf(k)))).collect();
    (oracle::mth_hashed(&hashes), oracle::audit_path(index as usize, &hashes), leaf(index))
}

/// Set every ContractCreated output of a Create transaction to the announced values.
pub fn refresh_created(t: &mut Tx) {
    if let Some((id, sr)) = expected_created(t) {
        for o in t.outs.iter_mut() {
            if let Out::Created { contract_id, state_root } = o {
                *contract_id = id;
                *state_root = sr;
            }
        }
    }
}

/// Base transaction of `kind` (index into KINDS) from input / output letter sequences.
pub fn make_base(kind: usize, ins: &[u64], outs: &[u64], polv: u8, height: u32) -> Case {
    let mut wits = vec![Wit::Fill { len: 64, byte: 0xaa }];
    let body = match kind {
        0 => Body::Script {
            gas_limit: 100,
            script: 8,
            data: 5,
        },
        1 => {
            wits.push(Wit::Fill { len: 8, byte: 0x5c });
            Body::Create {
                bytecode_wit: 1,
                salt: 1,
                slots: vec![(1, 1), (2, 2)],
            }
        }
        2 => {
            wits.push(Wit::Params);
            Body::UpgradeCp {
                wit: 1,
                checksum: wit_sha256(&Wit::Params),
            }
        }
        3 => Body::UpgradeSt { root: 1 },
        4 => {
            let (root, proof, w) = upload_parts(3, 1);
            wits.push(w);
            Body::Upload {
                root,
                wit: 1,
                index: 1,
                count: 3,
                proof,
            }
        }
        5 => {
            let w = Wit::Fill { len: 12, byte: 0xb1 };
            let id = wit_sha256(&w);
            wits.push(w);
            Body::Blob { id, wit: 1 }
        }
        _ => panic!("kind"),
    };
    let ins: Vec<In> = ins
        .iter()
        .enumerate()
        .map(|(i, l)| match l {
            0 => coin(true, i, BASE),
            1 => coin(false, i, BASE),
            2 => msg(false, true, i),
            3 => msg(false, false, i),
            4 => coin(true, i, 1),
            5 => coin(false, i, 1),
            6 => msg(true, true, i),
            7 => msg(true, false, i),
            _ => In::Contract {
                utxo: (i as u8 + 1, i as u16),
                contract: i as u8 + 1,
            },
        })
        .collect();
    let contract_inputs: Vec<u16> = ins
        .iter()
        .enumerate()
        .filter(|(_, i)| matches!(i, In::Contract { .. }))
        .map(|(k, _)| k as u16)
        .collect();
    let mut nth_contract = 0usize;
    let outs: Vec<Out> = outs
        .iter()
        .enumerate()
        .map(|(j, l)| {
            let to = 0x30 + j as u8;
            match l {
                0 => Out::Coin { to, amount: 10 * (j as u64 + 1), asset: BASE },
                1 => Out::Change { to, amount: 0, asset: BASE },
                2 => Out::Coin { to, amount: 10 * (j as u64 + 1), asset: 1 },
                3 => Out::Change { to, amount: 0, asset: 1 },
                4 => Out::Variable { to, amount: 0, asset: BASE },
                5 => {
                    let idx = contract_inputs.get(nth_contract).copied().unwrap_or(0);
                    nth_contract += 1;
                    Out::Contract { input_index: idx }
                }
                _ => Out::Created {
                    contract_id: [0xcc; 32],
                    state_root: [0xdd; 32],
                },
            }
        })
        .collect();
    let mut tx = Tx {
        body,
        pol: Pol::default(),
        ins,
        outs,
        wits,
    };
    tx.pol = match polv {
        0 => Pol {
            max_fee: Some(7),
            ..Pol::default()
        },
        1 => Pol {
            tip: Some(3),
            witness_limit: Some(witness_bytes_total(&tx)),
            maturity: Some(5),
            max_fee: Some(7),
            expiration: Some(9),
            owner: Some(0),
        },
        _ => Pol {
            max_fee: Some(0),
            ..Pol::default()
        },
    };
    refresh_created(&mut tx);
    Case {
        tx,
        lim: Limits::shrunk(),
        height,
    }
}

pub fn make_mint(height: u32, ptr_height: u32, out_index: u16, asset: u8, max_size: u64) -> Case {
    let mut lim = Limits::shrunk();
    lim.max_size = max_size;
    Case {
        tx: Tx {
            body: Body::Mint {
                height: ptr_height,
                tx_idx: 2,
                contract: 1,
                out_index,
                asset,
                amount: 55,
                gas_price: 3,
            },
            pol: Pol::default(),
            ins: vec![],
            outs: vec![],
            wits: vec![],
        },
        lim,
        height,
    }
}

// ------------------------------------------------------------------ deviations

pub struct Dev {
    pub name: &'static str,
    /// true: meant to break a rule; false: moves a quantity onto its limit (harmless)
    pub breaks: bool,
    pub f: fn(&mut Case) -> bool,
}

fn fresh_msg_coin(k: usize) -> In {
    In::Msg {
        data: false,
        signed: true,
        nonce: 0x40 + k as u8,
        sender: 0x28,
        recipient: 0x0e,
        amount: 1,
        wit: 0,
        dlen: 0,
        pred: 0,
        pdata: 0,
        pgas: 0,
    }
}

/// add an input; when the list is full replace the last one (never the only one)
fn add_input(c: &mut Case, i: In) -> bool {
    let n = c.tx.ins.len();
    if n < c.lim.max_inputs as usize {
        c.tx.ins.push(i);
        true
    } else if n >= 2 {
        c.tx.ins[n - 1] = i;
        true
    } else {
        false
    }
}

fn positions(c: &Case, f: impl Fn(&In) -> bool) -> Vec<usize> {
    c.tx.ins.iter().enumerate().filter(|(_, i)| f(i)).map(|(k, _)| k).collect()
}

fn set_pred(c: &mut Case, field: u8, v: u32) -> bool {
    for i in c.tx.ins.iter_mut() {
        match i {
            In::Coin { signed: false, pred, pdata, .. } | In::Msg { signed: false, pred, pdata, .. } => {
                if field == 0 {
                    *pred = v;
                } else {
                    *pdata = v;
                }
                return true
            }
            _ => {}
        }
    }
    false
}

fn set_msg_data(c: &mut Case, v: u32) -> bool {
    for i in c.tx.ins.iter_mut() {
        if let In::Msg { data: true, dlen, .. } = i {
            *dlen = v;
            return true
        }
    }
    false
}

fn fill_inputs(c: &mut Case, target: usize) -> bool {
    if c.tx.ins.len() >= target {
        return false
    }
    while c.tx.ins.len() < target {
        let k = c.tx.ins.len();
        c.tx.ins.push(fresh_msg_coin(k));
    }
    true
}

fn filler_output(c: &Case, j: usize) -> Out {
    if matches!(c.tx.body, Body::Script { .. }) {
        Out::Variable { to: 0x38 + j as u8, amount: 0, asset: BASE }
    } else {
        Out::Coin { to: 0x38 + j as u8, amount: 0, asset: BASE }
    }
}

fn fill_outputs(c: &mut Case, target: usize) -> bool {
    if c.tx.outs.len() >= target {
        return false
    }
    while c.tx.outs.len() < target {
        let o = filler_output(c, c.tx.outs.len());
        c.tx.outs.push(o);
    }
    true
}

fn fill_witnesses(c: &mut Case, target: usize) -> bool {
    if c.tx.wits.len() >= target {
        return false
    }
    while c.tx.wits.len() < target {
        c.tx.wits.push(Wit::Fill { len: 1, byte: 0xee });
    }
    true
}

/// (sum of spendable base inputs, sum of base coin outputs)
fn base_sums(c: &Case) -> (u128, u128) {
    let i: u128 = c.tx.ins.iter().filter_map(spendable).filter(|(a, _)| *a == BASE).map(|(_, v)| v as u128).sum();
    let o: u128 = c
        .tx
        .outs
        .iter()
        .filter_map(|o| match o {
            Out::Coin { asset, amount, .. } if *asset == BASE => Some(*amount as u128),
            _ => None,
        })
        .sum();
    (i, o)
}

fn set_fee_rel(c: &mut Case, extra: u128) -> bool {
    let (i, o) = base_sums(c);
    if i < o {
        return false
    }
    match u64::try_from(i - o + extra) {
        Ok(v) => {
            c.tx.pol.max_fee = Some(v);
            true
        }
        Err(_) => false,
    }
}

fn set_coin_out_rel(c: &mut Case, extra: u128) -> bool {
    let Some(pos) = c.tx.outs.iter().position(|o| matches!(o, Out::Coin { .. })) else {
        return false
    };
    let Out::Coin { asset, amount, .. } = c.tx.outs[pos].clone() else {
        return false
    };
    let sin: u128 = c.tx.ins.iter().filter_map(spendable).filter(|(a, _)| *a == asset).map(|(_, v)| v as u128).sum();
    let others: u128 = c
        .tx
        .outs
        .iter()
        .filter_map(|o| match o {
            Out::Coin { asset: a, amount, .. } if *a == asset => Some(*amount as u128),
            _ => None,
        })
        .sum::<u128>()
        - amount as u128;
    let fee = if asset == BASE { c.tx.pol.max_fee.unwrap_or(0) as u128 } else { 0 };
    if sin < others + fee {
        return false
    }
    match u64::try_from(sin - others - fee + extra) {
        Ok(v) => {
            if let Out::Coin { amount, .. } = &mut c.tx.outs[pos] {
                *amount = v;
            }
            true
        }
        Err(_) => false,
    }
}

fn set_upload(c: &mut Case, n: u16, index: u16) -> bool {
    let Body::Upload { root, wit, index: ix, count, proof } = &mut c.tx.body else {
        return false
    };
    let (r, p, w) = upload_parts(n, index);
    *root = r;
    *proof = p;
    *ix = index;
    *count = n;
    let wi = *wit as usize;
    if wi >= c.tx.wits.len() {
        return false
    }
    c.tx.wits[wi] = w;
    // keep an exact witness limit exact
    true
}

fn is_create(c: &Case) -> bool {
    matches!(c.tx.body, Body::Create { .. })
}

macro_rules! dev {
    ($name:expr, $breaks:expr, $f:expr) => {
        Dev {
            name: $name,
            breaks: $breaks,
            f: $f,
        }
    };
}

pub fn deviations() -> Vec<Dev> {
    vec![
        // ---- duplicates
        dev!("dup_utxo", true, |c| {
            let p = positions(c, |i| matches!(i, In::Coin { .. }));
            if p.len() >= 2 {
                let u = match &c.tx.ins[p[0]] {
                    In::Coin { utxo, .. } => *utxo,
                    _ => unreachable!(),
                };
                if let In::Coin { utxo, .. } = &mut c.tx.ins[p[1]] {
                    *utxo = u;
                }
                true
            } else if p.len() == 1 {
                let mut d = c.tx.ins[p[0]].clone();
                if let In::Coin { owner, .. } = &mut d {
                    *owner = 0x0d;
                }
                c.tx.ins.push(d);
                true
            } else {
                false
            }
        }),
        dev!("dup_contract", true, |c| {
            let p = positions(c, |i| matches!(i, In::Contract { .. }));
            if p.len() >= 2 {
                let id = match &c.tx.ins[p[0]] {
                    In::Contract { contract, .. } => *contract,
                    _ => unreachable!(),
                };
                if let In::Contract { contract, .. } = &mut c.tx.ins[p[1]] {
                    *contract = id;
                }
                true
            } else if p.len() == 1 {
                let mut d = c.tx.ins[p[0]].clone();
                if let In::Contract { utxo, .. } = &mut d {
                    *utxo = (0x59, 9);
                }
                c.tx.ins.push(d);
                c.tx.outs.push(Out::Contract {
                    input_index: c.tx.ins.len() as u16 - 1,
                });
                true
            } else {
                false
            }
        }),
        dev!("dup_nonce", true, |c| {
            let p = positions(c, |i| matches!(i, In::Msg { .. }));
            if p.len() >= 2 {
                let n = match &c.tx.ins[p[0]] {
                    In::Msg { nonce, .. } => *nonce,
                    _ => unreachable!(),
                };
                if let In::Msg { nonce, .. } = &mut c.tx.ins[p[1]] {
                    *nonce = n;
                }
                true
            } else if p.len() == 1 {
                let mut d = c.tx.ins[p[0]].clone();
                if let In::Msg { recipient, .. } = &mut d {
                    *recipient = 0x0d;
                }
                c.tx.ins.push(d);
                true
            } else {
                false
            }
        }),
        // ---- policies
        dev!("owner_index_out_of_range", true, |c| {
            c.tx.pol.owner = Some(c.tx.ins.len() as u64);
            true
        }),
        dev!("owner_points_at_contract_input", true, |c| {
            match positions(c, |i| matches!(i, In::Contract { .. })).first() {
                Some(p) => {
                    c.tx.pol.owner = Some(*p as u64);
                    true
                }
                None => false,
            }
        }),
        dev!("owner_gt_u32", true, |c| {
            c.tx.pol.owner = Some(1 << 32);
            true
        }),
        dev!("maturity_gt_u32", true, |c| {
            c.tx.pol.maturity = Some(1 << 32);
            true
        }),
        dev!("expiration_gt_u32", true, |c| {
            c.tx.pol.expiration = Some(1 << 32);
            true
        }),
        dev!("maturity_height_plus_1", true, |c| {
            c.tx.pol.maturity = Some(c.height as u64 + 1);
            true
        }),
        dev!("maturity_eq_height", false, |c| {
            c.tx.pol.maturity = Some(c.height as u64);
            true
        }),
        dev!("expiration_height_minus_1", true, |c| {
            if c.height == 0 {
                return false
            }
            c.tx.pol.expiration = Some(c.height as u64 - 1);
            true
        }),
        dev!("expiration_eq_height", false, |c| {
            c.tx.pol.expiration = Some(c.height as u64);
            true
        }),
        dev!("max_fee_unset", true, |c| {
            c.tx.pol.max_fee = None;
            true
        }),
        dev!("witness_limit_bytes_minus_1", true, |c| {
            let t = witness_bytes_total(&c.tx);
            if t == 0 {
                return false
            }
            c.tx.pol.witness_limit = Some(t - 1);
            true
        }),
        dev!("witness_limit_eq_bytes", false, |c| {
            c.tx.pol.witness_limit = Some(witness_bytes_total(&c.tx));
            true
        }),
        // ---- change / coin outputs
        dev!("two_change_outputs_one_asset", true, |c| {
            match c.tx.outs.iter().find(|o| matches!(o, Out::Change { .. })).cloned() {
                Some(mut d) => {
                    if let Out::Change { to, .. } = &mut d {
                        *to = 0x3d;
                    }
                    c.tx.outs.push(d);
                    true
                }
                None => false,
            }
        }),
        dev!("change_asset_absent", true, |c| {
            for o in c.tx.outs.iter_mut() {
                if let Out::Change { asset, .. } = o {
                    *asset = 2;
                    return true
                }
            }
            c.tx.outs.push(Out::Change { to: 0x3e, amount: 0, asset: 2 });
            true
        }),
        dev!("coin_asset_absent_amount_0", true, |c| {
            c.tx.outs.push(Out::Coin { to: 0x3f, amount: 0, asset: 2 });
            true
        }),
        dev!("fee_limit_balance_plus_1", true, |c| set_fee_rel(c, 1)),
        dev!("fee_limit_eq_balance", false, |c| set_fee_rel(c, 0)),
        dev!("coin_outputs_inputs_plus_1", true, |c| set_coin_out_rel(c, 1)),
        dev!("coin_outputs_eq_inputs", false, |c| set_coin_out_rel(c, 0)),
        dev!("input_sum_overflows_u64", true, |c| {
            let sp: Vec<(usize, u8)> = c
                .tx
                .ins
                .iter()
                .enumerate()
                .filter_map(|(k, i)| spendable(i).map(|(a, _)| (k, a)))
                .collect();
            for (x, (k1, a1)) in sp.iter().enumerate() {
                for (k2, a2) in sp.iter().skip(x + 1) {
                    if a1 == a2 {
                        for (k, v) in [(*k1, u64::MAX), (*k2, 1u64)] {
                            match &mut c.tx.ins[k] {
                                In::Coin { amount, .. } | In::Msg { amount, .. } => *amount = v,
                                _ => {}
                            }
                        }
                        return true
                    }
                }
            }
            false
        }),
        // ---- per input
        dev!("witness_index_out_of_bounds", true, |c| {
            let n = c.tx.wits.len() as u16;
            for i in c.tx.ins.iter_mut() {
                match i {
                    In::Coin { signed: true, wit, .. } | In::Msg { signed: true, wit, .. } => {
                        *wit = n;
                        return true
                    }
                    _ => {}
                }
            }
            false
        }),
        dev!("predicate_empty", true, |c| set_pred(c, 0, 0)),
        dev!("predicate_len_max_plus_1", true, |c| {
            let m = c.lim.max_pred as u32;
            set_pred(c, 0, m + 1)
        }),
        dev!("predicate_len_eq_max", false, |c| {
            let m = c.lim.max_pred as u32;
            set_pred(c, 0, m)
        }),
        dev!("predicate_data_len_max_plus_1", true, |c| {
            let m = c.lim.max_pdata as u32;
            set_pred(c, 1, m + 1)
        }),
        dev!("predicate_data_len_eq_max", false, |c| {
            let m = c.lim.max_pdata as u32;
            set_pred(c, 1, m)
        }),
        dev!("message_data_empty", true, |c| set_msg_data(c, 0)),
        dev!("message_data_len_max_plus_1", true, |c| {
            let m = c.lim.max_msg_data as u32;
            set_msg_data(c, m + 1)
        }),
        dev!("message_data_len_eq_max", false, |c| {
            let m = c.lim.max_msg_data as u32;
            set_msg_data(c, m)
        }),
        dev!("contract_input_without_output", true, |c| {
            let Some(p) = positions(c, |i| matches!(i, In::Contract { .. })).first().copied() else {
                return false
            };
            let n = c.tx.outs.len();
            c.tx.outs.retain(|o| !matches!(o, Out::Contract { input_index } if *input_index as usize == p));
            c.tx.outs.len() != n
        }),
        dev!("contract_input_with_two_outputs", true, |c| {
            let d = c
                .tx
                .outs
                .iter()
                .find(|o| matches!(o, Out::Contract { input_index } if matches!(c.tx.ins.get(*input_index as usize), Some(In::Contract { .. }))))
                .cloned();
            match d {
                Some(d) => {
                    c.tx.outs.push(d);
                    true
                }
                None => false,
            }
        }),
        dev!("contract_output_points_at_non_contract", true, |c| {
            let target = positions(c, |i| !matches!(i, In::Contract { .. })).first().copied().unwrap_or(c.tx.ins.len());
            for o in c.tx.outs.iter_mut() {
                if let Out::Contract { input_index } = o {
                    *input_index = target as u16;
                    return true
                }
            }
            false
        }),
        dev!("no_spendable_input", true, |c| {
            let mut any = false;
            for (k, i) in c.tx.ins.iter_mut().enumerate() {
                if let Some((_, amount)) = spendable(i) {
                    *i = In::Msg {
                        data: true,
                        signed: true,
                        nonce: 0x48 + k as u8,
                        sender: 0x29,
                        recipient: k as u8,
                        amount,
                        wit: 0,
                        dlen: 5,
                        pred: 0,
                        pdata: 0,
                        pgas: 0,
                    };
                    any = true;
                }
            }
            // nothing is spendable any more: a fee limit above 0 would be a second broken rule
            if any {
                c.tx.pol.max_fee = Some(0);
            }
            any
        }),
        // ---- count limits / sizes
        dev!("inputs_max_plus_1", true, |c| {
            let m = c.lim.max_inputs as usize;
            fill_inputs(c, m + 1)
        }),
        dev!("inputs_eq_max", false, |c| {
            let m = c.lim.max_inputs as usize;
            fill_inputs(c, m)
        }),
        dev!("outputs_max_plus_1", true, |c| {
            let m = c.lim.max_outputs as usize;
            fill_outputs(c, m + 1)
        }),
        dev!("outputs_eq_max", false, |c| {
            let m = c.lim.max_outputs as usize;
            fill_outputs(c, m)
        }),
        dev!("witnesses_max_plus_1", true, |c| {
            let m = c.lim.max_witnesses as usize;
            fill_witnesses(c, m + 1)
        }),
        dev!("witnesses_eq_max", false, |c| {
            let m = c.lim.max_witnesses as usize;
            fill_witnesses(c, m)
        }),
        dev!("max_size_size_minus_1", true, |c| {
            c.lim.max_size = tx_size(&c.tx) - 1;
            true
        }),
        dev!("max_size_eq_size", false, |c| {
            c.lim.max_size = tx_size(&c.tx);
            true
        }),
        // ---- Script
        dev!("script_gas_limit_max_plus_1", true, |c| {
            let m = c.lim.max_gas_per_tx;
            match &mut c.tx.body {
                Body::Script { gas_limit, .. } => {
                    *gas_limit = m + 1;
                    true
                }
                _ => false,
            }
        }),
        dev!("script_gas_limit_eq_max", false, |c| {
            let m = c.lim.max_gas_per_tx;
            match &mut c.tx.body {
                Body::Script { gas_limit, .. } => {
                    *gas_limit = m;
                    true
                }
                _ => false,
            }
        }),
        dev!("script_len_max_plus_1", true, |c| {
            let m = c.lim.max_script as u32;
            match &mut c.tx.body {
                Body::Script { script, .. } => {
                    *script = m + 1;
                    true
                }
                _ => false,
            }
        }),
        dev!("script_len_eq_max", false, |c| {
            let m = c.lim.max_script as u32;
            match &mut c.tx.body {
                Body::Script { script, .. } => {
                    *script = m;
                    true
                }
                _ => false,
            }
        }),
        dev!("script_data_len_max_plus_1", true, |c| {
            let m = c.lim.max_script_data as u32;
            match &mut c.tx.body {
                Body::Script { data, .. } => {
                    *data = m + 1;
                    true
                }
                _ => false,
            }
        }),
        dev!("script_data_len_eq_max", false, |c| {
            let m = c.lim.max_script_data as u32;
            match &mut c.tx.body {
                Body::Script { data, .. } => {
                    *data = m;
                    true
                }
                _ => false,
            }
        }),
        dev!("extra_contract_created_output", true, |c| {
            let d = c.tx.outs.iter().find(|o| matches!(o, Out::Created { .. })).cloned();
            c.tx.outs.push(d.unwrap_or(Out::Created {
                contract_id: [0xcc; 32],
                state_root: [0xdd; 32],
            }));
            if is_create(c) {
                refresh_created(&mut c.tx);
            }
            true
        }),
        // ---- Create
        dev!("create_bytecode_witness_out_of_bounds", true, |c| {
            let n = c.tx.wits.len() as u16;
            match &mut c.tx.body {
                Body::Create { bytecode_wit, .. } => {
                    *bytecode_wit = n;
                    true
                }
                _ => false,
            }
        }),
        dev!("create_bytecode_len_max_plus_1", true, |c| set_bytecode_len(c, 1)),
        dev!("create_bytecode_len_eq_max", false, |c| set_bytecode_len(c, 0)),
        dev!("create_slots_max_plus_1", true, |c| set_slots(c, 1)),
        dev!("create_slots_eq_max", false, |c| set_slots(c, 0)),
        dev!("create_slots_unsorted", true, |c| {
            match &mut c.tx.body {
                Body::Create { slots, .. } if slots.len() >= 2 => slots.swap(0, 1),
                _ => return false,
            }
            refresh_created(&mut c.tx);
            true
        }),
        // duplicate key: the value order must not matter (the rule is about keys only)
        dev!("create_slots_duplicate_key_same_value", true, |c| dup_slots(c, VAL_HI, VAL_HI)),
        dev!("create_slots_duplicate_key_values_ascending", true, |c| dup_slots(c, VAL_LO, VAL_HI)),
        dev!("create_slots_duplicate_key_values_descending", true, |c| dup_slots(c, VAL_HI, VAL_LO)),
        dev!("create_slots_unsorted_values_opposite", true, |c| {
            match &mut c.tx.body {
                Body::Create { slots, .. } if slots.len() >= 2 => {
                    // keys descending while the values ascend
                    let (k0, k1) = (slots[0].0, slots[1].0);
                    slots[0] = (k1, VAL_LO);
                    slots[1] = (k0, VAL_HI);
                }
                _ => return false,
            }
            refresh_created(&mut c.tx);
            true
        }),
        dev!("create_wrong_contract_id", true, |c| {
            if !is_create(c) {
                return false
            }
            for o in c.tx.outs.iter_mut() {
                if let Out::Created { contract_id, .. } = o {
                    contract_id[0] ^= 1;
                    return true
                }
            }
            false
        }),
        dev!("create_wrong_state_root", true, |c| {
            if !is_create(c) {
                return false
            }
            for o in c.tx.outs.iter_mut() {
                if let Out::Created { state_root, .. } = o {
                    state_root[31] ^= 1;
                    return true
                }
            }
            false
        }),
        dev!("create_without_contract_created", true, |c| {
            if !is_create(c) {
                return false
            }
            let n = c.tx.outs.len();
            c.tx.outs.retain(|o| !matches!(o, Out::Created { .. }));
            c.tx.outs.len() != n
        }),
        // ---- input / output restrictions of Create, Upgrade, Upload, Blob
        dev!("add_message_data_input", true, |c| {
            let k = c.tx.ins.len();
            add_input(c, In::Msg {
                data: true,
                signed: true,
                nonce: 0x50 + k as u8,
                sender: 0x2a,
                recipient: 0x0c,
                amount: 9,
                wit: 0,
                dlen: 5,
                pred: 0,
                pdata: 0,
                pgas: 0,
            })
        }),
        dev!("add_non_base_coin_input", true, |c| {
            let k = c.tx.ins.len();
            add_input(c, In::Coin {
                signed: true,
                utxo: (0x50 + k as u8, 0),
                owner: 0x0c,
                amount: 9,
                asset: 1,
                wit: 0,
                pred: 0,
                pdata: 0,
                pgas: 0,
            })
        }),
        dev!("add_contract_input_and_output", true, |c| {
            let k = c.tx.ins.len();
            if !add_input(c, In::Contract {
                utxo: (0x58 + k as u8, 0),
                contract: 0x18 + k as u8,
            }) {
                return false
            }
            c.tx.outs.push(Out::Contract {
                input_index: c.tx.ins.len() as u16 - 1,
            });
            true
        }),
        dev!("add_variable_output", true, |c| {
            c.tx.outs.push(Out::Variable { to: 0x3c, amount: 0, asset: BASE });
            true
        }),
        dev!("add_non_base_change_output", true, |c| {
            c.tx.outs.push(Out::Change { to: 0x3b, amount: 0, asset: 1 });
            true
        }),
        // ---- Upgrade
        dev!("no_input_owned_by_privileged_address", true, |c| {
            let mut any = false;
            for i in c.tx.ins.iter_mut() {
                match i {
                    In::Coin { owner: o, .. } | In::Msg { recipient: o, .. } if *o == PRIV => {
                        *o = 0x0f;
                        any = true;
                    }
                    _ => {}
                }
            }
            any
        }),
        dev!("upgrade_checksum_mismatch", true, |c| match &mut c.tx.body {
            Body::UpgradeCp { checksum, .. } => {
                checksum[0] ^= 1;
                true
            }
            _ => false,
        }),
        dev!("upgrade_payload_not_decodable", true, |c| match &mut c.tx.body {
            Body::UpgradeCp { wit, checksum } => {
                let w = *wit as usize;
                if w >= c.tx.wits.len() {
                    return false
                }
                c.tx.wits[w] = Wit::Garbage;
                *checksum = wit_sha256(&Wit::Garbage);
                true
            }
            _ => false,
        }),
        dev!("upgrade_witness_out_of_bounds", true, |c| {
            let n = c.tx.wits.len() as u16;
            match &mut c.tx.body {
                Body::UpgradeCp { wit, .. } => {
                    *wit = n;
                    true
                }
                _ => false,
            }
        }),
        // ---- Upload
        dev!("upload_proof_element_flipped", true, |c| match &mut c.tx.body {
            Body::Upload { proof, .. } if !proof.is_empty() => {
                proof[0][0] ^= 1;
                true
            }
            _ => false,
        }),
        dev!("upload_wrong_root", true, |c| match &mut c.tx.body {
            Body::Upload { root, .. } => {
                root[0] ^= 1;
                true
            }
            _ => false,
        }),
        dev!("upload_subsections_max_plus_1", true, |c| {
            let m = c.lim.max_subsections;
            set_upload(c, m + 1, 1)
        }),
        dev!("upload_subsections_eq_max", false, |c| {
            let m = c.lim.max_subsections;
            set_upload(c, m, 1)
        }),
        dev!("upload_single_subsection", false, |c| set_upload(c, 1, 0)),
        dev!("upload_last_subsection", false, |c| set_upload(c, 3, 2)),
        dev!("upload_witness_out_of_bounds", true, |c| {
            let n = c.tx.wits.len() as u16;
            match &mut c.tx.body {
                Body::Upload { wit, .. } => {
                    *wit = n;
                    true
                }
                _ => false,
            }
        }),
        dev!("upload_index_eq_count", true, |c| match &mut c.tx.body {
            Body::Upload { index, count, .. } => {
                *index = *count;
                true
            }
            _ => false,
        }),
        dev!("upload_proof_extra_element", true, |c| match &mut c.tx.body {
            Body::Upload { proof, .. } => {
                proof.push([0; 32]);
                true
            }
            _ => false,
        }),
        dev!("upload_proof_missing_element", true, |c| match &mut c.tx.body {
            Body::Upload { proof, .. } if !proof.is_empty() => {
                proof.pop();
                true
            }
            _ => false,
        }),
        dev!("upload_witness_changed", true, |c| {
            let Body::Upload { wit, .. } = &c.tx.body else {
                return false
            };
            flip_witness(c, *wit)
        }),
        // ---- Blob
        dev!("blob_wrong_id", true, |c| match &mut c.tx.body {
            Body::Blob { id, .. } => {
                id[5] ^= 0x80;
                true
            }
            _ => false,
        }),
        dev!("blob_witness_out_of_bounds", true, |c| {
            let n = c.tx.wits.len() as u16;
            match &mut c.tx.body {
                Body::Blob { wit, .. } => {
                    *wit = n;
                    true
                }
                _ => false,
            }
        }),
        dev!("blob_witness_changed", true, |c| {
            let Body::Blob { wit, .. } = &c.tx.body else {
                return false
            };
            flip_witness(c, *wit)
        }),
    ]
}

/// value tags whose 32-byte values compare LO < HI
const VAL_LO: u8 = 0x70;
const VAL_HI: u8 = 0x01;

/// make the last two slots share one key, with the given value tags (the number of
/// slots is kept when there are >= 2); the ContractCreated output is recomputed for
/// the slot list as given
fn dup_slots(c: &mut Case, first: u8, second: u8) -> bool {
    assert!(slot_val_b(VAL_LO) < slot_val_b(VAL_HI));
    match &mut c.tx.body {
        Body::Create { slots, .. } if !slots.is_empty() => {
            let n = slots.len();
            if n >= 2 {
                let k = slots[n - 2].0;
                slots[n - 2] = (k, first);
                slots[n - 1] = (k, second);
            } else {
                let k = slots[0].0;
                slots[0] = (k, first);
                slots.push((k, second));
            }
        }
        _ => return false,
    }
    refresh_created(&mut c.tx);
    true
}

fn flip_witness(c: &mut Case, wit: u16) -> bool {
    match c.tx.wits.get_mut(wit as usize) {
        Some(Wit::Fill { byte, .. }) => {
            *byte ^= 1;
            true
        }
        _ => false,
    }
}

fn set_bytecode_len(c: &mut Case, extra: u32) -> bool {
    let m = c.lim.contract_max_size as u32;
    let Body::Create { bytecode_wit, .. } = &c.tx.body else {
        return false
    };
    let w = *bytecode_wit as usize;
    // never resize the dummy signature witness shared with signed inputs
    if w == 0 || w >= c.tx.wits.len() {
        return false
    }
    c.tx.wits[w] = Wit::Fill {
        len: m + extra,
        byte: 0x5c,
    };
    refresh_created(&mut c.tx);
    true
}

fn set_slots(c: &mut Case, extra: u64) -> bool {
    let m = c.lim.max_slots + extra;
    match &mut c.tx.body {
        Body::Create { slots, .. } => *slots = (1..=m as u8).map(|k| (k, k)).collect(),
        _ => return false,
    }
    refresh_created(&mut c.tx);
    true
}
