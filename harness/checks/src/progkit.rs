//! Program-exploration kit: a small fixed "world" (contracts, assets, a script
//! transaction template with contract inputs/outputs, script data full of interesting
//! ids and call structures, a register prelude) in which every program over a
//! property-specific instruction alphabet can be executed on the real interpreter —
//! step by step (`World::vm` + `vmkit::step`) for per-instruction monitors, or end to
//! end (`World::transact`) for outcome/receipt/balance oracles.
//!
//! Include with `#[path = "../progkit.rs"] mod progkit;`. Nothing here is an oracle.
#![allow(dead_code)]

use fuel_asm::{
    op,
    GTFArgs,
    Instruction,
    RegId,
};
use fuel_tx::{
    field::{
        Script as ScriptField,
        ScriptGasLimit,
    },
    ConsensusParameters,
    Finalizable,
    Input,
    Output,
    Receipt,
    Script,
    TransactionBuilder,
    TxPointer,
    UtxoId,
};
use fuel_types::{
    Address,
    AssetId,
    BlockHeight,
    Bytes32,
    ContractId,
    Nonce,
};
use fuel_vm::{
    checked_transaction::{
        IntoChecked,
        Ready,
    },
    interpreter::{
        Interpreter,
        InterpreterParams,
        MemoryInstance,
    },
    state::ProgramState,
    storage::{
        ContractsAssetsStorage,
        InterpreterStorage,
        MemoryStorage,
    },
};
use vcore::vmkit::{
    self,
    Step,
    Vm,
};

pub const A: ContractId = ContractId::new([0xA1; 32]); // deployed, in inputs
pub const B: ContractId = ContractId::new([0xB2; 32]); // deployed, in inputs
pub const C: ContractId = ContractId::new([0xC3; 32]); // deployed, NOT in inputs
pub const D: ContractId = ContractId::new([0xD4; 32]); // does not exist
pub const ASSET_X: AssetId = AssetId::new([0x11; 32]);
pub const RECIPIENT: Address = Address::new([0x77; 32]);

/// Script-data layout (offsets from the start of script data).
pub mod off {
    pub const CALL_A: u16 = 0; // contract id(32) | param1(8) | param2(8)
    pub const CALL_B: u16 = 48;
    pub const CALL_C: u16 = 96;
    pub const CALL_D: u16 = 144;
    pub const ASSET_BASE: u16 = 192;
    pub const ASSET_X: u16 = 224;
    pub const RECIPIENT: u16 = 256;
    pub const PATTERN: u16 = 288; // 64 bytes 0x01,0x02,…
    pub const END: u16 = 352;
}

/// Registers loaded by the prelude.
pub mod r {
    pub const DATA: u8 = 0x20; // start of script data
    pub const CALL_A: u8 = 0x21;
    pub const CALL_B: u8 = 0x22;
    pub const CALL_C: u8 = 0x23;
    pub const CALL_D: u8 = 0x24;
    pub const ASSET_BASE: u8 = 0x25;
    pub const ASSET_X: u8 = 0x26;
    pub const RECIPIENT: u8 = 0x27;
    pub const PATTERN: u8 = 0x28;
    /// first register never touched by the prelude (use 0x10..0x1f and 0x29.. freely)
    pub const FREE_LO: u8 = 0x10;
}

#[derive(Clone, Debug)]
pub struct WorldCfg {
    pub code_a: Vec<Instruction>,
    pub code_b: Vec<Instruction>,
    pub code_c: Vec<Instruction>,
    /// prior contract balances
    pub balances: Vec<(ContractId, AssetId, u64)>,
    /// amount of the base-asset coin input (also pays the fee limit)
    pub base_coin: u64,
    /// amount of the asset-X coin input (0 = no such input)
    pub x_coin: u64,
    /// message-coin input amount (0 = none) and message-data input (amount, data) (None = none)
    pub msg_coin: u64,
    pub msg_data: Option<(u64, Vec<u8>)>,
    pub change_base: bool,
    pub change_x: bool,
    pub variable_outputs: usize,
    pub gas_price: u64,
    pub max_fee_limit: u64,
    pub params: ConsensusParameters,
    pub extra_script_data: Vec<u8>,
}

impl Default for WorldCfg {
    fn default() -> Self {
        let ret1 = vec![op::ret(RegId::ONE)];
        WorldCfg {
            code_a: ret1.clone(),
            code_b: ret1.clone(),
            code_c: ret1,
            balances: vec![(A, ASSET_X, 500), (B, AssetId::BASE, 300)],
            base_coin: 1_000_000,
            x_coin: 1_000,
            msg_coin: 0,
            msg_data: None,
            change_base: true,
            change_x: true,
            variable_outputs: 2,
            gas_price: 0,
            max_fee_limit: 0,
            params: ConsensusParameters::standard(),
            extra_script_data: vec![],
        }
    }
}

#[derive(Clone)]
pub struct World {
    pub cfg: WorldCfg,
    pub params: ConsensusParameters,
    pub storage: MemoryStorage,
    pub template: Script,
    pub data: Vec<u8>,
    pub prelude: Vec<Instruction>,
}

/// Result of an end-to-end execution.
pub struct Outcome {
    pub state: Result<ProgramState, String>,
    pub receipts: Vec<Receipt>,
    /// the transaction as left by the VM (outputs, receipts root filled in)
    pub tx: Option<Script>,
    /// storage as left by the interpreter (uncommitted `memory` layer included)
    pub storage: MemoryStorage,
    pub host_panic: Option<String>,
}

pub fn call_struct(id: &ContractId, p1: u64, p2: u64) -> Vec<u8> {
    let mut v = id.to_vec();
    v.extend_from_slice(&p1.to_be_bytes());
    v.extend_from_slice(&p2.to_be_bytes());
    v
}

impl World {
    pub fn new(cfg: WorldCfg) -> World {
        let params = cfg.params.clone();
        let mut storage = MemoryStorage::default();
        for (id, code) in [(A, &cfg.code_a), (B, &cfg.code_b), (C, &cfg.code_c)] {
            let bytes: Vec<u8> = code.iter().copied().collect();
            storage
                .deploy_contract_with_id(&[], &bytes, &id)
                .expect("deploy");
        }
        for (c, a, v) in &cfg.balances {
            storage
                .contract_asset_id_balance_insert(c, a, *v)
                .expect("balance");
        }
        storage.commit();
        storage.persist();

        let mut data = Vec::new();
        data.extend(call_struct(&A, 0x1111, 0x2222));
        data.extend(call_struct(&B, 0x3333, 0x4444));
        data.extend(call_struct(&C, 0, 0));
        data.extend(call_struct(&D, 0, 0));
        data.extend_from_slice(params.base_asset_id().as_ref());
        data.extend_from_slice(ASSET_X.as_ref());
        data.extend_from_slice(RECIPIENT.as_ref());
        data.extend((1..=64u8).collect::<Vec<u8>>());
        assert_eq!(data.len(), off::END as usize);
        data.extend_from_slice(&cfg.extra_script_data);

        let prelude = vec![
            op::gtf_args(r::DATA, RegId::ZERO, GTFArgs::ScriptData),
            op::addi(r::CALL_A, r::DATA, off::CALL_A),
            op::addi(r::CALL_B, r::DATA, off::CALL_B),
            op::addi(r::CALL_C, r::DATA, off::CALL_C),
            op::addi(r::CALL_D, r::DATA, off::CALL_D),
            op::addi(r::ASSET_BASE, r::DATA, off::ASSET_BASE),
            op::addi(r::ASSET_X, r::DATA, off::ASSET_X),
            op::addi(r::RECIPIENT, r::DATA, off::RECIPIENT),
            op::addi(r::PATTERN, r::DATA, off::PATTERN),
        ];

        // Template transaction: built once (signing is slow); per program only the
        // script bytes are replaced and basic checks re-run (no signature checks).
        let mut b = TransactionBuilder::script(vec![], data.clone());
        b.with_params(params.clone());
        b.script_gas_limit(1_000_000);
        b.max_fee_limit(cfg.max_fee_limit);
        let owner = Address::new([0x55; 32]);
        b.add_input(Input::coin_signed(
            UtxoId::new(Bytes32::new([1; 32]), 0),
            owner,
            cfg.base_coin,
            *params.base_asset_id(),
            TxPointer::default(),
            0,
        ));
        if cfg.x_coin > 0 {
            b.add_input(Input::coin_signed(
                UtxoId::new(Bytes32::new([2; 32]), 0),
                owner,
                cfg.x_coin,
                ASSET_X,
                TxPointer::default(),
                0,
            ));
        }
        if cfg.msg_coin > 0 {
            b.add_input(Input::message_coin_signed(
                Address::new([0x66; 32]),
                owner,
                cfg.msg_coin,
                Nonce::new([3; 32]),
                0,
            ));
        }
        if let Some((amount, d)) = &cfg.msg_data {
            b.add_input(Input::message_data_signed(
                Address::new([0x66; 32]),
                owner,
                *amount,
                Nonce::new([4; 32]),
                0,
                d.clone(),
            ));
        }
        let first_contract_input = b.inputs().len() as u16;
        for (i, id) in [A, B].iter().enumerate() {
            b.add_input(Input::contract(
                UtxoId::new(Bytes32::new([0x10 + i as u8; 32]), 0),
                Bytes32::zeroed(),
                Bytes32::zeroed(),
                TxPointer::default(),
                *id,
            ));
        }
        for i in 0..2u16 {
            b.add_output(Output::contract(
                first_contract_input + i,
                Bytes32::zeroed(),
                Bytes32::zeroed(),
            ));
        }
        if cfg.change_base {
            b.add_output(Output::change(owner, 0, *params.base_asset_id()));
        }
        if cfg.change_x && cfg.x_coin > 0 {
            b.add_output(Output::change(owner, 0, ASSET_X));
        }
        for _ in 0..cfg.variable_outputs {
            b.add_output(Output::variable(Address::zeroed(), 0, AssetId::zeroed()));
        }
        b.add_witness(vec![0u8; 64].into());
        let template = b.finalize_without_signature();

        World {
            cfg,
            params,
            storage,
            template,
            data,
            prelude,
        }
    }

    /// Index (in instructions, from `$is`) of the first body instruction.
    pub fn body_start(&self) -> usize {
        self.prelude.len()
    }

    pub fn script_bytes(&self, body: &[Instruction]) -> Vec<u8> {
        self.prelude.iter().chain(body.iter()).copied().collect()
    }

    pub fn tx(&self, script: Vec<u8>, gas_limit: u64) -> Script {
        let mut tx = self.template.clone();
        *tx.script_mut() = script;
        *tx.script_gas_limit_mut() = gas_limit;
        tx
    }

    pub fn ready(&self, script: Vec<u8>, gas_limit: u64) -> Ready<Script> {
        self.tx(script, gas_limit)
            .into_checked_basic(BlockHeight::new(0), &self.params)
            .expect("world tx must pass basic checks")
            .test_into_ready()
    }

    pub fn interpreter_params(&self) -> InterpreterParams {
        InterpreterParams::new(self.cfg.gas_price, &self.params)
    }

    /// Fresh VM over a clone of the world storage, initialised with the script,
    /// `$pc == $is` (prelude not executed yet).
    pub fn vm(&self, script: Vec<u8>, gas_limit: u64) -> Vm {
        let mut vm: Vm = Interpreter::with_storage(
            MemoryInstance::new(),
            self.storage.clone(),
            self.interpreter_params(),
        );
        vm.init_script(self.ready(script, gas_limit))
            .expect("init_script");
        vm
    }

    /// Like `vm`, with the prelude already executed (`$pc` at the first body
    /// instruction). Panics if the prelude does not run through.
    pub fn vm_after_prelude(&self, body: &[Instruction], gas_limit: u64) -> Vm {
        let mut vm = self.vm(self.script_bytes(body), gas_limit);
        for _ in 0..self.prelude.len() {
            let s = vmkit::step(&mut vm);
            assert_eq!(s, Step::Proceed, "prelude must run");
        }
        vm
    }

    /// End-to-end execution through `Interpreter::transact` (init, run, post-execution).
    pub fn transact(&self, script: Vec<u8>, gas_limit: u64) -> Outcome {
        let ready = self.ready(script, gas_limit);
        let mut vm: Vm = Interpreter::with_storage(
            MemoryInstance::new(),
            self.storage.clone(),
            self.interpreter_params(),
        );
        let r = vcore::guard::catch_any(|| match vm.transact(ready) {
            Ok(st) => (
                Ok(*st.state()),
                st.receipts().to_vec(),
                Some(st.tx().clone()),
            ),
            Err(e) => (Err(format!("{e:?}")), vec![], None),
        });
        match r {
            Ok((state, receipts, tx)) => Outcome {
                state,
                receipts,
                tx,
                storage: vm.as_ref().clone(),
                host_panic: None,
            },
            Err(m) => Outcome {
                state: Err(format!("HOST-PANIC {m}")),
                receipts: vec![],
                tx: None,
                storage: vm.as_ref().clone(),
                host_panic: Some(m),
            },
        }
    }
}

/// A letter of an instruction alphabet: one or more instructions with a name.
#[derive(Clone, Debug)]
pub struct Letter {
    pub name: String,
    pub ins: Vec<Instruction>,
}

pub fn letter(name: &str, ins: Vec<Instruction>) -> Letter {
    Letter {
        name: name.to_string(),
        ins,
    }
}

/// The `idx`-th program (shortest first) of length <= k over `alphabet`, as
/// (letter indices, flattened instructions).
pub fn program_at(alphabet: &[Letter], k: u32, idx: u64) -> (Vec<u64>, Vec<Instruction>) {
    let seq = vcore::space::seq_at(alphabet.len() as u64, k, idx);
    let ins = seq
        .iter()
        .flat_map(|i| alphabet[*i as usize].ins.iter().copied())
        .collect();
    (seq, ins)
}

pub fn program_names(alphabet: &[Letter], seq: &[u64]) -> Vec<String> {
    seq.iter().map(|i| alphabet[*i as usize].name.clone()).collect()
}
