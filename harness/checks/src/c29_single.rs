// C29 part (a): single injected instructions. Included into bin/c29.rs.

const CTXS: [&str; 3] = ["script", "internal", "predicate"];
/// registers that receive the rotated classes
fn class_regs() -> Vec<usize> {
    (0x14..=0x1f).chain(0x29..=0x3b).collect()
}
/// base settings: register index used for field position p
const BASE0: [u32; 4] = [0, 0, 0, 0];
const BASE1: [u32; 4] = [0x10, 0x11, 0x12, 0x13];
const BASE2: [u32; 4] = [0x3c, 0x3d, 0x3e, 0x3f];

struct Prepared {
    /// [ctx][preset]
    vms: Vec<Vec<Vm>>,
    class_names: Vec<String>,
    /// VMs of the script / internal context whose receipt list holds 65531..=65533 entries
    edge: Vec<(String, Vm)>,
}

fn classes_of(vm: &Vm) -> Vec<(String, u64)> {
    let g = |id: RegId| reg_of(vm, id);
    vec![
        ("0".into(), 0),
        ("1".into(), 1),
        ("8".into(), 8),
        ("32".into(), 32),
        ("tx-start".into(), vm.tx_offset() as u64),
        ("script-data".into(), vm.registers()[r::DATA as usize]),
        ("$is".into(), g(RegId::IS)),
        ("$ssp".into(), g(RegId::SSP)),
        ("$sp".into(), g(RegId::SP)),
        ("$hp".into(), g(RegId::HP)),
        ("$hp+32".into(), g(RegId::HP) + 32),
        ("MEM-32".into(), MEM - 32),
        ("MEM-1".into(), MEM - 1),
        ("MEM".into(), MEM),
        ("2^32".into(), 1 << 32),
        ("2^40".into(), 1 << 40),
        ("2^63".into(), 1 << 63),
        ("u64::MAX".into(), u64::MAX),
    ]
}

fn apply_preset(vm: &mut Vm, k: usize) {
    let cl = classes_of(vm);
    let nc = cl.len();
    let hp_owned = vm.registers()[R_HP as usize];
    let pattern = vm.registers()[r::PATTERN as usize];
    let regs = vm.registers_mut();
    for (p, d) in [0usize, 1, 3, 7].iter().enumerate() {
        regs[0x10 + p] = cl[(k + d) % nc].1;
    }
    for (i, reg) in class_regs().into_iter().enumerate() {
        regs[reg] = cl[(i + k) % nc].1;
    }
    regs[0x3c] = hp_owned;
    regs[0x3d] = pattern;
    regs[0x3e] = 32;
    regs[0x3f] = 1;
}

fn step_n<const PREDICATE: bool>(vm: &mut Vm, n: usize, what: &str) {
    for i in 0..n {
        let o = of_exec(catch_any(|| vm.execute::<PREDICATE>()));
        assert_eq!(o, Obs::Ok("proceed"), "{what}: setup step {i}");
    }
}

fn base_vms(env: &Env, gas: u64, pad: &[u32]) -> Vec<Vm> {
    let npre = env.world.prelude.len();
    let nx = env.xpre.len();
    let mut noops: Vec<u32> = pad.to_vec();
    noops.extend(vec![raw_of(op::noop()); 4]);
    // script context
    let mut s: Vm = env.new_vm(env.world.storage.clone());
    let checked = env
        .checked(env.script_bytes(&noops), None, None, gas)
        .expect("script");
    s.init_script(checked.test_into_ready()).expect("init");
    step_n::<false>(&mut s, npre + nx, "script");
    // internal context: paused inside contract A
    let code = env.body_bytes(&noops);
    let mut c: Vm = env.new_vm(env.storage_with_code_a(&code));
    let checked = env
        .checked(env.caller_bytes(), None, None, gas)
        .expect("caller");
    c.init_script(checked.test_into_ready()).expect("init");
    step_n::<false>(&mut c, npre + 1 + nx, "internal");
    assert!(reg_of(&c, RegId::FP) != 0, "internal context");
    // predicate mode
    let mut pcode = bytes_of(&env.prelude_raws());
    pcode.extend(env.body_bytes(&noops));
    let checked = env
        .checked(
            bytes_of(&[raw_of(op::ret(RegId::ONE))]),
            None,
            Some((pcode, gas)),
            G_PROG,
        )
        .expect("predicate tx");
    let mut p = predicate_vm(env, checked.transaction(), gas).expect("init_predicate");
    step_n::<true>(&mut p, npre + nx, "predicate");
    vec![s, c, p]
}

fn prepare(env: &Env, with_edge: bool) -> Prepared {
    let base = base_vms(env, G_SINGLE, &[]);
    let class_names: Vec<String> = classes_of(&base[0]).into_iter().map(|c| c.0).collect();
    let nc = class_names.len();
    let vms = base
        .iter()
        .map(|b| {
            // preset nc = the registers as left by the program preludes (letters are benign
            // there); preset nc+1 = the same after `cfsi 64` ($sp == $ssp, as LDC requires)
            (0..=nc + 1)
                .map(|k| {
                    let mut v = b.clone();
                    if k < nc {
                        apply_preset(&mut v, k);
                    }
                    if k == nc + 1 {
                        let o = of_exec(catch_any(|| v.instruction::<_, false>(raw_of(op::cfsi(64)))));
                        assert_eq!(o, Obs::Ok("proceed"), "cfsi 64");
                    }
                    v
                })
                .collect()
        })
        .collect();
    // receipt-limit edge: run a real LOG loop inside the script / the contract
    let mut edge = Vec::new();
    if with_edge {
        let lp = [
            raw_of(op::movi(R_D, 65_531)),
            raw_of(op::log(RegId::ZERO, RegId::ZERO, RegId::ZERO, RegId::ZERO)),
            raw_of(op::subi(R_D, R_D, 1)),
            raw_of(op::jnzb(R_D, RegId::ZERO, 1)),
        ];
        let b2 = base_vms(env, G_PROBE, &lp);
        for (ci, mut vm) in b2.into_iter().enumerate().take(2) {
            step_n::<false>(&mut vm, 1 + 3 * 65_531, "edge loop");
            for _ in 0..5 {
                edge.push((format!("{}@{}", CTXS[ci], vm.receipts().len()), vm.clone()));
                let mut v = vm.clone();
                apply_preset(&mut v, 0);
                edge.push((format!("{}@{}/preset0", CTXS[ci], vm.receipts().len()), v));
                let o = of_exec(catch_any(|| {
                    vm.instruction::<_, false>(raw_of(op::log(
                        RegId::ZERO,
                        RegId::ZERO,
                        RegId::ZERO,
                        RegId::ZERO,
                    )))
                }));
                if o != Obs::Ok("proceed") {
                    break
                }
            }
        }
    }
    Prepared {
        vms,
        class_names,
        edge,
    }
}

fn boundary(bits: u32) -> Vec<u32> {
    let max = (1u32 << bits) - 1;
    let mut v = vec![0, 1, max];
    for i in 1..bits {
        let p = 1u32 << i;
        v.extend([p - 1, p, p + 1]);
    }
    v.retain(|x| *x <= max);
    v.sort();
    v.dedup();
    v
}

/// The raw words of space (a), in generation order (opcode-major), without duplicates.
fn single_raws(env: &Env) -> Vec<u32> {
    let bases = [BASE0, BASE1, BASE2];
    let mut args: Vec<u32> = Vec::new();
    let pack = |f: [u32; 4]| (f[0] << 18) | (f[1] << 12) | (f[2] << 6) | f[3];
    for b in bases {
        args.push(pack(b));
    }
    for b in bases {
        for p in 0..4 {
            for v in 0..64u32 {
                let mut f = b;
                f[p] = v;
                args.push(pack(f));
            }
        }
    }
    for b in bases {
        for imm in boundary(12) {
            args.push((b[0] << 18) | (b[1] << 12) | imm);
        }
        for imm in boundary(18) {
            args.push((b[0] << 18) | imm);
        }
    }
    args.extend(boundary(24));
    let mut seen = HashSet::new();
    args.retain(|a| seen.insert(*a));
    let mut raws: Vec<u32> = Vec::new();
    for opb in 0..=255u32 {
        for a in &args {
            raws.push((opb << 24) | a);
        }
    }
    // GTF: every selector x index registers; GM: selectors 0..=255
    for idx in [0u32, 1, 0x10, 0x11, 0x12, 0x3f] {
        for sel in 0..4096u32 {
            raws.push((0x61 << 24) | (0x30 << 18) | (idx << 12) | sel);
        }
    }
    for sel in 0..256u32 {
        raws.push((0x71 << 24) | (0x30 << 18) | sel);
    }
    for l in &env.letters {
        raws.push(l.raw);
    }
    let mut seen = HashSet::new();
    raws.retain(|a| seen.insert(*a));
    raws
}

/// One injected instruction. Returns (label, gas charged if executed, finding).
fn check_single(vm: &Vm, predicate: bool, raw: u32) -> (Obs, Option<u64>, Option<Finding>) {
    let mut v = vm.clone();
    let g0 = reg_of(&v, RegId::GGAS);
    let name = opname((raw >> 24) as u8);
    let obs = if predicate {
        of_exec(catch_any(|| v.instruction::<_, true>(raw)))
    } else {
        of_exec(catch_any(|| v.instruction::<_, false>(raw)))
    };
    if let Some(f) = judge_common(&obs, &name) {
        return (obs, None, Some(f))
    }
    match &obs {
        Obs::Ok(l) => {
            let g1 = reg_of(&v, RegId::GGAS);
            if g1 >= g0 {
                let f = (
                    format!("C29:free-instruction:{name}"),
                    format!(
                        "{name} (raw {raw:#010x}) executed ({l}) with $ggas {g0} -> {g1} under the default gas schedule"
                    ),
                );
                return (obs, Some(0), Some(f))
            }
            (obs, Some(g0 - g1), None)
        }
        Obs::Storage(s) => {
            let f = (
                "C29:unexpected-error:Storage".to_string(),
                format!("{name} (raw {raw:#010x}): storage error from MemoryStorage: {s}"),
            );
            (obs, None, Some(f))
        }
        Obs::ErrPanic(_) | Obs::Other(..) => {
            let f = (
                format!("C29:unexpected-error:{}", obs.label()),
                format!("{name} (raw {raw:#010x}): instruction returned {obs:?}"),
            );
            (obs, None, Some(f))
        }
        _ => (obs, None, None),
    }
}

#[derive(Default)]
struct SingleAcc {
    outcomes: BTreeMap<String, u64>,
    fps: HashSet<u64>,
    ok: Vec<u64>,
    min_gas: Vec<u64>,
    viol: BTreeMap<String, (String, Value)>,
    n: u64,
}

fn explore_single(ctx: &Ctx, env: &Env) {
    let prep = prepare(env, true);
    let raws = single_raws(env);
    let nc = prep.class_names.len();
    let mut presets: Vec<usize> = if ctx.quick() {
        (0..nc).step_by(3).collect()
    } else {
        (0..nc).collect()
    };
    presets.push(nc);
    presets.push(nc + 1);
    let np = presets.len() as u64;
    let nr = raws.len() as u64;
    let total = 3 * np * nr;
    ctx.set(
        "a_space",
        json!({"raw_words": nr, "contexts": CTXS, "presets_used": presets, "classes": prep.class_names,
               "executions": total, "gas_limit": G_SINGLE}),
    );
    let mut ok_tot = vec![vec![0u64; 256]; 3];
    let mut min_gas = vec![vec![u64::MAX; 256]; 3];
    let mut nexec = 0u64;
    // index: raw-major so that the first counterexample is the simplest word
    space::par_chunks(
        total,
        1 << 15,
        || SingleAcc {
            ok: vec![0; 3 * 256],
            min_gas: vec![u64::MAX; 3 * 256],
            ..Default::default()
        },
        |i, acc| {
            let ci = (i % 3) as usize;
            let pi = ((i / 3) % np) as usize;
            let raw = raws[(i / (3 * np)) as usize];
            let k = presets[pi];
            let (obs, gas, f) = check_single(&prep.vms[ci][k], ci == 2, raw);
            acc.n += 1;
            let opb = (raw >> 24) as usize;
            *acc.outcomes.entry(format!("a:{}", obs.label())).or_insert(0) += 1;
            if let Some(g) = gas {
                acc.ok[ci * 256 + opb] += 1;
                let m = &mut acc.min_gas[ci * 256 + opb];
                *m = (*m).min(g);
                acc.fps.insert(hash64(&(ci, opb, obs.label(), g)));
            }
            if let Some((key, what)) = f {
                acc.viol.entry(key).or_insert_with(|| {
                    (
                        format!("[{} preset {k}] {what}", CTXS[ci]),
                        json!({"part": "a", "ctx": CTXS[ci], "preset": k, "raw": raw}),
                    )
                });
            }
        },
        |acc| {
            nexec += acc.n;
            ctx.outcomes_merge(&acc.outcomes);
            ctx.fps_merge(acc.fps);
            for ci in 0..3 {
                for o in 0..256 {
                    ok_tot[ci][o] += acc.ok[ci * 256 + o];
                    min_gas[ci][o] = min_gas[ci][o].min(acc.min_gas[ci * 256 + o]);
                }
            }
            for (k, (w, c)) in acc.viol {
                ctx.violation(k, w, c);
            }
        },
    );
    ctx.evals(nexec);
    // receipt-limit edge states: every letter injected at 65531..65533 receipts
    let mut edge_out: BTreeMap<String, u64> = BTreeMap::new();
    for (name, vm) in &prep.edge {
        for l in &env.letters {
            let (obs, _, f) = check_single(vm, false, l.raw);
            *edge_out
                .entry(format!("a-edge:{}", obs.label()))
                .or_insert(0) += 1;
            if let Some((key, what)) = f {
                ctx.violation(
                    key,
                    format!("[receipts edge {name}, letter {}] {what}", l.name),
                    json!({"part": "a-edge", "edge": name, "raw": l.raw}),
                );
            }
        }
    }
    ctx.evals((prep.edge.len() * env.letters.len()) as u64);
    ctx.outcomes_merge(&edge_out);
    // per-opcode coverage of the gas oracle
    let mut never_ok = Vec::new();
    let mut table = BTreeMap::new();
    for o in 0..256usize {
        if Opcode::try_from(o as u8).is_err() {
            continue
        }
        let tot: u64 = (0..3).map(|c| ok_tot[c][o]).sum();
        if tot == 0 {
            never_ok.push(opname(o as u8));
        }
        table.insert(
            opname(o as u8),
            json!({"executed_ok": [ok_tot[0][o], ok_tot[1][o], ok_tot[2][o]],
                   "min_gas_charged": (0..3).map(|c| if min_gas[c][o] == u64::MAX { Value::Null } else { json!(min_gas[c][o]) }).collect::<Vec<_>>()}),
        );
    }
    ctx.set("a_opcodes_never_executed_ok", json!(never_ok));
    ctx.set("a_per_opcode_[script,internal,predicate]", json!(table));
    // samples
    for (ci, raw) in [(0usize, raw_of(op::add(R_D, 0x3e, 0x3e))), (1, 0x2d84_9000), (2, 0x2800_0000 | (0x3c << 18) | (0x3d << 12) | (0x3e << 6))] {
        let (obs, gas, _) = check_single(&prep.vms[ci][0], ci == 2, raw);
        ctx.sample(json!({"part": "a", "ctx": CTXS[ci], "preset": 0, "raw": format!("{raw:#010x}"),
            "opcode": opname((raw >> 24) as u8), "outcome": obs.label(), "gas_charged": gas}));
    }
}

fn replay_single(ctx: &Ctx, env: &Env, case: &Value) {
    let raw = case["raw"].as_u64().expect("raw") as u32;
    if case["part"] == "a-edge" {
        let prep = prepare(env, true);
        let name = case["edge"].as_str().expect("edge");
        let vm = &prep.edge.iter().find(|e| e.0 == name).expect("edge vm").1;
        if let (_, _, Some((key, what))) = check_single(vm, false, raw) {
            ctx.violation(key, what, case.clone());
        }
        return
    }
    let prep = prepare(env, false);
    let ci = CTXS
        .iter()
        .position(|c| Some(*c) == case["ctx"].as_str())
        .expect("ctx");
    let k = case["preset"].as_u64().expect("preset") as usize;
    if let (_, _, Some((key, what))) = check_single(&prep.vms[ci][k], ci == 2, raw) {
        ctx.violation(key, what, case.clone());
    }
}
