//! Shared model for C12 / C13 / C14: the real `fuel_merkle::sparse::MerkleTree` over the
//! harness-owned node storage (`vcore::nodestore::Shared<Table>`), the `in_memory`
//! wrapper in lock-step, a reference `BTreeMap<key, value>`, and an independent
//! compact-sparse-Merkle reference (root, canonical path, proof recomputation) written
//! from the property statement only:
//!
//!   leaf  = H(0x00 ‖ key ‖ H(value))      node = H(0x01 ‖ left ‖ right)
//!   empty subtree = 32 zero bytes         a subtree holding exactly one leaf IS that leaf
//!   the child taken at depth d is selected by bit d of the key (bit 0 = MSB of byte 0)
//!
//! Nothing in the reference part uses fuel-merkle.
//!
//! Empty values. `sparse::MerkleTree::insert(key, b"")` has no special case in the code
//! (merkle_tree.rs `insert`): it stores a leaf whose value hash is H(""), and the
//! repository's unit tests pin that (`test_insert_empty_data_changes_root`,
//! `test_update_with_empty_data_changes_root`). The out-of-date
//! docs/test-specs/sparse_merkle_tree_tests.md ("update with empty data performs
//! delete", marked WIP there) describes an older `update`. The reference map follows
//! the code + unit tests + the property statement ("leaf = H(0x00,key,H(value))" with
//! "empty values" in the quantifier): after `Insert(k, "")` the key is PRESENT with the
//! empty value; only `Delete(k)` removes a key.
#![allow(dead_code)]

use fuel_merkle::{
    sparse::{
        self,
        in_memory,
        proof::{
            ExclusionLeaf,
            ExclusionLeafData,
            ExclusionProof,
            InclusionProof,
            Proof,
        },
        MerkleTreeKey,
        Primitive,
    },
    storage::Mappable,
};
use serde::{
    Deserialize,
    Serialize,
};
use std::collections::{
    BTreeMap,
    BTreeSet,
};
use vcore::{
    guard,
    nodestore::Shared,
    oracle::{
        self,
        H256,
        ZERO,
    },
};

// ------------------------------------------------------------------ process setup

/// Performance only (no influence on any verdict): the in_memory wrapper's private hash
/// map and the storage snapshots are allocated and freed at a high rate from 16 threads;
/// with glibc's default thresholds that turns into mmap/munmap/trim system calls that
/// serialise the threads. Keep freed memory in the arenas instead.
pub fn tune_allocator() {
    #[cfg(all(target_os = "linux", target_env = "gnu"))]
    {
        extern "C" {
            fn mallopt(param: i32, value: i32) -> i32;
        }
        const M_TRIM_THRESHOLD: i32 = -1;
        const M_TOP_PAD: i32 = -2;
        const M_MMAP_THRESHOLD: i32 = -3;
        // SAFETY: plain libc call with documented integer parameters, before any threads exist.
        unsafe {
            mallopt(M_MMAP_THRESHOLD, 32 * 1024 * 1024);
            mallopt(M_TRIM_THRESHOLD, i32::MAX);
            mallopt(M_TOP_PAD, 64 * 1024 * 1024);
        }
    }
}

// ------------------------------------------------------------------ real objects

#[derive(Debug, Clone)]
pub struct Table;
impl Mappable for Table {
    type Key = Self::OwnedKey;
    type OwnedKey = [u8; 32];
    type OwnedValue = Primitive;
    type Value = Self::OwnedValue;
}
pub type Store = Shared<Table>;
pub type Tree = sparse::MerkleTree<Table, Store>;
pub type RefMap = BTreeMap<H256, Vec<u8>>;

/// Unhashed key (so that the clustered alphabet really clusters inside the tree).
pub fn mk(k: &H256) -> MerkleTreeKey {
    // SAFETY: `convert` is "unsafe" only in the sense that the caller controls the tree
    // shape, which is exactly what this model wants.
    unsafe { MerkleTreeKey::convert(*k) }
}

fn fill(b: u8, last: u8) -> H256 {
    let mut a = [b; 32];
    a[31] = last;
    a
}

/// Key alphabet, simplest first. Indices 0..8 = quick alphabet, 8..10 added in thorough.
pub fn all_keys() -> Vec<H256> {
    let mut v = vec![fill(0, 0), fill(0, 1), fill(0, 2)];
    let mut e = [0u8; 32];
    e[0] = 0x80;
    v.push(e); // differs from the 00-cluster in the first bit
    v.push(fill(0xff, 0xff));
    v.push(fill(0xff, 0xfe)); // shares 255 bits with ff…ff
    v.push(fill(0x55, 0x55));
    v.push(fill(0x55, 0x54)); // shares 255 bits with 55…55
    let mut s = [0xffu8; 32];
    s[0] = 0x7f;
    v.push(s); // 7f…ff: neighbour of 80…00 across the middle of the key space
    v.push(fill(0, 0x80)); // 00…00‖80: splits from 00…00 exactly at a byte boundary (bit 248)
    v
}

/// Two keys that are never inserted but sit inside clusters.
pub fn absent_neighbours() -> Vec<H256> {
    vec![fill(0, 3), fill(0x55, 0x56)]
}

pub const VALUES: [&[u8]; 3] = [b"", b"a", b"b"];
pub const VALUE_NAMES: [&str; 3] = ["\"\"", "\"a\"", "\"b\""];

pub fn kname(k: &H256) -> String {
    format!("{:02x}{:02x}..{:02x}{:02x}", k[0], k[1], k[30], k[31])
}

#[derive(Debug, Clone, Serialize, Deserialize, PartialEq, Eq, Hash, PartialOrd, Ord)]
pub enum Act {
    /// (index into `all_keys()`, index into `VALUES`)
    Ins(u8, u8),
    Del(u8),
    Reload,
}

pub fn alphabet(nkeys: usize) -> Vec<Act> {
    let mut v = Vec::new();
    for k in 0..nkeys as u8 {
        for val in 0..VALUES.len() as u8 {
            v.push(Act::Ins(k, val));
        }
    }
    for k in 0..nkeys as u8 {
        v.push(Act::Del(k));
    }
    v
}

pub fn act_name(a: &Act) -> String {
    let keys = all_keys();
    match a {
        Act::Ins(k, v) => format!("insert({}, {})", kname(&keys[*k as usize]), VALUE_NAMES[*v as usize]),
        Act::Del(k) => format!("delete({})", kname(&keys[*k as usize])),
        Act::Reload => "reload".into(),
    }
}

pub fn hist_names(h: &[Act]) -> Vec<String> {
    h.iter().map(act_name).collect()
}

/// The real storage-backed tree, its storage, optionally the in-memory wrapper, and the
/// reference map, driven in lock-step.
pub struct Live {
    pub tree: Tree,
    pub store: Store,
    pub mem: Option<in_memory::MerkleTree>,
    pub refm: RefMap,
    /// the live tree object descends from a `load`
    pub reloaded: bool,
    /// class of the last applied action w.r.t. the reference map
    pub last_class: &'static str,
}

impl Live {
    pub fn new(with_mem: bool) -> Live {
        let store = Store::new();
        Live {
            tree: Tree::new(store.clone()),
            store,
            mem: if with_mem { Some(in_memory::MerkleTree::new()) } else { None },
            refm: RefMap::new(),
            reloaded: false,
            last_class: "init",
        }
    }

    pub fn root(&self) -> H256 {
        self.tree.root()
    }
}

pub fn classify(refm: &RefMap, a: &Act) -> &'static str {
    let keys = all_keys();
    match a {
        Act::Ins(k, v) => match refm.get(&keys[*k as usize]) {
            None => "insert-new",
            Some(old) if old.as_slice() == VALUES[*v as usize] => "insert-same",
            Some(_) => "overwrite",
        },
        Act::Del(k) => {
            if refm.contains_key(&keys[*k as usize]) {
                "delete-present"
            } else {
                "delete-absent"
            }
        }
        Act::Reload => "reload",
    }
}

pub fn apply_ref(refm: &mut RefMap, a: &Act) {
    let keys = all_keys();
    match a {
        Act::Ins(k, v) => {
            refm.insert(keys[*k as usize], VALUES[*v as usize].to_vec());
        }
        Act::Del(k) => {
            refm.remove(&keys[*k as usize]);
        }
        Act::Reload => {}
    }
}

/// One operation on a bare tree (used for the live tree, reloaded trees and trees over
/// faulty storage alike). `Err` carries either the library error or the panic message.
pub fn tree_op(tree: &mut Tree, a: &Act) -> Result<(), OpFail> {
    let keys = all_keys();
    let r = match a {
        Act::Ins(k, v) => {
            let key = mk(&keys[*k as usize]);
            guard::catch_any(|| tree.insert(key, VALUES[*v as usize]).map_err(|e| format!("{e:?}")))
        }
        Act::Del(k) => {
            let key = mk(&keys[*k as usize]);
            guard::catch_any(|| tree.delete(key).map_err(|e| format!("{e:?}")))
        }
        Act::Reload => Ok(Ok(())),
    };
    match r {
        Ok(Ok(())) => Ok(()),
        Ok(Err(e)) => Err(OpFail::Err(e)),
        Err(p) => Err(OpFail::Panic(p)),
    }
}

#[derive(Debug, Clone, PartialEq, Eq)]
pub enum OpFail {
    Err(String),
    Panic(String),
}

pub fn load_tree(store: Store, root: &H256) -> Result<Tree, OpFail> {
    match guard::catch_any(|| Tree::load(store, root).map_err(|e| format!("{e:?}"))) {
        Ok(Ok(t)) => Ok(t),
        Ok(Err(e)) => Err(OpFail::Err(e)),
        Err(p) => Err(OpFail::Panic(p)),
    }
}

pub fn gen_proof(tree: &Tree, q: &H256) -> Result<P, OpFail> {
    let key = mk(q);
    match guard::catch_any(|| tree.generate_proof(&key).map_err(|e| format!("{e:?}"))) {
        Ok(Ok(p)) => Ok(P::from_lib(&p)),
        Ok(Err(e)) => Err(OpFail::Err(e)),
        Err(p) => Err(OpFail::Panic(p)),
    }
}

/// Apply one action to the lock-step bundle. Any error/panic of the real tree on
/// intact storage is returned as `Err(text)`.
pub fn apply(l: &mut Live, a: &Act) -> Result<(), String> {
    l.last_class = classify(&l.refm, a);
    match a {
        Act::Reload => {
            let root = l.tree.root();
            match load_tree(l.store.clone(), &root) {
                Ok(t) => {
                    l.tree = t;
                    l.reloaded = true;
                }
                Err(e) => return Err(format!("load(storage, current root) failed: {e:?}")),
            }
        }
        _ => {
            tree_op(&mut l.tree, a).map_err(|e| format!("{} failed: {e:?}", act_name(a)))?;
            if let Some(m) = l.mem.as_mut() {
                let keys = all_keys();
                let r = guard::catch_any(|| match a {
                    Act::Ins(k, v) => m.update(mk(&keys[*k as usize]), VALUES[*v as usize]),
                    Act::Del(k) => m.delete(mk(&keys[*k as usize])),
                    Act::Reload => {}
                });
                if let Err(p) = r {
                    return Err(format!("in_memory {} panicked: {p}", act_name(a)))
                }
            }
        }
    }
    apply_ref(&mut l.refm, a);
    Ok(())
}

/// Rebuild a bundle by replaying a history from the empty tree.
pub fn replay_hist(hist: &[Act], with_mem: bool) -> Result<Live, (usize, String)> {
    let mut l = Live::new(with_mem);
    for (i, a) in hist.iter().enumerate() {
        apply(&mut l, a).map_err(|e| (i, e))?;
    }
    Ok(l)
}

/// SHA-256 over the sorted node-storage contents (stands in for the contents in state
/// keys: 32 bytes instead of up to ~80 kB per state).
pub fn store_digest(store: &Store) -> H256 {
    let snap = store.snapshot();
    let mut buf = Vec::with_capacity(snap.len() * 101 + 8);
    buf.extend_from_slice(&(snap.len() as u64).to_be_bytes());
    for (k, (h, p, lo, hi)) in snap.iter() {
        buf.extend_from_slice(k);
        buf.extend_from_slice(&h.to_be_bytes());
        buf.push(*p);
        buf.extend_from_slice(lo);
        buf.extend_from_slice(hi);
    }
    oracle::sha256(&[&buf])
}

/// Compact rendering of a reference map: (key index, value index) pairs.
pub fn ref_compact(refm: &RefMap) -> Vec<(u8, u8)> {
    let keys = all_keys();
    refm.iter()
        .map(|(k, v)| {
            let ki = keys.iter().position(|x| x == k).expect("key from alphabet") as u8;
            let vi = VALUES.iter().position(|x| *x == v.as_slice()).expect("value from alphabet") as u8;
            (ki, vi)
        })
        .collect()
}

// ------------------------------------------------------------------ proofs (neutral form)

/// A sparse proof in a library-neutral form: side nodes leaf-to-root; for exclusion
/// proofs the terminal found on the path: `None` = placeholder, `Some((key, H(value)))`.
#[derive(Debug, Clone, PartialEq, Eq, Hash)]
pub enum P {
    Incl(Vec<H256>),
    Excl(Vec<H256>, Option<(H256, H256)>),
}

impl P {
    pub fn from_lib(p: &Proof) -> P {
        match p {
            Proof::Inclusion(i) => P::Incl(i.proof_set.clone()),
            Proof::Exclusion(e) => P::Excl(
                e.proof_set.clone(),
                match &e.leaf {
                    ExclusionLeaf::Placeholder => None,
                    ExclusionLeaf::Leaf(d) => Some((d.leaf_key, d.leaf_value)),
                },
            ),
        }
    }

    pub fn side(&self) -> &Vec<H256> {
        match self {
            P::Incl(s) => s,
            P::Excl(s, _) => s,
        }
    }

    pub fn is_incl(&self) -> bool {
        matches!(self, P::Incl(_))
    }

    pub fn brief(&self) -> String {
        let nz = self.side().iter().filter(|s| **s != ZERO).count();
        match self {
            P::Incl(s) => format!("Inclusion(len={}, non-placeholder={nz})", s.len()),
            P::Excl(s, None) => format!("Exclusion(len={}, non-placeholder={nz}, leaf=Placeholder)", s.len()),
            P::Excl(s, Some((k, _))) => format!("Exclusion(len={}, non-placeholder={nz}, leaf={})", s.len(), kname(k)),
        }
    }
}

/// The library's verdict (panics are reported, never swallowed).
pub fn lib_verify_incl(root: &H256, key: &H256, value: &[u8], side: &[H256]) -> Result<bool, String> {
    let p = InclusionProof {
        proof_set: side.to_vec(),
    };
    let k = mk(key);
    guard::catch_any(|| p.verify(root, &k, value))
}

pub fn lib_verify_excl(root: &H256, key: &H256, leaf: &Option<(H256, H256)>, side: &[H256]) -> Result<bool, String> {
    let p = ExclusionProof {
        proof_set: side.to_vec(),
        leaf: match leaf {
            None => ExclusionLeaf::Placeholder,
            Some((k, v)) => ExclusionLeaf::Leaf(ExclusionLeafData {
                leaf_key: *k,
                leaf_value: *v,
            }),
        },
    };
    let k = mk(key);
    guard::catch_any(|| p.verify(root, &k))
}

// ------------------------------------------------------------------ independent reference

pub fn bit(key: &H256, i: usize) -> bool {
    (key[i / 8] >> (7 - (i % 8))) & 1 == 1
}

pub fn leaf_hash_vh(key: &H256, value_hash: &H256) -> H256 {
    oracle::sha256(&[&[0u8], key, value_hash])
}

pub fn node_hash(l: &H256, r: &H256) -> H256 {
    oracle::sha256(&[&[1u8], l, r])
}

/// Root of the compact subtree holding `items` (sorted by key, all sharing the first
/// `depth` bits), placed at depth `depth`.
fn sub_root(items: &[(H256, H256)], depth: usize) -> H256 {
    match items.len() {
        0 => ZERO,
        1 => leaf_hash_vh(&items[0].0, &items[0].1),
        _ => {
            let split = items.partition_point(|(k, _)| !bit(k, depth));
            node_hash(&sub_root(&items[..split], depth + 1), &sub_root(&items[split..], depth + 1))
        }
    }
}

fn items_of(refm: &RefMap) -> Vec<(H256, H256)> {
    refm.iter().map(|(k, v)| (*k, oracle::sha256(&[v]))).collect()
}

/// Reference root (own recursion; cross-checked against `vcore::oracle::smt_root`).
pub fn ref_root(refm: &RefMap) -> H256 {
    let r = oracle::smt_root(refm);
    debug_assert_eq!(r, sub_root(&items_of(refm), 0));
    r
}

/// Walk the compact tree of `refm` along `q`'s bits: the side nodes met (returned
/// leaf-to-root) and what the walk ends in (`None` = empty subtree, else the single
/// leaf of the subtree as (key, H(value))).
pub fn ref_path(refm: &RefMap, q: &H256) -> (Vec<H256>, Option<(H256, H256)>) {
    let all = items_of(refm);
    let mut items: &[(H256, H256)] = &all;
    let mut depth = 0usize;
    let mut side = Vec::new();
    let term = loop {
        match items.len() {
            0 => break None,
            1 => break Some(items[0]),
            _ => {
                let split = items.partition_point(|(k, _)| !bit(k, depth));
                let (l, r) = items.split_at(split);
                if bit(q, depth) {
                    side.push(sub_root(l, depth + 1));
                    items = r;
                } else {
                    side.push(sub_root(r, depth + 1));
                    items = l;
                }
                depth += 1;
            }
        }
    };
    side.reverse();
    (side, term)
}

/// The proof the compact-tree definition prescribes for `q` in `refm`.
pub fn ref_proof(refm: &RefMap, q: &H256) -> P {
    let (side, term) = ref_path(refm, q);
    match term {
        Some((k, _)) if k == *q => P::Incl(side),
        t => P::Excl(side, t),
    }
}

/// All node hashes (leaves and internal nodes) of the compact tree of `refm`.
pub fn ref_nodes(refm: &RefMap) -> BTreeSet<H256> {
    fn rec(items: &[(H256, H256)], depth: usize, out: &mut BTreeSet<H256>) -> H256 {
        match items.len() {
            0 => ZERO,
            1 => {
                let h = leaf_hash_vh(&items[0].0, &items[0].1);
                out.insert(h);
                h
            }
            _ => {
                let split = items.partition_point(|(k, _)| !bit(k, depth));
                let l = rec(&items[..split], depth + 1, out);
                let r = rec(&items[split..], depth + 1, out);
                let h = node_hash(&l, &r);
                out.insert(h);
                h
            }
        }
    }
    let mut out = BTreeSet::new();
    rec(&items_of(refm), 0, &mut out);
    out
}

/// Compact-tree recomputation: a node that has `side.len()` side nodes sits at depth
/// `side.len()`; going up from depth d+1 to depth d the sibling order is decided by bit
/// d of the key. `None` when the proof is longer than the key.
pub fn recompute(key: &H256, start: H256, side: &[H256]) -> Option<H256> {
    let n = side.len();
    if n > 256 {
        return None
    }
    let mut cur = start;
    let mut d = n;
    for s in side {
        d -= 1; // parent depth
        cur = if bit(key, d) { node_hash(s, &cur) } else { node_hash(&cur, s) };
    }
    Some(cur)
}

/// Reference verdict for an inclusion claim "key ↦ value".
pub fn my_verify_incl(root: &H256, key: &H256, value: &[u8], side: &[H256]) -> bool {
    recompute(key, oracle::smt_leaf(key, value), side) == Some(*root)
}

/// Reference verdict for an exclusion claim "key absent". A terminal leaf that carries
/// the queried key itself can never witness absence.
pub fn my_verify_excl(root: &H256, key: &H256, leaf: &Option<(H256, H256)>, side: &[H256]) -> bool {
    let start = match leaf {
        None => ZERO,
        Some((lk, lv)) => {
            if lk == key {
                return false
            }
            leaf_hash_vh(lk, lv)
        }
    };
    recompute(key, start, side) == Some(*root)
}

/// Machinery self-test of the reference (panics = machinery error, never a verdict).
pub fn self_test() {
    let keys = all_keys();
    let mut m = RefMap::new();
    assert_eq!(ref_root(&m), ZERO);
    assert_eq!(ref_proof(&m, &keys[0]), P::Excl(vec![], None));
    m.insert(keys[0], b"a".to_vec());
    assert_eq!(ref_root(&m), oracle::smt_leaf(&keys[0], b"a"));
    m.insert(keys[1], b"".to_vec());
    m.insert(keys[3], b"b".to_vec());
    m.insert(keys[7], b"b".to_vec());
    let root = ref_root(&m);
    assert_eq!(root, sub_root(&items_of(&m), 0));
    for q in keys.iter().chain(absent_neighbours().iter()) {
        match ref_proof(&m, q) {
            P::Incl(side) => {
                assert!(m.contains_key(q));
                assert!(my_verify_incl(&root, q, &m[q], &side));
                assert_eq!(oracle::smt_fold(q, oracle::smt_leaf(q, &m[q]), &side), root);
            }
            P::Excl(side, leaf) => {
                assert!(!m.contains_key(q));
                assert!(my_verify_excl(&root, q, &leaf, &side));
            }
        }
    }
    // 00…00 and 00…01 share 255 bits: 00…00 sits at depth 256
    assert_eq!(ref_path(&m, &keys[0]).0.len(), 256);
}
