//! C29 (e): a storage that delegates everything to `MemoryStorage` and FAILS the k-th
//! access (any trait method of any table, and every `InterpreterStorage` method) with
//! an I/O-like error. `fail_at == 0` never fails (counting run). Not an oracle.
#![allow(dead_code)]

use std::{
    borrow::Cow,
    cell::Cell,
    convert::Infallible,
};

use fuel_storage::{
    Mappable,
    StorageInspect,
    StorageMutate,
    StorageRead,
    StorageReadError,
    StorageSize,
    StorageWrite,
};
use fuel_tx::ConsensusParameters;
use fuel_types::{
    BlockHeight,
    Bytes32,
    ContractId,
    Word,
};
use fuel_vm::{
    error::{
        InterpreterError,
        RuntimeError,
    },
    storage::{
        predicate::PredicateStorageRequirements,
        BlobData,
        ContractsAssets,
        ContractsAssetsStorage,
        ContractsRawCode,
        ContractsState,
        InterpreterStorage,
        MemoryStorage,
        UploadedBytecodes,
    },
};

#[derive(Debug, Clone, PartialEq, Eq)]
pub struct Fault(pub u64);

impl From<Fault> for InterpreterError<Fault> {
    fn from(e: Fault) -> Self {
        InterpreterError::Storage(e)
    }
}

impl From<Fault> for RuntimeError<Fault> {
    fn from(e: Fault) -> Self {
        RuntimeError::Storage(e)
    }
}

#[derive(Debug, Clone)]
pub struct FaultyStorage {
    pub inner: MemoryStorage,
    pub n: Cell<u64>,
    pub fail_at: u64,
}

fn inf<T>(r: Result<T, Infallible>) -> T {
    match r {
        Ok(v) => v,
        Err(e) => match e {},
    }
}

impl FaultyStorage {
    pub fn new(inner: MemoryStorage, fail_at: u64) -> Self {
        FaultyStorage {
            inner,
            n: Cell::new(0),
            fail_at,
        }
    }

    pub fn accesses(&self) -> u64 {
        self.n.get()
    }

    fn tick(&self) -> Result<(), Fault> {
        let n = self.n.get() + 1;
        self.n.set(n);
        if n == self.fail_at {
            Err(Fault(n))
        } else {
            Ok(())
        }
    }
}

macro_rules! table {
    ($t:ty) => {
        impl StorageInspect<$t> for FaultyStorage {
            type Error = Fault;

            fn get(
                &self,
                key: &<$t as Mappable>::Key,
            ) -> Result<Option<Cow<'_, <$t as Mappable>::OwnedValue>>, Fault> {
                self.tick()?;
                Ok(inf(StorageInspect::<$t>::get(&self.inner, key)))
            }

            fn contains_key(&self, key: &<$t as Mappable>::Key) -> Result<bool, Fault> {
                self.tick()?;
                Ok(inf(StorageInspect::<$t>::contains_key(&self.inner, key)))
            }
        }

        impl StorageMutate<$t> for FaultyStorage {
            fn replace(
                &mut self,
                key: &<$t as Mappable>::Key,
                value: &<$t as Mappable>::Value,
            ) -> Result<Option<<$t as Mappable>::OwnedValue>, Fault> {
                self.tick()?;
                Ok(inf(StorageMutate::<$t>::replace(&mut self.inner, key, value)))
            }

            fn take(
                &mut self,
                key: &<$t as Mappable>::Key,
            ) -> Result<Option<<$t as Mappable>::OwnedValue>, Fault> {
                self.tick()?;
                Ok(inf(StorageMutate::<$t>::take(&mut self.inner, key)))
            }
        }
    };
}

macro_rules! bytes_table {
    ($t:ty) => {
        impl StorageSize<$t> for FaultyStorage {
            fn size_of_value(
                &self,
                key: &<$t as Mappable>::Key,
            ) -> Result<Option<usize>, Fault> {
                self.tick()?;
                Ok(inf(StorageSize::<$t>::size_of_value(&self.inner, key)))
            }
        }

        impl StorageRead<$t> for FaultyStorage {
            fn read_exact(
                &self,
                key: &<$t as Mappable>::Key,
                offset: usize,
                buf: &mut [u8],
            ) -> Result<Result<usize, StorageReadError>, Fault> {
                self.tick()?;
                Ok(inf(StorageRead::<$t>::read_exact(&self.inner, key, offset, buf)))
            }

            fn read_zerofill(
                &self,
                key: &<$t as Mappable>::Key,
                offset: usize,
                buf: &mut [u8],
            ) -> Result<Result<usize, StorageReadError>, Fault> {
                self.tick()?;
                Ok(inf(StorageRead::<$t>::read_zerofill(
                    &self.inner,
                    key,
                    offset,
                    buf,
                )))
            }

            fn read_alloc(
                &self,
                key: &<$t as Mappable>::Key,
            ) -> Result<Option<Vec<u8>>, Fault> {
                self.tick()?;
                Ok(inf(StorageRead::<$t>::read_alloc(&self.inner, key)))
            }
        }

        impl StorageWrite<$t> for FaultyStorage {
            fn write_bytes(
                &mut self,
                key: &<$t as Mappable>::Key,
                buf: &[u8],
            ) -> Result<(), Fault> {
                self.tick()?;
                Ok(inf(StorageWrite::<$t>::write_bytes(&mut self.inner, key, buf)))
            }

            fn replace_bytes(
                &mut self,
                key: &<$t as Mappable>::Key,
                buf: &[u8],
            ) -> Result<Option<Vec<u8>>, Fault> {
                self.tick()?;
                Ok(inf(StorageWrite::<$t>::replace_bytes(
                    &mut self.inner,
                    key,
                    buf,
                )))
            }

            fn take_bytes(
                &mut self,
                key: &<$t as Mappable>::Key,
            ) -> Result<Option<Vec<u8>>, Fault> {
                self.tick()?;
                Ok(inf(StorageWrite::<$t>::take_bytes(&mut self.inner, key)))
            }
        }
    };
}

table!(ContractsRawCode);
table!(ContractsState);
table!(ContractsAssets);
table!(UploadedBytecodes);
table!(BlobData);
bytes_table!(ContractsRawCode);
bytes_table!(ContractsState);
bytes_table!(BlobData);

impl ContractsAssetsStorage for FaultyStorage {}

impl InterpreterStorage for FaultyStorage {
    type DataError = Fault;

    fn block_height(&self) -> Result<BlockHeight, Fault> {
        self.tick()?;
        Ok(inf(self.inner.block_height()))
    }

    fn consensus_parameters_version(&self) -> Result<u32, Fault> {
        self.tick()?;
        Ok(inf(self.inner.consensus_parameters_version()))
    }

    fn state_transition_version(&self) -> Result<u32, Fault> {
        self.tick()?;
        Ok(inf(self.inner.state_transition_version()))
    }

    fn timestamp(&self, height: BlockHeight) -> Result<Word, Fault> {
        self.tick()?;
        Ok(inf(self.inner.timestamp(height)))
    }

    fn block_hash(&self, block_height: BlockHeight) -> Result<Bytes32, Fault> {
        self.tick()?;
        Ok(inf(self.inner.block_hash(block_height)))
    }

    fn coinbase(&self) -> Result<ContractId, Fault> {
        self.tick()?;
        Ok(inf(self.inner.coinbase()))
    }

    fn set_consensus_parameters(
        &mut self,
        version: u32,
        consensus_parameters: &ConsensusParameters,
    ) -> Result<Option<ConsensusParameters>, Fault> {
        self.tick()?;
        Ok(inf(self
            .inner
            .set_consensus_parameters(version, consensus_parameters)))
    }

    fn set_state_transition_bytecode(
        &mut self,
        version: u32,
        hash: &Bytes32,
    ) -> Result<Option<Bytes32>, Fault> {
        self.tick()?;
        Ok(inf(self.inner.set_state_transition_bytecode(version, hash)))
    }

    fn contract_state_remove_range(
        &mut self,
        contract: &ContractId,
        start_key: &Bytes32,
        range: usize,
    ) -> Result<(), Fault> {
        self.tick()?;
        Ok(inf(self
            .inner
            .contract_state_remove_range(contract, start_key, range)))
    }
}

impl PredicateStorageRequirements for FaultyStorage {
    fn storage_error_to_string(error: Fault) -> String {
        format!("{error:?}")
    }
}
