//! C32 — Breakpoints and single-stepping do not change execution results.
//!
//! Statement (properties.jsonl): running a script with any set of breakpoints or with
//! single-stepping enabled, and resuming after every debug event until completion,
//! produces the same final program state, receipts, output transaction and storage as
//! running it without a debugger; each debug event is reported at most once per reached
//! location before the instruction there executes.
//!
//! Space (bounded exhaustive): EVERY program of <= k letters (k = 3 quick, 4 thorough)
//! over the 20-letter alphabet LETTERS (one instruction per letter; loops: a self-jump
//! `jnzi` that spins until out of gas, `jnzb` to the previous instruction guarded by a
//! counter, `jmpb` two instructions back; calls of contract A,
//! of contract B (calls A; never armed) and of A with 1 gas; `jal` into a fixed
//! subroutine; tr, log, logd, aloc, ret, retd, rvrt, a memory-ownership panic, an
//! arithmetic panic (`subi` below zero)) embedded in the fixed script
//!     progkit prelude (9) | ji 12 | SUB: log | jal $zero 0x13 (return) | movi 0x10 2 |
//!     movi 0x11 5 | <body> | ret $one | rvrt $one
//! in TWO worlds:
//!  * unit: `GasCosts::unit()` (every instruction 1 gas), gas limit 48, so every loop ends by
//!    OutOfGas after < 49 instructions; A = [log, mint, ret]; B = [log, call A, ret];
//!  * default: the default (non-uniform) gas schedule with 100,000 gas, so that gas-relevant
//!    per-transaction state that `resume` might disturb (hot/cold storage slots) shows in
//!    $ggas/$cgas, `gas_used` and the receipts root; A = [sww k, log, srw k (hot), ret];
//!    B = [swwq k, call A, cfei, subi, srwq k (hot), scwq k, ret]; programs whose uninterrupted
//!    run exceeds 96 steps (loops only OutOfGas would end) are left to the unit world;
//! x EVERY subset of the script breakpoint locations {last set-up instruction, each body
//! instruction, the final `ret`, the subroutine entry} (2^(n+3) <= 64 quick / 128 thorough)
//! x EVERY subset of the instructions of contract A (8 unit / 16 default; default world:
//! only the empty A subset for programs without a call letter, which never execute A), plus
//! single-stepping (without and with all breakpoints armed). Each case runs TWICE on the same
//! `Interpreter` (the second transaction starts with whatever the debugger kept from the first).
//!
//! Reference (per program, no debugger): `Interpreter::transact` twice on one VM
//! (final state, receipts, transaction as left by the VM, storage `Debug` rendering),
//! and a step-wise trace of both transactions (`init_script` + `vmkit::step` loop)
//! recording, BEFORE each instruction, all 64 registers, the number of receipts and the
//! location (contract id read from the call frame at $fp, or zero; $pc - $is).
//!
//! Oracle
//!  (1) driver: `transact`, then `resume()` while the state is
//!      `RunProgram(Breakpoint)`; final (ProgramState | error, receipts, transaction
//!      incl. receipts root and outputs, storage rendering) == the uninterrupted run;
//!  (2) every event names an armed location (any location when single-stepping) that
//!      equals the VM's own ($pc - $is, frame contract), and the events map
//!      order-preservingly and injectively onto trace steps with IDENTICAL registers and
//!      receipt count ("before the instruction there executes", "at most once per
//!      visit"): an event whose state equals no not-yet-used step of the trace is a
//!      violation (classified: repeated for the same visit / state differs from the
//!      state before the instruction / location never reached);
//!  (3) visits of armed locations WITHOUT an event are a don't-care (statement: "at
//!      most once"); they are counted and reported (`missed_visits`; 0 on the unchanged
//!      tree). `C32_STRICT=1` (opt-in, not the default verdict) turns them into violations.
//!
//! `C32_SHOW=4,14,9 c32` prints the uninterrupted trace of one program (letter indices).

#[path = "../progkit.rs"]
mod progkit;

use std::collections::{
    BTreeMap,
    HashSet,
};

use fuel_asm::{
    op,
    Instruction,
    RegId,
};
use fuel_tx::{
    Receipt,
    Script,
};
use fuel_types::ContractId;
use fuel_vm::{
    checked_transaction::Ready,
    interpreter::{
        Interpreter,
        MemoryInstance,
    },
    state::{
        Breakpoint,
        DebugEval,
        ProgramState,
    },
};
use progkit::{
    r,
    World,
    WorldCfg,
    A,
};
use vcore::{
    guard::catch_any,
    json,
    run::hash64,
    run_check,
    space,
    vmkit::{
        self,
        Vm,
    },
    Ctx,
    Level,
    Value,
};

// ------------------------------------------------------------------ the fixed script

/// The two worlds every program is run in.
#[derive(Clone, Copy, PartialEq, Debug)]
enum Sched {
    /// `GasCosts::unit()`, gas limit 48: the longest loop-free program (4 calls of B, each calling
    /// A) needs 47 gas; everything that loops is cut by OutOfGas after < 49 instructions.
    Unit,
    /// the default (non-uniform) schedule with an ample gas limit: gas-relevant per-transaction
    /// state (hot/cold storage slots, ...) is observable in $ggas/$cgas, `gas_used` and the
    /// receipts root. Programs whose uninterrupted run takes more than MAX_TRACE_DEFAULT steps
    /// (the loops that only OutOfGas would end) are left to the unit world.
    Default,
}

impl Sched {
    fn name(self) -> &'static str {
        match self {
            Sched::Unit => "unit",
            Sched::Default => "default",
        }
    }
}

const GAS_LIMIT_UNIT: u64 = 48;
const MAX_TRACE_UNIT: usize = 64;
const GAS_LIMIT_DEFAULT: u64 = 100_000;
const MAX_TRACE_DEFAULT: usize = 96;

/// instruction indices (from $is) of the fixed parts
const PRELUDE: usize = 9;
const IDX_SUB: usize = 10; // subroutine entry (a breakpoint location)
const IDX_SETUP: usize = 12;
const IDX_S: usize = 13; // last set-up instruction (a breakpoint location)
const IDX_BODY: usize = 14;

const R_CNT: u8 = 0x10; // loop counter, 2
const R_AMT: u8 = 0x11; // 5 (coins for tr, bytes for retd/logd/aloc, gas for the starved call)
const R_ACC: u8 = 0x12;
const R_LINK: u8 = 0x13;

const LETTERS: [&str; 20] = [
    "noop", "inc", "log", "ret", "callA", "jal", "dec", "back1c", "selfloop", "back2", "fwd", "tr", "rvrt", "panic", "callB", "callA1gas",
    "retd", "clr", "logd", "aloc",
];

fn letter_ins(l: usize, idx: usize) -> Instruction {
    match LETTERS[l] {
        "noop" => op::noop(),
        "inc" => op::addi(R_ACC, R_ACC, 1),
        "log" => op::log(R_CNT, R_ACC, RegId::ZERO, RegId::ZERO),
        "ret" => op::ret(R_ACC),
        "callA" => op::call(r::CALL_A, RegId::ZERO, r::ASSET_BASE, RegId::CGAS),
        "jal" => op::jal(R_LINK, RegId::IS, IDX_SUB as u16),
        // panics with ArithmeticOverflow once the counter is 0
        "dec" => op::subi(R_CNT, R_CNT, 1),
        // to the previous instruction while the counter is non-zero
        "back1c" => op::jnzb(R_CNT, RegId::ZERO, 0),
        // to ITSELF while the counter is non-zero (nothing changes it: spins until out of gas)
        "selfloop" => op::jnzi(R_CNT, idx as u32),
        // two instructions back, unconditionally
        "back2" => op::jmpb(RegId::ZERO, 1),
        // skips the next instruction
        "fwd" => op::jmpf(RegId::ZERO, 1),
        "tr" => op::tr(r::CALL_A, R_AMT, r::ASSET_X),
        "rvrt" => op::rvrt(R_ACC),
        // store to address 0: MemoryOwnership
        "panic" => op::sw(RegId::ZERO, RegId::ONE, 0),
        "callB" => op::call(r::CALL_B, RegId::ZERO, r::ASSET_BASE, RegId::CGAS),
        "callA1gas" => op::call(r::CALL_A, RegId::ZERO, r::ASSET_BASE, RegId::ONE),
        "retd" => op::retd(r::PATTERN, R_AMT),
        "clr" => op::move_(R_CNT, RegId::ZERO),
        "logd" => op::logd(RegId::ZERO, RegId::ZERO, r::PATTERN, R_AMT),
        "aloc" => op::aloc(R_AMT),
        other => unreachable!("{other}"),
    }
}

fn code_a(s: Sched) -> Vec<Instruction> {
    if s == Sched::Default {
        // one storage slot (key = A's id at $fp) written, then read again with an instruction in
        // between: the read is a HOT one in an uninterrupted run
        return vec![
            op::sww(RegId::FP, 0x15, RegId::ONE),
            op::log(RegId::ONE, RegId::ZERO, RegId::ZERO, RegId::ZERO),
            op::srw(0x16, 0x15, RegId::FP, 0),
            op::ret(0x16),
        ]
    }
    vec![
        op::log(RegId::ONE, RegId::ZERO, RegId::ZERO, RegId::ZERO),
        // storage effect: mints 1 coin of A's sub-asset named by the first 32 bytes of its call frame
        // (= A's id); the balance entry exists beforehand, so this costs 1 gas like everything else
        op::mint(RegId::ONE, RegId::FP),
        op::ret(RegId::ONE),
    ]
}

fn code_b(s: Sched) -> Vec<Instruction> {
    if s == Sched::Default {
        // quad-word variant around a nested call of A: write slot, call, read it back, clear it
        return vec![
            op::swwq(RegId::FP, 0x15, RegId::FP, RegId::ONE),
            op::call(r::CALL_A, RegId::ZERO, r::ASSET_BASE, RegId::CGAS),
            op::cfei(32),
            op::subi(0x16, RegId::SP, 32),
            op::srwq(0x16, 0x15, RegId::FP, RegId::ONE),
            op::scwq(RegId::FP, 0x15, RegId::ONE),
            op::ret(RegId::ONE),
        ]
    }
    vec![
        op::log(RegId::ONE, RegId::ONE, RegId::ZERO, RegId::ZERO),
        // nested call of A (the callee keeps the script's pointer registers): A's breakpoints
        // must also fire at depth 2, under A's name
        op::call(r::CALL_A, RegId::ZERO, r::ASSET_BASE, RegId::CGAS),
        op::ret(RegId::ONE),
    ]
}

struct Env {
    world: World,
    sched: Sched,
    gas_limit: u64,
    max_trace: usize,
    a_len: usize,
}

fn env(sched: Sched) -> Env {
    let mut params = fuel_tx::ConsensusParameters::standard();
    if sched == Sched::Unit {
        // every instruction 1 gas (+ 1 per unit of the size-dependent ones): keeps the out-of-gas loops short
        params.set_gas_costs(fuel_tx::GasCosts::unit());
    }
    use fuel_tx::ContractIdExt;
    let mut cfg = WorldCfg {
        code_a: code_a(sched),
        code_b: code_b(sched),
        params,
        ..WorldCfg::default()
    };
    let sub_id = fuel_types::SubAssetId::new(*A);
    cfg.balances.push((A, A.asset_id(&sub_id), 7));
    Env {
        world: World::new(cfg),
        sched,
        gas_limit: if sched == Sched::Unit { GAS_LIMIT_UNIT } else { GAS_LIMIT_DEFAULT },
        max_trace: if sched == Sched::Unit { MAX_TRACE_UNIT } else { MAX_TRACE_DEFAULT },
        a_len: code_a(sched).len(),
    }
}

struct Prog {
    seq: Vec<u64>,
    names: Vec<String>,
    ready: Ready<Script>,
    /// script breakpoint locations (instruction indices), bit i of the script mask = locs[i]
    locs: Vec<usize>,
    /// number of instructions (= breakpoint locations) of contract A in this world
    a_len: usize,
    /// contains callA / callB / callA1gas
    has_call: bool,
    sched: Sched,
}

fn prog(env: &Env, seq: &[u64]) -> Prog {
    let n = seq.len();
    let mut fixed = vec![
        op::ji(IDX_SETUP as u32),
        op::log(R_ACC, R_CNT, RegId::ONE, RegId::ZERO),
        op::jal(RegId::ZERO, R_LINK, 0),
        op::movi(R_CNT, 2),
        op::movi(R_AMT, 5),
    ];
    assert_eq!(PRELUDE + fixed.len(), IDX_BODY);
    assert_eq!(env.world.prelude.len(), PRELUDE);
    for (p, l) in seq.iter().enumerate() {
        fixed.push(letter_ins(*l as usize, IDX_BODY + p));
    }
    fixed.push(op::ret(RegId::ONE));
    fixed.push(op::rvrt(RegId::ONE));
    let script = env.world.script_bytes(&fixed);
    let mut locs = vec![IDX_S];
    locs.extend(IDX_BODY..IDX_BODY + n);
    locs.push(IDX_BODY + n);
    locs.push(IDX_SUB);
    Prog {
        seq: seq.to_vec(),
        names: seq.iter().map(|l| LETTERS[*l as usize].to_string()).collect(),
        ready: env.world.ready(script, env.gas_limit),
        locs,
        a_len: env.a_len,
        has_call: seq.iter().any(|l| LETTERS[*l as usize].starts_with("call")),
        sched: env.sched,
    }
}

fn fresh_vm(env: &Env) -> Vm {
    Interpreter::with_storage(MemoryInstance::new(), env.world.storage.clone(), env.world.interpreter_params())
}

// ------------------------------------------------------------------ observations

type Loc = (ContractId, u64);

#[derive(Clone)]
struct TStep {
    regs: [u64; vmkit::REGS],
    nrec: usize,
    loc: Loc,
}

#[derive(Clone, PartialEq)]
struct Final {
    state: Result<ProgramState, String>,
    receipts: Vec<Receipt>,
    tx: Script,
    storage: String,
}

fn final_of(vm: &Vm, state: Result<ProgramState, String>) -> Final {
    Final {
        state,
        receipts: vm.receipts().to_vec(),
        tx: vm.transaction().clone(),
        storage: format!("{:?}", vm.as_ref()),
    }
}

fn outcome_label(f: &Final) -> String {
    match &f.state {
        Err(e) => format!("error:{}", e.chars().take(40).collect::<String>()),
        Ok(ProgramState::Return(_)) => "return".into(),
        Ok(ProgramState::ReturnData(_)) => "returndata".into(),
        Ok(ProgramState::Revert(_)) => match f.receipts.iter().rev().find_map(|r| match r {
            Receipt::Panic { reason, .. } => Some(*reason.reason()),
            _ => None,
        }) {
            Some(reason) => format!("panic:{reason:?}"),
            None => "revert".into(),
        },
        Ok(other) => format!("{other:?}"),
    }
}

struct Refs {
    /// uninterrupted run of the first and of the second transaction on one VM
    fin: [Final; 2],
    /// step-wise trace of the first / second transaction
    trace: [Vec<TStep>; 2],
}

fn transact_plain(vm: &mut Vm, ready: &Ready<Script>) -> Result<ProgramState, String> {
    match catch_any(|| vm.transact(ready.clone()).map(|t| *t.state())) {
        Ok(Ok(s)) => Ok(s),
        Ok(Err(e)) => Err(format!("{e:?}")),
        Err(m) => Err(format!("HOST-PANIC {m}")),
    }
}

fn loc_of(vm: &Vm) -> Loc {
    let fp = vmkit::reg(vm, RegId::FP);
    let id = if fp == 0 {
        ContractId::zeroed()
    } else {
        let b: [u8; 32] = vm.memory().read_bytes(fp).expect("call frame readable");
        ContractId::new(b)
    };
    (id, vmkit::reg(vm, RegId::PC).wrapping_sub(vmkit::reg(vm, RegId::IS)))
}

/// `init_script` + step loop on `vm` (debugger never touched): state before each instruction.
/// `None` when the run takes more than `max` steps.
fn trace_of(vm: &mut Vm, ready: &Ready<Script>, max: usize) -> Option<Vec<TStep>> {
    vm.init_script(ready.clone()).expect("init_script");
    let mut t = Vec::new();
    loop {
        t.push(TStep {
            regs: vmkit::regs(vm),
            nrec: vm.receipts().len(),
            loc: loc_of(vm),
        });
        let (s, in_call) = vmkit::step_ctx(vm);
        assert!(s != vmkit::Step::Debug, "reference trace must not see debug events");
        if vmkit::is_final(&s, in_call) {
            return Some(t)
        }
        if t.len() >= max {
            return None
        }
    }
}

/// `None`: the uninterrupted run is longer than the world's step cap (default world only).
fn refs(env: &Env, p: &Prog) -> Option<Refs> {
    // traces: first transaction on a fresh VM; second after an uninterrupted first one
    let mut tvm = fresh_vm(env);
    let t1 = match trace_of(&mut tvm, &p.ready, env.max_trace) {
        Some(t) => t,
        None => {
            assert!(env.sched == Sched::Default, "unit world: the gas limit must bound every run ({:?})", p.names);
            return None
        }
    };
    // finals: two transactions on one VM
    let mut vm = fresh_vm(env);
    let s1 = transact_plain(&mut vm, &p.ready);
    let f1 = final_of(&vm, s1);
    let s2 = transact_plain(&mut vm, &p.ready);
    let f2 = final_of(&vm, s2);
    let vm = tvm;
    // harness sanity: the stepped receipts are a prefix of the uninterrupted ones
    assert!(
        f1.receipts.len() >= vm.receipts().len() && f1.receipts[..vm.receipts().len()] == *vm.receipts(),
        "step-wise reference disagrees with the uninterrupted run for {:?}",
        p.names
    );
    let mut vm = fresh_vm(env);
    let _ = transact_plain(&mut vm, &p.ready);
    let t2 = match trace_of(&mut vm, &p.ready, env.max_trace) {
        Some(t) => t,
        None => {
            assert!(env.sched == Sched::Default, "unit world: the gas limit must bound every run ({:?})", p.names);
            return None
        }
    };
    assert!(
        f2.receipts.len() >= vm.receipts().len() && f2.receipts[..vm.receipts().len()] == *vm.receipts(),
        "step-wise reference (2nd tx) disagrees with the uninterrupted run for {:?}",
        p.names
    );
    Some(Refs {
        fin: [f1, f2],
        trace: [t1, t2],
    })
}

// ------------------------------------------------------------------ the debugged run

#[derive(Clone, Debug, PartialEq)]
enum Mode {
    /// script mask (bits over `Prog::locs`), contract mask (bits over A's instructions)
    Breakpoints(u32, u32),
    /// single stepping; `true` = additionally all breakpoints armed
    Single(bool),
}

impl Mode {
    fn name(&self) -> &'static str {
        match self {
            Mode::Breakpoints(..) => "breakpoints",
            Mode::Single(_) => "single-step",
        }
    }
}

struct Event {
    /// location named by the event
    loc: Loc,
    /// where the VM stands (frame contract from memory at $fp, $pc - $is)
    vm_loc: Loc,
    regs: [u64; vmkit::REGS],
    nrec: usize,
}

fn armed(p: &Prog, mode: &Mode) -> Vec<Loc> {
    let (sm, cm) = match mode {
        Mode::Breakpoints(s, c) => (*s, *c),
        Mode::Single(true) => (u32::MAX, u32::MAX),
        Mode::Single(false) => (0, 0),
    };
    let mut v = vec![];
    for (i, l) in p.locs.iter().enumerate() {
        if sm >> i & 1 == 1 {
            v.push((ContractId::zeroed(), 4 * *l as u64));
        }
    }
    for i in 0..p.a_len {
        if cm >> i & 1 == 1 {
            v.push((A, 4 * i as u64));
        }
    }
    v
}

fn arm(vm: &mut Vm, p: &Prog, mode: &Mode) {
    for (c, pc) in armed(p, mode) {
        // the constructor takes the location as an instruction count relative to $is
        if c == ContractId::zeroed() {
            vm.set_breakpoint(Breakpoint::script(pc / 4));
        } else {
            vm.set_breakpoint(Breakpoint::new(c, pc / 4));
        }
    }
    if let Mode::Single(_) = mode {
        vm.set_single_stepping(true);
    }
}

/// `transact`, then `resume` after every debug event until something else comes back.
fn drive(vm: &mut Vm, ready: &Ready<Script>, max_events: usize) -> (Vec<Event>, Result<ProgramState, String>, Option<String>) {
    let mut events = Vec::new();
    let mut st = match transact_plain(vm, ready) {
        Ok(s) => s,
        Err(e) => return (events, Err(e), None),
    };
    loop {
        match st {
            ProgramState::RunProgram(DebugEval::Breakpoint(b)) => {
                events.push(Event {
                    loc: (*b.contract(), b.pc()),
                    vm_loc: loc_of(vm),
                    regs: vmkit::regs(vm),
                    nrec: vm.receipts().len(),
                });
                if events.len() > max_events {
                    return (events, Err("aborted by the harness".into()), Some(format!("more than {max_events} debug events")))
                }
                st = match catch_any(|| vm.resume()) {
                    Ok(Ok(s)) => s,
                    Ok(Err(e)) => return (events, Err(format!("{e:?}")), None),
                    Err(m) => return (events, Err(format!("HOST-PANIC {m}")), None),
                };
            }
            ProgramState::RunProgram(DebugEval::Continue) | ProgramState::VerifyPredicate(_) => {
                return (events, Ok(st), Some(format!("suspended state without a breakpoint: {st:?}")))
            }
            fin => return (events, Ok(fin), None),
        }
    }
}

const REG_NAMES: [&str; 16] = [
    "zero", "one", "of", "pc", "ssp", "sp", "fp", "hp", "err", "ggas", "cgas", "bal", "is", "ret", "retl", "flag",
];

fn reg_name(i: usize) -> String {
    if i < 16 {
        format!("${}", REG_NAMES[i])
    } else {
        format!("r{i:#x}")
    }
}

fn loc_str(l: &Loc) -> String {
    let c = if l.0 == ContractId::zeroed() {
        "script".to_string()
    } else if l.0 == A {
        "A".to_string()
    } else if l.0 == progkit::B {
        "B".to_string()
    } else {
        format!("{}", l.0)
    };
    format!("{c}+{}", l.1 / 4)
}

#[derive(Default)]
struct EvInfo {
    events: u64,
    events_in_contract: u64,
    missed: u64,
}

/// Oracle (2)/(3) for one transaction. Err = (rule, detail).
fn judge_events(trace: &[TStep], events: &[Event], armed: &[Loc], single: bool) -> Result<EvInfo, (&'static str, String)> {
    let mut info = EvInfo::default();
    let is_armed = |l: &Loc| single || armed.contains(l);
    let mut p = 0usize;
    for (i, e) in events.iter().enumerate() {
        info.events += 1;
        if e.loc.0 != ContractId::zeroed() {
            info.events_in_contract += 1;
        }
        if !is_armed(&e.loc) {
            return Err(("event.location-not-armed", format!("event #{i} names {} which is not an armed location", loc_str(&e.loc))))
        }
        if e.vm_loc != e.loc {
            return Err((
                "event.location-is-not-vm-position",
                format!("event #{i} names {} but the VM stands at {} (frame contract, $pc-$is)", loc_str(&e.loc), loc_str(&e.vm_loc)),
            ))
        }
        let same = |t: &TStep| t.loc == e.loc && t.regs == e.regs && t.nrec == e.nrec;
        match (p..trace.len()).find(|j| same(&trace[*j])) {
            Some(j) => {
                info.missed += trace[p..j].iter().filter(|t| is_armed(&t.loc)).count() as u64;
                p = j + 1;
            }
            None => {
                if let Some(j) = (0..p).find(|j| same(&trace[*j])) {
                    return Err((
                        "event.repeated-for-one-visit",
                        format!("event #{i} at {} has the state of step {j} of the uninterrupted run, for which an event (or a later one) was already reported", loc_str(&e.loc)),
                    ))
                }
                match (p..trace.len()).find(|j| trace[*j].loc == e.loc) {
                    Some(j) => {
                        let t = &trace[j];
                        let mut diffs: Vec<String> = (0..vmkit::REGS)
                            .filter(|x| t.regs[*x] != e.regs[*x])
                            .map(|x| format!("{}: event {} / before the instruction {}", reg_name(x), e.regs[x], t.regs[x]))
                            .collect();
                        if t.nrec != e.nrec {
                            diffs.push(format!("receipts: event {} / before the instruction {}", e.nrec, t.nrec));
                        }
                        return Err((
                            "event.state-is-not-the-state-before-the-instruction",
                            format!("event #{i} at {}: next visit of that location in the uninterrupted run is step {j}; differences: {}", loc_str(&e.loc), diffs.join("; ")),
                        ))
                    }
                    None => {
                        return Err((
                            "event.location-not-reached",
                            format!("event #{i} at {}: the uninterrupted run does not reach that location (again) after step {p}", loc_str(&e.loc)),
                        ))
                    }
                }
            }
        }
    }
    info.missed += trace[p..].iter().filter(|t| is_armed(&t.loc)).count() as u64;
    Ok(info)
}

/// `fmt::Write` sink that compares the rendering with an expected string on the fly.
struct SameAs<'a> {
    rest: &'a [u8],
    same: bool,
}

impl std::fmt::Write for SameAs<'_> {
    fn write_str(&mut self, s: &str) -> std::fmt::Result {
        let b = s.as_bytes();
        if self.same && self.rest.len() >= b.len() && &self.rest[..b.len()] == b {
            self.rest = &self.rest[b.len()..];
        } else {
            self.same = false;
        }
        Ok(())
    }
}

/// Oracle (1). Fast path without copies; the slow path only formulates the difference.
fn judge_final_vm(reference: &Final, vm: &Vm, state: Result<ProgramState, String>) -> Result<(), (&'static str, String)> {
    use std::fmt::Write;
    let mut sink = SameAs {
        rest: reference.storage.as_bytes(),
        same: true,
    };
    let _ = write!(sink, "{:?}", vm.as_ref());
    if reference.state == state
        && reference.receipts.as_slice() == vm.receipts()
        && &reference.tx == vm.transaction()
        && sink.same
        && sink.rest.is_empty()
    {
        return Ok(())
    }
    let got = final_of(vm, state);
    match judge_final(reference, &got) {
        Err(e) => Err(e),
        Ok(()) => unreachable!("fast and slow comparison of the final results disagree"),
    }
}

fn judge_final(reference: &Final, got: &Final) -> Result<(), (&'static str, String)> {
    if reference.state != got.state {
        return Err(("final.state", format!("final state {:?}, without debugger {:?}", got.state, reference.state)))
    }
    if reference.receipts != got.receipts {
        let i = (0..reference.receipts.len().max(got.receipts.len()))
            .find(|i| reference.receipts.get(*i) != got.receipts.get(*i))
            .unwrap();
        return Err((
            "final.receipts",
            format!(
                "{} receipts, without debugger {}; first difference at #{i}: {:?} / without debugger {:?}",
                got.receipts.len(),
                reference.receipts.len(),
                got.receipts.get(i),
                reference.receipts.get(i)
            ),
        ))
    }
    if reference.tx != got.tx {
        use fuel_tx::field::{
            Outputs,
            ReceiptsRoot,
        };
        return Err((
            "final.tx",
            format!(
                "output transaction differs: receipts root {} / {}, outputs {:?} / {:?}",
                got.tx.receipts_root(),
                reference.tx.receipts_root(),
                got.tx.outputs(),
                reference.tx.outputs()
            ),
        ))
    }
    if reference.storage != got.storage {
        let a = reference.storage.as_bytes();
        let b = got.storage.as_bytes();
        let i = (0..a.len().min(b.len())).find(|i| a[*i] != b[*i]).unwrap_or(a.len().min(b.len()));
        let lo = i.saturating_sub(60);
        return Err((
            "final.storage",
            format!(
                "storage rendering differs at byte {i}: ..{} / without debugger ..{}",
                String::from_utf8_lossy(&b[lo..(i + 60).min(b.len())]),
                String::from_utf8_lossy(&a[lo..(i + 60).min(a.len())])
            ),
        ))
    }
    Ok(())
}

/// Opt-in (`C32_STRICT=1`), NOT part of the default verdict: also demand an event for every
/// visit of an armed location. The statement only bounds the events from above.
fn strict() -> bool {
    static S: std::sync::OnceLock<bool> = std::sync::OnceLock::new();
    *S.get_or_init(|| std::env::var("C32_STRICT").map(|v| v == "1").unwrap_or(false))
}

struct CaseReport {
    /// (key, what) of the first broken rule
    violation: Option<(String, String)>,
    info: [EvInfo; 2],
    /// event locations of the first transaction (for fingerprints / samples)
    event_locs: Vec<Loc>,
}

/// One (program, mode) case: both transactions through the same oracle.
fn check_case(env: &Env, p: &Prog, refs: &Refs, mode: &Mode) -> CaseReport {
    let mut vm = fresh_vm(env);
    arm(&mut vm, p, mode);
    let armed = armed(p, mode);
    let single = matches!(mode, Mode::Single(_));
    let mut rep = CaseReport {
        violation: None,
        info: [EvInfo::default(), EvInfo::default()],
        event_locs: vec![],
    };
    for txi in 0..2 {
        let scope = if txi == 0 { "" } else { "second-tx:" };
        let (events, state, anomaly) = drive(&mut vm, &p.ready, refs.trace[txi].len() + 2);
        if txi == 0 {
            rep.event_locs = events.iter().map(|e| e.loc).collect();
        }
        let verdict = match anomaly {
            Some(a) => Err(("driver.anomaly", a)),
            None => judge_events(&refs.trace[txi], &events, &armed, single).and_then(|info| {
                let missed = info.missed;
                rep.info[txi] = info;
                judge_final_vm(&refs.fin[txi], &vm, state)?;
                if strict() && missed > 0 {
                    return Err(("strict.visit-without-event", format!("{missed} visit(s) of armed locations without a debug event (NOT part of the statement; C32_STRICT=1)")))
                }
                Ok(())
            }),
        };
        if let Err((rule, detail)) = verdict {
            rep.violation = Some((
                format!("C32:{}:{scope}{rule}", mode.name()),
                format!(
                    "{} gas schedule, program {:?}, {}{}: {detail}",
                    p.sched.name(),
                    p.names,
                    describe_mode(p, mode),
                    if txi == 1 { " (second transaction on the same VM)" } else { "" }
                ),
            ));
            return rep
        }
    }
    rep
}

fn describe_mode(p: &Prog, mode: &Mode) -> String {
    match mode {
        Mode::Single(all) => format!("single-stepping{}", if *all { " + all breakpoints armed" } else { "" }),
        Mode::Breakpoints(..) => format!("breakpoints {{{}}}", armed(p, mode).iter().map(loc_str).collect::<Vec<_>>().join(", ")),
    }
}

fn case_json(p: &Prog, mode: &Mode) -> Value {
    let (kind, s, c) = match mode {
        Mode::Breakpoints(s, c) => ("breakpoints", *s, *c),
        Mode::Single(true) => ("single-step+all", 0, 0),
        Mode::Single(false) => ("single-step", 0, 0),
    };
    json!({
        "world": p.sched.name(),
        "letters": p.seq,
        "program": p.names,
        "mode": kind,
        "script_mask": s,
        "contract_mask": c,
        "armed": armed(p, mode).iter().map(loc_str).collect::<Vec<_>>(),
        "note": "script location = instruction index from $is: 13 = last set-up instruction, 14.. = body, then the final ret; 10 = subroutine entry",
    })
}

/// All modes of a program, simplest first (fewest breakpoints), then single-stepping.
/// Default world: a program without a call letter never executes A, so only the empty contract
/// subset is run there (the armed-but-unreached contract subsets are covered by the unit world).
fn modes(p: &Prog) -> Vec<Mode> {
    let ns = 1u32 << p.locs.len();
    let nc = if p.sched == Sched::Default && !p.has_call { 1 } else { 1u32 << p.a_len };
    let mut v: Vec<(u32, Mode)> = vec![];
    for s in 0..ns {
        for c in 0..nc {
            v.push((s.count_ones() + c.count_ones(), Mode::Breakpoints(s, c)));
        }
    }
    v.sort_by_key(|(pop, _)| *pop);
    let mut v: Vec<Mode> = v.into_iter().map(|(_, m)| m).collect();
    v.push(Mode::Single(false));
    v.push(Mode::Single(true));
    v
}

// ------------------------------------------------------------------ exploration

#[derive(Default)]
struct Acc {
    programs: u64,
    /// default world: uninterrupted run longer than the step cap (left to the unit world)
    too_long: u64,
    skipped: u64,
    cases: u64,
    cases_with_events: u64,
    events: [u64; 2],
    events_in_contract: [u64; 2],
    missed: [u64; 2],
    trace_steps: u64,
    max_trace: usize,
    max_events: usize,
    programs_with_repeated_visit: u64,
    outcomes: BTreeMap<String, u64>,
    fps: HashSet<u64>,
    viols: BTreeMap<String, (String, Value, u64)>,
    /// outcome class -> (score, sample)
    samples: BTreeMap<String, (u64, Value)>,
}

fn run_program(env: &Env, seq: &[u64], acc: &mut Acc) {
    let p = prog(env, seq);
    let Some(refs) = refs(env, &p) else {
        acc.too_long += 1;
        return
    };
    acc.programs += 1;
    acc.trace_steps += (refs.trace[0].len() + refs.trace[1].len()) as u64;
    acc.max_trace = acc.max_trace.max(refs.trace[0].len());
    let label = outcome_label(&refs.fin[0]);
    let label2 = outcome_label(&refs.fin[1]);
    // a location of the armed universe that the uninterrupted run visits more than once
    let repeated = {
        let universe = armed(&p, &Mode::Single(true));
        universe.iter().any(|l| refs.trace[0].iter().filter(|t| t.loc == *l).count() > 1)
    };
    if repeated {
        acc.programs_with_repeated_visit += 1;
    }
    let modes = modes(&p);
    for mode in &modes {
        let rep = check_case(env, &p, &refs, mode);
        acc.cases += 1;
        *acc.outcomes.entry(format!("{} | tx1 {label} | tx2 {label2}", mode.name())).or_default() += 1;
        for t in 0..2 {
            acc.events[t] += rep.info[t].events;
            acc.events_in_contract[t] += rep.info[t].events_in_contract;
            acc.missed[t] += rep.info[t].missed;
        }
        acc.max_events = acc.max_events.max(rep.event_locs.len());
        if !rep.event_locs.is_empty() {
            acc.cases_with_events += 1;
            acc.fps.insert(hash64(&(p.sched.name(), &rep.event_locs, &label, &label2)));
        }
        if let Some((key, what)) = rep.violation {
            let e = acc.viols.entry(key).or_insert_with(|| (what, case_json(&p, mode), 0));
            e.2 += 1;
        }
    }
    // sample candidates (one per outcome class): all breakpoints armed; prefer events inside A and revisits
    let full = Mode::Breakpoints((1u32 << p.locs.len()) - 1, (1u32 << p.a_len) - 1);
    let rep = check_case(env, &p, &refs, &full);
    let distinct: HashSet<Loc> = rep.event_locs.iter().copied().collect();
    let score = 10 * distinct.len() as u64
        + if rep.event_locs.iter().any(|l| l.0 == A) { 100 } else { 0 }
        + if repeated { 50 } else { 0 }
        + 64u64.saturating_sub(rep.event_locs.len() as u64);
    let best = acc.samples.entry(label.clone()).or_insert((0, Value::Null));
    if rep.violation.is_none() && best.0 < score {
        *best = (
            score,
            json!({
                "world": p.sched.name(),
                "program": p.names,
                "mode": describe_mode(&p, &full),
                "uninterrupted": {"outcome": label, "steps": refs.trace[0].len(), "receipts": refs.fin[0].receipts.len(), "final_state": format!("{:?}", refs.fin[0].state)},
                "events_tx1": compact(&rep.event_locs),
                "events_tx2": rep.info[1].events,
                "missed_visits": rep.info[0].missed + rep.info[1].missed,
                "result": "final state, receipts, tx, storage equal to the uninterrupted run; every event state equals the trace state before the instruction",
            }),
        );
    }
}

/// run-length rendering of an event sequence
fn compact(locs: &[Loc]) -> Vec<String> {
    let mut out: Vec<(String, usize)> = vec![];
    for l in locs {
        let s = loc_str(l);
        match out.last_mut() {
            Some((p, n)) if *p == s => *n += 1,
            _ => out.push((s, 1)),
        }
    }
    out.into_iter().map(|(s, n)| if n == 1 { s } else { format!("{s} x{n}") }).collect()
}

fn pass(ctx: &Ctx, env: &Env, k: u32, lo: u64, hi: u64, tot: &mut Acc) {
    space::par_chunks(
        hi - lo,
        4,
        Acc::default,
        |i, acc| {
            if ctx.out_of_time() {
                acc.skipped += 1;
                return
            }
            let seq = space::seq_at(LETTERS.len() as u64, k, lo + i);
            run_program(env, &seq, acc);
        },
        |a| {
            tot.programs += a.programs;
            tot.too_long += a.too_long;
            tot.skipped += a.skipped;
            tot.cases += a.cases;
            tot.cases_with_events += a.cases_with_events;
            tot.trace_steps += a.trace_steps;
            tot.max_trace = tot.max_trace.max(a.max_trace);
            tot.max_events = tot.max_events.max(a.max_events);
            tot.programs_with_repeated_visit += a.programs_with_repeated_visit;
            for t in 0..2 {
                tot.events[t] += a.events[t];
                tot.events_in_contract[t] += a.events_in_contract[t];
                tot.missed[t] += a.missed[t];
            }
            for (k, v) in a.outcomes {
                *tot.outcomes.entry(k).or_default() += v;
            }
            ctx.fps_merge(a.fps);
            for (key, (what, case, n)) in a.viols {
                ctx.violation(key.clone(), what, case);
                tot.viols.entry(key).or_insert_with(|| (String::new(), Value::Null, 0)).2 += n;
            }
            for (label, s) in a.samples {
                let best = tot.samples.entry(label).or_insert((0, Value::Null));
                if best.0 < s.0 {
                    *best = s;
                }
            }
        },
    );
}

fn explore(ctx: &Ctx) {
    let k = ctx.pick(3u32, 4u32);
    ctx.rule(format!(
        "two worlds (unit gas schedule with gas limit 48; default gas schedule with ample gas and a step cap, see `worlds`): \
         every program of <= {k} letters over LETTERS (shortest first) x every subset of the script breakpoint locations (last set-up \
         instruction, body instructions, final ret, subroutine entry) x every subset of contract A's instructions (fewest breakpoints \
         first) + single-stepping (without / with all breakpoints); each case = two transactions on one VM driven by transact + \
         resume-until-done and compared with the uninterrupted runs and their step-wise traces. A case is non-trivial when at least \
         one debug event was reported; distinct = distinct (world, sequence of event locations of the first transaction, outcome of both \
         transactions)"
    ));
    ctx.assume("the uninterrupted references come from the same interpreter build: `transact` without any debugger call, and `init_script` + `execute` stepping with an inactive debugger");
    ctx.assume("breakpoint locations are instruction counts relative to $is (`Breakpoint::script(n)`, `Breakpoint::new(contract, n)`), reported back in bytes (`Breakpoint::pc()`), as documented on the constructors");
    ctx.assume("every instruction costs >= 1 gas, so all trace steps have pairwise different registers ($ggas) and the event-to-visit mapping is unique");
    ctx.set(
        "dont_care",
        json!([
            "visits of an armed location (or, single-stepping, executed instructions) for which NO event is reported: the statement bounds events from above only ('at most once per reached location'); counted in missed_visits",
            "memory contents at an event (only the 64 registers, the receipt count, the reported location and the final results are compared)",
            "what `resume` does after the program has completed, and abandoning a suspended run (the statement resumes after every event until completion)",
            "breakpoints in contract B / at locations outside the enumerated set; predicates (VerifyPredicate debug states are never produced by the public API)",
        ]),
    );
    ctx.set("strict_mode_C32_STRICT", json!(strict()));
    ctx.set("letters", json!(LETTERS));
    ctx.set(
        "worlds",
        json!({
            "unit": {"gas_schedule": "GasCosts::unit()", "gas_limit": GAS_LIMIT_UNIT,
                     "contract_a": ["log $one", "mint 1 coin of sub-asset [$fp..$fp+32]", "ret $one"],
                     "contract_b": ["log $one $one", "call A", "ret $one"],
                     "modes": "all script subsets x all 2^3 subsets of A + 2 single-step modes"},
            "default": {"gas_schedule": "ConsensusParameters::standard() (hot/cold storage reads differ)", "gas_limit": GAS_LIMIT_DEFAULT, "step_cap": MAX_TRACE_DEFAULT,
                     "contract_a": ["sww [$fp] := 1", "log $one", "srw [$fp] (hot in an uninterrupted run)", "ret"],
                     "contract_b": ["swwq [$fp]", "call A", "cfei 32", "subi r16 $sp 32", "srwq r16 [$fp]", "scwq [$fp]", "ret $one"],
                     "modes": "all script subsets x all 2^4 subsets of A (programs without a call letter: empty A subset only) + 2 single-step modes; programs whose uninterrupted run exceeds the step cap are left to the unit world; quick tier: programs of <= 2 letters only in this world"},
        }),
    );
    ctx.set(
        "script_layout",
        json!("prelude(9) | ji 12 | SUB(10): log | jal $zero r0x13 | movi r0x10 2 | movi r0x11 5 (13) | body (14..) | ret $one | rvrt $one"),
    );

    let nprog = space::seq_count(LETTERS.len() as u64, k);
    let envs = [env(Sched::Unit), env(Sched::Default)];
    let mut tots = [Acc::default(), Acc::default()];
    // one pass per program length (both worlds), so that a run cut short by the time budget still
    // completes all shorter programs
    let mut per_length: Vec<Value> = vec![];
    for len in 0..=k {
        let lo = if len == 0 { 0 } else { space::seq_count(LETTERS.len() as u64, len - 1) };
        let hi = space::seq_count(LETTERS.len() as u64, len);
        for (env, tot) in envs.iter().zip(tots.iter_mut()) {
            // quick tier: the default-schedule world is bounded to programs of <= 2 letters
            // (the unit-schedule world keeps the full length k); thorough runs both to k
            if ctx.quick() && matches!(env.sched, Sched::Default) && len > 2 {
                continue
            }
            let (r0, l0, s0) = (tot.programs, tot.too_long, tot.skipped);
            pass(ctx, env, k, lo, hi, tot);
            per_length.push(json!({"world": env.sched.name(), "letters": len, "programs": hi - lo, "run": tot.programs - r0,
                                   "longer_than_step_cap": tot.too_long - l0, "not_run": tot.skipped - s0}));
        }
    }
    ctx.set("programs_per_length", json!(per_length));
    let mut space_info = BTreeMap::new();
    let mut events_info = BTreeMap::new();
    let mut viol_counts: BTreeMap<String, u64> = BTreeMap::new();
    for (env, tot) in envs.iter().zip(tots.iter()) {
        let w = env.sched.name();
        ctx.evals(tot.cases);
        ctx.outcomes_merge(&tot.outcomes.iter().map(|(k, v)| (format!("{w} | {k}"), *v)).collect::<BTreeMap<String, u64>>());
        let mut samples: Vec<&(u64, Value)> = tot.samples.values().filter(|s| s.0 > 0).collect();
        samples.sort_by(|a, b| b.0.cmp(&a.0));
        for (_, s) in samples.into_iter().take(4) {
            ctx.sample(s.clone());
        }
        if tot.skipped > 0 {
            ctx.cap(format!("time budget: {w} world: {} of {} programs not run (see programs_per_length; shorter programs are completed first)", tot.skipped, nprog));
        }
        space_info.insert(
            w,
            json!({
                "k": k,
                "programs_in_space": nprog,
                "programs_run": tot.programs,
                "programs_longer_than_step_cap": tot.too_long,
                "cases (program x mode, two transactions each)": tot.cases,
                "cases_with_at_least_one_event": tot.cases_with_events,
                "programs_visiting_a_location_more_than_once": tot.programs_with_repeated_visit,
                "reference_trace_steps": tot.trace_steps,
                "longest_trace": tot.max_trace,
                "most_events_in_one_run": tot.max_events,
            }),
        );
        events_info.insert(
            w,
            json!({
                "tx1": {"events": tot.events[0], "inside_contract_A_or_B": tot.events_in_contract[0], "missed_visits": tot.missed[0]},
                "tx2": {"events": tot.events[1], "inside_contract_A_or_B": tot.events_in_contract[1], "missed_visits": tot.missed[1]},
            }),
        );
        for (k, v) in &tot.viols {
            *viol_counts.entry(k.clone()).or_default() += v.2;
        }
    }
    ctx.set("space", json!(space_info));
    ctx.set("events", json!(events_info));
    ctx.set("missed_visits_meaning", json!("visits of armed locations in the uninterrupted trace for which no event was reported (don't-care, information only)"));
    if !viol_counts.is_empty() {
        ctx.set("violating_cases_per_key", json!(viol_counts));
    }
}

fn world_of(case: &Value) -> Sched {
    match case["world"].as_str() {
        Some("default") => Sched::Default,
        _ => Sched::Unit,
    }
}

fn replay(case: &Value, ctx: &Ctx) {
    let seq: Vec<u64> = serde_json::from_value(case["letters"].clone()).expect("letters");
    let mode = match case["mode"].as_str() {
        Some("breakpoints") => Mode::Breakpoints(case["script_mask"].as_u64().expect("script_mask") as u32, case["contract_mask"].as_u64().expect("contract_mask") as u32),
        Some("single-step") => Mode::Single(false),
        Some("single-step+all") => Mode::Single(true),
        other => panic!("unknown mode {other:?}"),
    };
    let env = env(world_of(case));
    let p = prog(&env, &seq);
    let refs = refs(&env, &p).expect("replayed program within the step cap");
    let rep = check_case(&env, &p, &refs, &mode);
    if let Some((key, what)) = rep.violation {
        ctx.violation(key, what, case_json(&p, &mode));
    }
}

/// Development aid: `C32_SHOW=4,4,11 [C32_WORLD=default] c32` prints the uninterrupted trace of one program.
fn show(spec: &str) {
    let seq: Vec<u64> = spec.split(',').filter(|x| !x.is_empty()).map(|x| x.trim().parse().expect("letter index")).collect();
    let env = env(if std::env::var("C32_WORLD").as_deref() == Ok("default") { Sched::Default } else { Sched::Unit });
    let p = prog(&env, &seq);
    let Some(refs) = refs(&env, &p) else {
        println!("program {:?}: longer than the step cap", p.names);
        return
    };
    println!("program {:?}: {} | second tx {}", p.names, outcome_label(&refs.fin[0]), outcome_label(&refs.fin[1]));
    for (i, t) in refs.trace[0].iter().enumerate() {
        println!("  step {i}: {} $ggas={} $cgas={} receipts={}", loc_str(&t.loc), t.regs[9], t.regs[10], t.nrec);
    }
    for r in &refs.fin[0].receipts {
        println!("  {r:?}");
    }
}

fn main() {
    if let Ok(spec) = std::env::var("C32_SHOW") {
        show(&spec);
        return
    }
    run_check("C32", Level::Exploration, explore, replay)
}
