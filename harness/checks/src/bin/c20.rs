//! C20 — Only authorized inputs survive signature and predicate checks.
//!
//! Five exhaustively enumerated spaces, every element executed on the real code:
//!
//! 1. `sig`   — script transactions with 1..=3 signed inputs (coin, message-coin,
//!    message-data) x owner keys {k1,k2}^n x witness indices {0..=m}^n (m = out of range)
//!    x witness slots {sig k1, sig k2, garbage 64 B, 63 B, 65 B, empty}^m
//!    (quick m = 2, thorough m = 3). Oracle: `check_signatures` Ok <=> every signed
//!    input's referenced witness exists, is 64 bytes and recovers (over the tx id) to the
//!    input's owner. `Checked::check_signatures` must agree whenever the basic checks pass.
//! 2. `sweep` — on two accepted transactions every byte (bit 0; thorough: all 8 bits) of
//!    the canonical encoding is flipped; mutants that decode to the same shape and whose
//!    *signed content* changed (harness-side normalisation = the spec's list of malleable
//!    fields zeroed, witnesses dropped) must fail `check_signatures`.
//! 3. `pred`  — ALL predicate programs of length <= 3 (quick) / 4 (thorough) over a
//!    15-letter predicate alphabet, each placed in 6 transactions with 1..=3 predicate
//!    inputs. A ~50-line reference interpreter (written from the instruction semantics,
//!    gas from the consensus gas table) says whether each predicate returns 1 and how
//!    much gas it uses. For the estimated tx and its variants (gas +-1 per input, owner
//!    bit flips, gas 0): `check_predicates` Ok => every owner is the predicate's address,
//!    every predicate is true per reference and declared gas == reference gas, and the
//!    total == sum of declared gas. Estimation Ok on an all-true tx => verification Ok.
//! 4. `sched` — model-checking core. The harness implements `ParallelExecutor` (order of
//!    task execution and order of returned results come from a thread-local schedule)
//!    and `VmMemoryPool` (fresh / predicate-dirtied / script-dirtied memory per task).
//!    For every role sequence of length <= 3 (quick) / 4 (thorough) over 12 predicate
//!    roles (true with different gas, own-data, heap probe, stack probe, memory-dirtying,
//!    return 0, revert, illegal opcode, gas +1, gas -1, wrong owner) EVERY permutation x
//!    {completion order, creation order} x EVERY memory assignment is run through
//!    `check_predicates_async` and `estimate_predicates_async`; verdict and total gas
//!    (per-input gas for estimation) must equal the sequential functions (which are also
//!    run on reused dirty memory).
//!    A second, heap-reuse family (dirtiers ALOC 200 / ALOC 4096 writing ff..ff to every
//!    word; probers ALOC 8+ALOC 300, ALOC 8+ALOC 5000, ALOC 300 reading every word of the
//!    new allocation; a 4096-byte stack prober; ret 1) is run the same way with the pool
//!    handing out fresh / dirtier-200-used / dirtier-4096-used / script-dirtied memory
//!    (retained heap buffers of 256 B, 4 KiB, 64 KiB around which the probers re-allocate).
//! 5. `limit` — all-true transactions under consensus parameters whose per-tx gas limit
//!    sits at every boundary around (base + partial sums of the needed predicate gas) and
//!    whose per-predicate limit sits around the single needs: sequential vs parallel
//!    estimation (all schedules), estimation Ok => verification Ok, seq vs par check.
//!
//! Findings on the unchanged tree (all in space 5, all-true predicates that do not fit the
//! gas limits): estimation ignores the predicate's run result, so an out-of-gas run is
//! "estimated" as Ok and the estimated tx then fails verification
//! (`C20:estimate-ok-verify-rejects:{sequential,parallel}:OutOfGas`, known findings; the
//! last key component is the class of the verification error, so any other rejection
//! reason gives a different key). Information only (the statement fixes seq == par for
//! checking, not for the estimation verdict): the sequential path (shrinking global
//! allowance) says Ok where the parallel path (min(per-predicate, per-tx) for everyone)
//! says TransactionExceedsTotalGasAllowance — recorded under
//! `info_seq_vs_par_estimation_verdict_gas_limit`. Per-input estimated gas must still be
//! identical whenever both estimations succeed.
//!
//! Don't-cares: which error is reported; the state of a tx after a failed estimation;
//! whether a tx that is all-true/exact is accepted (only stated via estimate=>verify);
//! estimation "succeeding" on predicates that are not true or have a wrong owner
//! (upstream pins this behaviour in its own tests) is recorded as information only.

use std::{
    cell::RefCell,
    collections::{
        BTreeMap,
        HashSet,
    },
    future::Future,
    pin::Pin,
    sync::atomic::{
        AtomicUsize,
        Ordering,
    },
    task::{
        Context as TaskCx,
        Poll,
    },
};

use fuel_asm::{
    op,
    GMArgs,
    GTFArgs,
    Instruction,
    RegId,
};
use fuel_crypto::{
    Message,
    SecretKey,
    Signature,
};
use fuel_tx::{
    field::{
        Inputs,
        Outputs,
        ReceiptsRoot,
        Witnesses,
    },
    Chargeable,
    ConsensusParameters,
    FormatValidityChecks,
    GasCosts,
    Input,
    Output,
    policies::Policies,
    PredicateParameters,
    Script,
    Transaction,
    TxParameters,
    TxPointer,
    UniqueIdentifier,
    UtxoId,
    Witness,
};
use fuel_types::{
    canonical::{
        Deserialize as _,
        Serialize as _,
    },
    Address,
    AssetId,
    BlockHeight,
    Bytes32,
    ChainId,
    ContractId,
    Nonce,
    Word,
};
use fuel_vm::{
    checked_transaction::{
        CheckPredicateParams,
        CheckPredicates,
        IntoChecked,
        ParallelExecutor,
    },
    error::PredicateVerificationFailed,
    interpreter::{
        MemoryInstance,
        NotSupportedEcal,
    },
    pool::VmMemoryPool,
    prelude::predicates,
    storage::predicate::EmptyStorage,
};
use futures::executor::block_on;
use vcore::{
    guard,
    json,
    run_check,
    space,
    vmkit,
    Ctx,
    Level,
    Value,
};

// ------------------------------------------------------------------ accumulators

#[derive(Default)]
struct Acc {
    evals: u64,
    outcomes: BTreeMap<String, u64>,
    fps: HashSet<u64>,
    counters: BTreeMap<&'static str, u64>,
    info: Vec<Value>,
    /// violations of this chunk, first occurrence per key (forwarded in chunk order so
    /// that the reported counterexample is the lowest-index = simplest one)
    viols: BTreeMap<String, (String, Value, u64)>,
}

impl Acc {
    fn out(&mut self, label: impl Into<String>) {
        *self.outcomes.entry(label.into()).or_insert(0) += 1;
    }
    fn viol(&mut self, key: impl Into<String>, what: impl Into<String>, case: Value) {
        let e = self.viols.entry(key.into()).or_insert_with(|| (what.into(), case, 0));
        e.2 += 1;
    }
    fn flush_viols(&mut self, ctx: &Ctx) {
        for (k, (what, case, n)) in std::mem::take(&mut self.viols) {
            for _ in 0..n {
                ctx.violation(k.clone(), what.clone(), case.clone());
            }
        }
    }
    fn cnt(&mut self, k: &'static str, n: u64) {
        *self.counters.entry(k).or_insert(0) += n;
    }
    fn merge_into(mut self, ctx: &Ctx, total: &mut BTreeMap<&'static str, u64>, info: &mut Vec<Value>) {
        self.flush_viols(ctx);
        ctx.evals(self.evals);
        ctx.outcomes_merge(&self.outcomes);
        ctx.fps_merge(self.fps);
        for (k, v) in self.counters {
            *total.entry(k).or_insert(0) += v;
        }
        for v in self.info {
            if info.len() < 6 {
                info.push(v);
            }
        }
    }
}

fn hex(b: &[u8]) -> String {
    hex::encode(b)
}

fn u8s(v: &Value) -> Vec<u8> {
    v.as_array()
        .expect("array")
        .iter()
        .map(|x| x.as_u64().expect("u64") as u8)
        .collect()
}

// ------------------------------------------------------------------ environment

struct Env {
    cp: ConsensusParameters,
    cpp: CheckPredicateParams,
    chain: ChainId,
    base: AssetId,
    /// memory templates: 0 fresh, 1 dirtied by a predicate run, 2 dirtied by a script run
    tpl: Vec<MemoryInstance>,
}

const MEM_NAMES: [&str; 5] = ["fresh", "dirty-predicate", "dirty-script", "after-heap-dirtier-200", "after-heap-dirtier-4096"];

impl Env {
    fn new() -> Env {
        let cp = ConsensusParameters::standard();
        let cpp = CheckPredicateParams::from(&cp);
        let chain = cp.chain_id();
        let base = *cp.base_asset_id();
        let mut env = Env {
            cp,
            cpp,
            chain,
            base,
            tpl: (0..5).map(|_| MemoryInstance::new()).collect(),
        };
        env.tpl[1] = env.dirty_predicate_memory();
        env.tpl[2] = dirty_script_memory();
        env.tpl[3] = env.heap_dirtied_memory(20);
        env.tpl[4] = env.heap_dirtied_memory(21);
        env
    }

    /// Memory left behind by a heap-dirtier role (20: ALOC 200, 21: ALOC 4096, every word
    /// of the allocation set to ff..ff): the retained heap buffer (256 / 4096 bytes) is
    /// full of stale non-zero bytes.
    fn heap_dirtied_memory(&self, role: u8) -> MemoryInstance {
        let code: Vec<u8> = role_code(role, 0).into_iter().collect();
        let input = pred_input(0, 0, Input::predicate_owner(&code), 100_000, code, vec![0; 8], self.base);
        let tx = Transaction::script(0, vec![], vec![], Policies::new().with_max_fee(0), vec![input], vec![], vec![]);
        let checked = tx.into_checked_basic(BlockHeight::new(0), &self.cp).expect("heap dirtier tx basic");
        let mut mem = MemoryInstance::new();
        // the verdict is irrelevant (GasMismatch): the predicate runs and dirties the heap
        let _ = guard::catch_any(|| predicates::check_predicates(&checked, &self.cpp, &mut mem, &EmptyStorage, NotSupportedEcal));
        let top = fuel_vm::consts::VM_MAX_RAM;
        assert_eq!(mem.read(top - 8, 8u64).map(|b| b.to_vec()), Ok(vec![0xff; 8]), "heap-dirtied memory must hold stale bytes");
        mem
    }

    /// Memory left behind by a real (accepted) predicate verification that wrote 0x01
    /// into a heap byte and a stack byte, on a transaction larger than any probe tx.
    fn dirty_predicate_memory(&self) -> MemoryInstance {
        let code: Vec<u8> = role_code(5, 0).into_iter().collect();
        let owner = Input::predicate_owner(&code);
        let mk = |gas: u64| {
            let input = Input::coin_predicate(
                UtxoId::new(Bytes32::from([0xee; 32]), 1),
                owner,
                1000,
                self.base,
                TxPointer::default(),
                gas,
                code.clone(),
                vec![0xab; 2048],
            );
            Transaction::script(0, vec![], vec![], Policies::new().with_max_fee(0), vec![input], vec![], vec![])
        };
        // The gas comes from the subject's estimation, but nothing here depends on the
        // estimate being right: the predicate runs (and dirties the memory) whatever the
        // verdict is, and the dirtiness itself is asserted.
        let mut t = mk(0);
        let _ = guard::catch_any(|| {
            predicates::estimate_predicates(&mut t, &self.cpp, MemoryInstance::new(), &EmptyStorage, NotSupportedEcal)
        });
        let gas = gas_vec(&t)[0].max(100);
        let checked = mk(gas)
            .into_checked_basic(BlockHeight::new(0), &self.cp)
            .expect("dirtying tx basic");
        let mut mem = MemoryInstance::new();
        let _ = guard::catch_any(|| predicates::check_predicates(&checked, &self.cpp, &mut mem, &EmptyStorage, NotSupportedEcal));
        let top = fuel_vm::consts::VM_MAX_RAM;
        assert_eq!(mem.read(top - 1, 1u64).map(|b| b[0]), Ok(1), "predicate-dirtied memory must hold a stale heap byte");
        mem
    }
}

/// Memory after a script that allocated 64 KiB of heap and a 100 kB stack frame, with
/// every accessible byte then set to 0x01 (stale bytes everywhere).
fn dirty_script_memory() -> MemoryInstance {
    let mut vm = vmkit::vm_for_script(
        &[
            op::movi(0x10, 65536),
            op::aloc(0x10),
            op::cfei(100_000),
            op::ret(RegId::ONE),
        ],
        vec![],
        10_000_000,
    );
    let (last, _) = vmkit::run_until_stop(&mut vm, 100);
    assert!(matches!(last, vmkit::Step::Return(1)), "dirtying script: {last:?}");
    let sp = vmkit::reg(&vm, RegId::SP);
    let hp = vmkit::reg(&vm, RegId::HP);
    let top = fuel_vm::consts::VM_MAX_RAM;
    assert!(sp > 100_000 && top - hp == 65536);
    vm.memory_mut().write_noownerchecks(0u64, sp).unwrap().fill(0x01);
    vm.memory_mut().write_noownerchecks(hp, top - hp).unwrap().fill(0x01);
    vm.memory().clone()
}

// ------------------------------------------------------------------ schedule-controlled executor + pool

type TaskOut = (usize, Result<Word, PredicateVerificationFailed>);

#[derive(Default)]
struct Sched {
    perm: Vec<usize>,
    creation_order: bool,
    created: usize,
    ran: Vec<usize>,
    mismatch: bool,
}

thread_local! {
    static SCHED: RefCell<Sched> = RefCell::new(Sched::default());
}

fn set_schedule(perm: &[usize], creation_order: bool) {
    SCHED.with(|s| {
        *s.borrow_mut() = Sched {
            perm: perm.to_vec(),
            creation_order,
            ..Default::default()
        }
    });
}

/// (tasks created, order in which they ran, schedule length mismatch)
fn take_schedule_log() -> (usize, Vec<usize>, bool) {
    SCHED.with(|s| {
        let s = s.borrow();
        (s.created, s.ran.clone(), s.mismatch)
    })
}

struct HTask(Option<Box<dyn FnOnce() -> TaskOut + Send + 'static>>);

impl Future for HTask {
    type Output = TaskOut;

    fn poll(mut self: Pin<&mut Self>, _: &mut TaskCx<'_>) -> Poll<TaskOut> {
        let f = self.0.take().expect("task polled twice");
        Poll::Ready(f())
    }
}

fn run_schedule(tasks: Vec<HTask>) -> Vec<TaskOut> {
    let n = tasks.len();
    let (perm, creation) = SCHED.with(|s| {
        let mut s = s.borrow_mut();
        if s.perm.len() != n {
            s.mismatch = true;
            s.perm = (0..n).collect();
        }
        (s.perm.clone(), s.creation_order)
    });
    let mut slots: Vec<Option<HTask>> = tasks.into_iter().map(Some).collect();
    let mut done: Vec<(usize, TaskOut)> = Vec::with_capacity(n);
    for &k in &perm {
        let mut t = slots[k].take().expect("schedule is not a permutation");
        let f = t.0.take().expect("task already run");
        let out = f();
        SCHED.with(|s| s.borrow_mut().ran.push(k));
        done.push((k, out));
    }
    if creation {
        done.sort_by_key(|(k, _)| *k);
    }
    done.into_iter().map(|(_, o)| o).collect()
}

struct HExec;

#[async_trait::async_trait]
impl ParallelExecutor for HExec {
    type Task = HTask;

    fn create_task<F>(func: F) -> HTask
    where
        F: FnOnce() -> TaskOut + Send + 'static,
    {
        SCHED.with(|s| s.borrow_mut().created += 1);
        HTask(Some(Box::new(func)))
    }

    async fn execute_tasks(futures: Vec<HTask>) -> Vec<TaskOut> {
        run_schedule(futures)
    }
}

struct HPool<'a> {
    assign: Vec<u8>,
    next: AtomicUsize,
    tpl: &'a [MemoryInstance],
}

impl<'a> HPool<'a> {
    fn new(assign: &[u8], tpl: &'a [MemoryInstance]) -> Self {
        HPool {
            assign: assign.to_vec(),
            next: AtomicUsize::new(0),
            tpl,
        }
    }
}

impl VmMemoryPool for HPool<'_> {
    type Memory = MemoryInstance;

    fn get_new(&self) -> impl Future<Output = MemoryInstance> + Send {
        let k = self.next.fetch_add(1, Ordering::Relaxed);
        let kind = self.assign.get(k).copied().unwrap_or(0) as usize;
        core::future::ready(self.tpl[kind].clone())
    }
}

// ------------------------------------------------------------------ verdicts

#[derive(Debug, Clone, PartialEq, Eq)]
enum V {
    Ok(u64),
    Err(String),
    Panic(String),
}

impl V {
    fn is_ok(&self) -> bool {
        matches!(self, V::Ok(_))
    }
    fn label(&self) -> String {
        match self {
            V::Ok(_) => "Ok".into(),
            V::Err(c) => format!("Err({c})"),
            V::Panic(_) => "HOST-PANIC".into(),
        }
    }
    /// The comparison the statement asks for: same Ok/Err and, when Ok, same total gas.
    fn agrees(&self, other: &V) -> Option<&'static str> {
        match (self, other) {
            (V::Panic(_), _) | (_, V::Panic(_)) => Some("host-panic"),
            (V::Ok(a), V::Ok(b)) if a != b => Some("gas"),
            (V::Ok(_), V::Err(_)) | (V::Err(_), V::Ok(_)) => Some("verdict"),
            _ => None,
        }
    }
}

/// Sequential vs parallel ESTIMATION. The statement fixes seq == par only for checking; for
/// estimation it fixes estimate => verify. So a differing Ok/Err verdict is recorded as
/// information, while per-input gas (and total) must be identical when BOTH succeed.
enum EstCmp {
    Same,
    InfoVerdict,
    Viol(&'static str),
}

fn est_cmp(sv: &V, sg: &[u64], pv: &V, pg: &[u64]) -> EstCmp {
    match sv.agrees(pv) {
        Some("verdict") => EstCmp::InfoVerdict,
        Some(w) => EstCmp::Viol(w),
        None if sv.is_ok() && sg != pg => EstCmp::Viol("gas"),
        None => EstCmp::Same,
    }
}

fn variant_name<T: core::fmt::Debug>(t: &T) -> String {
    let s = format!("{t:?}");
    s.chars().take_while(|c| c.is_alphanumeric() || *c == '_').collect()
}

fn pvf_class(e: &PredicateVerificationFailed) -> String {
    match e {
        PredicateVerificationFailed::Panic { reason, .. } => format!("Panic:{reason:?}"),
        PredicateVerificationFailed::PanicInstruction { instruction, .. } => {
            format!("Panic:{:?}", instruction.reason())
        }
        other => variant_name(other),
    }
}

fn to_v<T>(r: Result<Result<T, PredicateVerificationFailed>, String>, gas: impl Fn(&T) -> u64) -> V {
    match r {
        Err(p) => V::Panic(p),
        Ok(Ok(t)) => V::Ok(gas(&t)),
        Ok(Err(e)) => V::Err(pvf_class(&e)),
    }
}

/// into_checked_basic + sequential `check_predicates` on the given memory.
fn verify_seq(tx: &Script, cp: &ConsensusParameters, cpp: &CheckPredicateParams, mem: MemoryInstance) -> V {
    let checked = match guard::catch_any(|| tx.clone().into_checked_basic(BlockHeight::new(0), cp)) {
        Err(p) => return V::Panic(p),
        Ok(Err(e)) => return V::Err(format!("basic:{}", basic_class(&e))),
        Ok(Ok(c)) => c,
    };
    to_v(
        guard::catch_any(|| predicates::check_predicates(&checked, cpp, mem, &EmptyStorage, NotSupportedEcal)),
        |p| p.gas_used(),
    )
}

fn basic_class(e: &fuel_vm::checked_transaction::CheckError) -> String {
    match e {
        fuel_vm::checked_transaction::CheckError::Validity(v) => variant_name(v),
        other => variant_name(other),
    }
}

fn gas_vec(tx: &Script) -> Vec<u64> {
    tx.inputs().iter().filter_map(|i| i.predicate_gas_used()).collect()
}

/// Sequential estimation on the given memory: (verdict, per-input gas afterwards).
fn estimate_seq(tx: &Script, cpp: &CheckPredicateParams, mem: MemoryInstance) -> (V, Vec<u64>) {
    let mut t = tx.clone();
    let v = to_v(
        guard::catch_any(|| predicates::estimate_predicates(&mut t, cpp, mem, &EmptyStorage, NotSupportedEcal)),
        |p| p.gas_used(),
    );
    (v, gas_vec(&t))
}

struct ParRun {
    v: V,
    gas: Vec<u64>,
    created: usize,
    ran: Vec<usize>,
    mismatch: bool,
}

fn check_par(
    checked: &fuel_vm::checked_transaction::Checked<Script>,
    cpp: &CheckPredicateParams,
    tpl: &[MemoryInstance],
    perm: &[usize],
    creation: bool,
    assign: &[u8],
) -> ParRun {
    set_schedule(perm, creation);
    let pool = HPool::new(assign, tpl);
    let v = to_v(
        guard::catch_any(|| {
            block_on(predicates::check_predicates_async::<Script, NotSupportedEcal, HExec>(
                checked,
                cpp,
                &pool,
                &EmptyStorage,
                NotSupportedEcal,
            ))
        }),
        |p| p.gas_used(),
    );
    let (created, ran, mismatch) = take_schedule_log();
    ParRun {
        v,
        gas: vec![],
        created,
        ran,
        mismatch,
    }
}

fn estimate_par(
    tx: &Script,
    cpp: &CheckPredicateParams,
    tpl: &[MemoryInstance],
    perm: &[usize],
    creation: bool,
    assign: &[u8],
) -> ParRun {
    set_schedule(perm, creation);
    let pool = HPool::new(assign, tpl);
    let mut t = tx.clone();
    let v = to_v(
        guard::catch_any(|| {
            block_on(predicates::estimate_predicates_async::<Script, NotSupportedEcal, HExec>(
                &mut t,
                cpp,
                &pool,
                &EmptyStorage,
                NotSupportedEcal,
            ))
        }),
        |p| p.gas_used(),
    );
    let (created, ran, mismatch) = take_schedule_log();
    ParRun {
        v,
        gas: gas_vec(&t),
        created,
        ran,
        mismatch,
    }
}

// ------------------------------------------------------------------ part 1: signatures

const KEYS: [[u8; 32]; 2] = [[0x11; 32], [0x22; 32]];

fn sk(i: usize) -> SecretKey {
    SecretKey::try_from(Bytes32::from(KEYS[i])).expect("secret key")
}

fn key_addr(i: usize) -> Address {
    Input::owner(&sk(i).public_key())
}

const SIG_KINDS: [&str; 3] = ["coin", "message-coin", "message-data"];
const WIT_CLASSES: [&str; 6] = ["sig-k1", "sig-k2", "garbage-64", "len-63", "len-65", "empty"];

fn signed_input(pos: usize, kind: u8, owner: Address, widx: u16, base: AssetId) -> Input {
    let p = pos as u8;
    match kind {
        0 => Input::coin_signed(
            UtxoId::new(Bytes32::from([p + 1; 32]), pos as u16),
            owner,
            1000,
            base,
            TxPointer::default(),
            widx,
        ),
        1 => Input::message_coin_signed(Address::from([0xa0 + p; 32]), owner, 1000, Nonce::from([0xb0 + p; 32]), widx),
        _ => Input::message_data_signed(
            Address::from([0xa0 + p; 32]),
            owner,
            1000,
            Nonce::from([0xb0 + p; 32]),
            widx,
            vec![0xd0 + p; 5],
        ),
    }
}

fn sig_tx(kinds: &[u8], owners: &[u8], widx: &[u16], witnesses: Vec<Witness>, base: AssetId) -> Script {
    let inputs = (0..kinds.len())
        .map(|i| signed_input(i, kinds[i], key_addr(owners[i] as usize), widx[i], base))
        .collect();
    Transaction::script(0, vec![], vec![], Policies::new().with_max_fee(0), inputs, vec![], witnesses)
}

fn sign_id(id: &Bytes32) -> [[u8; 64]; 2] {
    let msg = Message::from_bytes(**id);
    let mut out = [[0u8; 64]; 2];
    for k in 0..2 {
        let s = Signature::sign(&sk(k), &msg);
        out[k].copy_from_slice(s.as_ref());
    }
    out
}

fn wit_bytes(class: u8, sigs: &[[u8; 64]; 2]) -> Vec<u8> {
    match class {
        0 => sigs[0].to_vec(),
        1 => sigs[1].to_vec(),
        2 => (0..64u32).map(|i| (0x5a ^ (i * 7)) as u8).collect(),
        3 => sigs[0][..63].to_vec(),
        4 => {
            let mut v = sigs[0].to_vec();
            v.push(0);
            v
        }
        _ => vec![],
    }
}

/// The statement's oracle for one witness: the address it recovers to over the id.
fn recovers_to(w: &[u8], id: &Bytes32) -> Option<Address> {
    let bytes: [u8; 64] = w.try_into().ok()?;
    let pk = Signature::from_bytes(bytes).recover(&Message::from_bytes(**id)).ok()?;
    Some(Input::owner(&pk))
}

/// One (kinds, owners, witness indices) configuration with m witness slots; `only` = a
/// single witness-class assignment (replay) or None = all 6^m.
fn sig_eval(kinds: &[u8], owners: &[u8], widx: &[u16], m: usize, only: Option<&[u8]>, env: &Env, ctx: &Ctx, acc: &mut Acc) {
    let id = sig_tx(kinds, owners, widx, vec![], env.base).id(&env.chain);
    let sigs = sign_id(&id);
    let rec: Vec<Option<Address>> = (0..6u8).map(|c| recovers_to(&wit_bytes(c, &sigs), &id)).collect();
    // the construction and the recover-based oracle must tell the same story
    assert!(rec[0] == Some(key_addr(0)) && rec[1] == Some(key_addr(1)) && rec[3].is_none() && rec[4].is_none() && rec[5].is_none());
    let combos = 6u64.pow(m as u32);
    let p = space::Product::new(&vec![6u64; m]);
    for ci in 0..combos {
        let classes: Vec<u8> = p.digits(ci).into_iter().map(|d| d as u8).collect();
        if let Some(o) = only {
            if o != classes.as_slice() {
                continue
            }
        }
        let witnesses: Vec<Witness> = classes.iter().map(|c| Witness::from(wit_bytes(*c, &sigs))).collect();
        let tx = sig_tx(kinds, owners, widx, witnesses, env.base);
        let expected = (0..kinds.len()).all(|i| {
            let w = widx[i] as usize;
            w < m && rec[classes[w] as usize] == Some(key_addr(owners[i] as usize))
        });
        let case = json!({"part": "sig", "kinds": kinds, "owners": owners, "widx": widx, "m": m, "wit": classes});
        let descr = || {
            format!(
                "inputs {:?} owners {:?} witness_index {:?} witnesses {:?}",
                kinds.iter().map(|k| SIG_KINDS[*k as usize]).collect::<Vec<_>>(),
                owners.iter().map(|k| format!("k{}", k + 1)).collect::<Vec<_>>(),
                widx,
                classes.iter().map(|c| WIT_CLASSES[*c as usize]).collect::<Vec<_>>()
            )
        };
        acc.evals += 1;
        let got = guard::catch_any(|| tx.check_signatures(&env.chain));
        let got_ok = match &got {
            Err(p) => {
                acc.viol("C20:sig:host-panic", format!("check_signatures panicked: {p}; {}", descr()), case.clone());
                continue
            }
            Ok(r) => r.is_ok(),
        };
        if got_ok && !expected {
            acc.viol(
                "C20:sig:accepted-unauthorized",
                format!("check_signatures Ok although some signed input's witness does not recover to its owner: {}", descr()),
                case.clone(),
            );
        } else if !got_ok && expected {
            acc.viol(
                "C20:sig:rejected-authorized",
                format!("check_signatures {:?} although every signed input's witness recovers to its owner: {}", got, descr()),
                case.clone(),
            );
        }
        // the Checked path (id from cached metadata), whenever the basic checks pass
        match guard::catch_any(|| tx.clone().into_checked_basic(BlockHeight::new(0), &env.cp)) {
            Ok(Ok(c)) => {
                acc.cnt("sig_checked_path", 1);
                let r = guard::catch_any(|| c.check_signatures(&env.chain).is_ok());
                if r != Ok(expected) {
                    acc.viol(
                        "C20:sig:checked-path-differs",
                        format!("Checked::check_signatures gave {r:?}, oracle says {expected}: {}", descr()),
                        case.clone(),
                    );
                }
            }
            Ok(Err(_)) => acc.cnt("sig_basic_rejected", 1),
            Err(p) => acc.viol("C20:sig:host-panic", format!("into_checked_basic panicked: {p}"), case.clone()),
        }
        acc.out(format!("sig:{}", if got_ok { "accepted" } else { "rejected" }));
        if got_ok {
            acc.fps.insert(vcore::run::hash64(&("sig", kinds, owners, widx, &classes)));
            if kinds.len() == 3 && widx[0] == widx[1] && ctx.sample_count() < 2 {
                ctx.sample(json!({"part": "sig", "accepted": descr(), "id": hex(&*id)}));
            }
        }
    }
}

fn sig_configs(m: usize) -> Vec<(Vec<u8>, Vec<u8>, Vec<u16>)> {
    let mut v = vec![];
    for n in 1..=3usize {
        let kind_sets: Vec<Vec<u8>> = if n == 1 {
            vec![vec![0], vec![1], vec![2]]
        } else {
            vec![(0..n as u8).collect()]
        };
        for kinds in kind_sets {
            for o in 0..(1u64 << n) {
                let owners: Vec<u8> = (0..n).map(|i| ((o >> i) & 1) as u8).collect();
                let p = space::Product::new(&vec![m as u64 + 1; n]);
                for wi in 0..p.size() {
                    let widx: Vec<u16> = p.digits(wi).into_iter().map(|d| d as u16).collect();
                    v.push((kinds.clone(), owners.clone(), widx));
                }
            }
        }
    }
    v
}

fn part_sig(ctx: &Ctx, env: &Env) {
    let m = ctx.pick(2usize, 3usize);
    let cfgs = sig_configs(m);
    let mut total = BTreeMap::new();
    let mut info = vec![];
    space::par_chunks(
        cfgs.len() as u64,
        8,
        Acc::default,
        |i, acc| {
            let (k, o, w) = &cfgs[i as usize];
            sig_eval(k, o, w, m, None, env, ctx, acc);
        },
        |a| a.merge_into(ctx, &mut total, &mut info),
    );
    ctx.set(
        "sig",
        json!({"configs": cfgs.len(), "signatures_made": cfgs.len() * 2, "witness_slots": m, "witness_classes": WIT_CLASSES,
               "input_kinds": SIG_KINDS, "witness_index_domain": format!("0..={m} ({m} = out of range)"),
               "cases": cfgs.len() as u64 * 6u64.pow(m as u32), "counters": total}),
    );
}

// ------------------------------------------------------------------ part 2: byte sweep over signed content

fn sweep_tx(k: usize, env: &Env) -> Script {
    let code: Vec<u8> = [op::ret(RegId::ONE)].into_iter().collect();
    let (inputs, outputs, script, data): (Vec<Input>, Vec<Output>, Vec<u8>, Vec<u8>) = if k == 0 {
        (
            vec![signed_input(0, 0, key_addr(0), 0, env.base)],
            vec![Output::coin(Address::from([0x31; 32]), 5, env.base)],
            vec![],
            vec![],
        )
    } else {
        let mut c0 = signed_input(0, 0, key_addr(0), 0, env.base);
        if let Input::CoinSigned(c) = &mut c0 {
            c.tx_pointer = TxPointer::new(BlockHeight::new(3), 4);
        }
        (
            vec![
                c0,
                signed_input(1, 1, key_addr(1), 1, env.base),
                signed_input(2, 2, key_addr(0), 0, env.base),
                Input::coin_predicate(
                    UtxoId::new(Bytes32::from([0x44; 32]), 7),
                    Input::predicate_owner(&code),
                    50,
                    env.base,
                    TxPointer::new(BlockHeight::new(5), 6),
                    9,
                    code.clone(),
                    vec![7; 3],
                ),
                Input::contract(
                    UtxoId::new(Bytes32::from([0x55; 32]), 2),
                    Bytes32::from([0x56; 32]),
                    Bytes32::from([0x57; 32]),
                    TxPointer::new(BlockHeight::new(8), 9),
                    ContractId::from([0xc0; 32]),
                ),
            ],
            vec![
                Output::coin(Address::from([0x31; 32]), 5, env.base),
                Output::contract(4, Bytes32::from([0x61; 32]), Bytes32::from([0x62; 32])),
                Output::change(Address::from([0x32; 32]), 77, env.base),
                Output::variable(Address::from([0x33; 32]), 3, AssetId::from([0x34; 32])),
            ],
            code.clone(),
            vec![9, 9, 9],
        )
    };
    let policies = if k == 0 {
        Policies::new().with_max_fee(0)
    } else {
        Policies::new().with_max_fee(0).with_tip(1).with_witness_limit(10_000).with_maturity(BlockHeight::new(0))
    };
    let mut tx = Transaction::script(if k == 0 { 0 } else { 1000 }, script, data, policies, inputs, outputs, vec![]);
    if k == 1 {
        *tx.receipts_root_mut() = Bytes32::from([0x77; 32]);
    }
    let id = tx.id(&env.chain);
    let sigs = sign_id(&id);
    tx.witnesses_mut().push(Witness::from(sigs[0].to_vec()));
    if k == 1 {
        tx.witnesses_mut().push(Witness::from(sigs[1].to_vec()));
    }
    tx
}

/// The spec's malleable fields zeroed and witnesses dropped — what is left is "signed content".
fn signed_content(tx: &Script) -> Script {
    let mut t = tx.clone();
    *t.receipts_root_mut() = Bytes32::zeroed();
    for i in t.inputs_mut().iter_mut() {
        match i {
            Input::CoinSigned(c) => c.tx_pointer = TxPointer::default(),
            Input::CoinPredicate(c) => {
                c.tx_pointer = TxPointer::default();
                c.predicate_gas_used = 0;
            }
            Input::Contract(c) => {
                c.utxo_id = UtxoId::default();
                c.balance_root = Bytes32::zeroed();
                c.state_root = Bytes32::zeroed();
                c.tx_pointer = TxPointer::default();
            }
            Input::MessageCoinPredicate(m) => m.predicate_gas_used = 0,
            Input::MessageDataPredicate(m) => m.predicate_gas_used = 0,
            Input::MessageCoinSigned(_) | Input::MessageDataSigned(_) => {}
        }
    }
    for o in t.outputs_mut().iter_mut() {
        match o {
            Output::Contract(c) => {
                c.balance_root = Bytes32::zeroed();
                c.state_root = Bytes32::zeroed();
            }
            Output::Change { amount, .. } => *amount = 0,
            Output::Variable { to, amount, asset_id } => {
                *to = Address::zeroed();
                *amount = 0;
                *asset_id = AssetId::zeroed();
            }
            _ => {}
        }
    }
    t.witnesses_mut().clear();
    t
}

fn shape(tx: &Script) -> String {
    let ins: Vec<String> = tx
        .inputs()
        .iter()
        .map(|i| {
            format!(
                "{}:{}:{}:{}",
                variant_name(i),
                i.input_predicate().map(|p| p.len()).unwrap_or(0),
                i.input_predicate_data().map(|p| p.len()).unwrap_or(0),
                i.input_data().map(|p| p.len()).unwrap_or(0)
            )
        })
        .collect();
    let outs: Vec<String> = tx.outputs().iter().map(variant_name).collect();
    let wits: Vec<usize> = tx.witnesses().iter().map(|w| w.as_ref().len()).collect();
    format!("{ins:?}{outs:?}{wits:?}")
}

fn sweep_eval(k: usize, byte: usize, bit: u8, env: &Env, _ctx: &Ctx, acc: &mut Acc) {
    let tx = sweep_tx(k, env);
    let bytes = Transaction::Script(tx.clone()).to_bytes();
    let mut m = bytes.clone();
    m[byte] ^= 1 << bit;
    acc.evals += 1;
    let t2 = match guard::catch_any(|| Transaction::from_bytes(&m)) {
        Ok(Ok(Transaction::Script(t))) => t,
        Ok(_) => {
            acc.out("sweep:mutant-does-not-decode-as-script");
            return
        }
        Err(p) => {
            acc.viol("C20:sweep:host-panic", format!("decoding a mutant panicked: {p}"), json!({"part": "sweep", "tx": k, "byte": byte, "bit": bit}));
            return
        }
    };
    if Transaction::Script(t2.clone()).to_bytes() != m || shape(&t2) != shape(&tx) {
        acc.out("sweep:mutant-changes-structure");
        return
    }
    let r = guard::catch_any(|| t2.check_signatures(&env.chain).is_ok());
    if signed_content(&t2) == signed_content(&tx) {
        acc.out(format!("sweep:malleable-or-witness-byte:{}", if r == Ok(true) { "still-accepted" } else { "rejected" }));
        return
    }
    acc.out("sweep:signed-byte");
    acc.fps.insert(vcore::run::hash64(&("sweep", k, byte, bit)));
    if r != Ok(false) {
        acc.viol(
            "C20:sweep:signed-content-changed-but-accepted",
            format!("tx {k}: flipping bit {bit} of byte {byte} (of {}) changes signed content, check_signatures gave {r:?}", bytes.len()),
            json!({"part": "sweep", "tx": k, "byte": byte, "bit": bit}),
        );
    }
}

fn part_sweep(ctx: &Ctx, env: &Env) {
    let bits: u8 = ctx.pick(1, 8);
    let mut total = BTreeMap::new();
    let mut info = vec![];
    let mut lens = vec![];
    for k in 0..2usize {
        let tx = sweep_tx(k, env);
        assert!(tx.check_signatures(&env.chain).is_ok(), "sweep tx {k} must be accepted");
        let basic = tx.clone().into_checked_basic(BlockHeight::new(0), &env.cp).map(|_| ()).map_err(|e| basic_class(&e));
        let len = Transaction::Script(tx.clone()).to_bytes().len();
        lens.push(json!({"tx": k, "bytes": len, "inputs": tx.inputs().len(), "basic_checks": format!("{basic:?}")}));
        space::par_chunks(
            len as u64 * bits as u64,
            64,
            Acc::default,
            |i, acc| sweep_eval(k, (i / bits as u64) as usize, (i % bits as u64) as u8, env, ctx, acc),
            |a| a.merge_into(ctx, &mut total, &mut info),
        );
        if k == 1 {
            ctx.sample(json!({"part": "sweep", "tx": k, "encoding": hex(&Transaction::Script(tx).to_bytes())}));
        }
    }
    ctx.set("sweep", json!({"transactions": lens, "bits_per_byte": bits}));
}

// ------------------------------------------------------------------ part 3: predicate programs

const R0: u8 = 0x10;
const R1: u8 = 0x11;
const R2: u8 = 0x12;

const LETTERS: [&str; 15] = [
    "ret $one",
    "ret $zero",
    "noop",
    "movi r0 1",
    "add r0 r0 $one",
    "eq r0 r0 $one",
    "gm r2 GetVerifyingPredicate",
    "gtf r1 r2 InputCoinPredicateData",
    "lw r0 r1 0",
    "jnzf r0 $zero 1",
    "ret r0",
    "rvrt $zero",
    "bal r0 r0 r0 (contract opcode)",
    "aloc $one",
    "lb r0 $hp 0",
];

fn letter_ins(l: u8) -> Instruction {
    match l {
        0 => op::ret(RegId::ONE),
        1 => op::ret(RegId::ZERO),
        2 => op::noop(),
        3 => op::movi(R0, 1),
        4 => op::add(R0, R0, RegId::ONE),
        5 => op::eq(R0, R0, RegId::ONE),
        6 => op::gm_args(R2, GMArgs::GetVerifyingPredicate),
        7 => op::gtf_args(R1, R2, GTFArgs::InputCoinPredicateData),
        8 => op::lw(R0, R1, 0),
        9 => op::jnzf(R0, RegId::ZERO, 1),
        10 => op::ret(R0),
        11 => op::rvrt(RegId::ZERO),
        12 => op::bal(R0, R0, R0),
        13 => op::aloc(RegId::ONE),
        14 => op::lb(R0, RegId::HP, 0),
        _ => unreachable!(),
    }
}

fn prog_bytes(p: &[u8]) -> Vec<u8> {
    p.iter().map(|l| letter_ins(*l)).collect()
}

/// Reference semantics of the alphabet (from the instruction set specification): does the
/// predicate return 1, and how much gas do the executed instructions cost. The bytes that
/// follow a program in memory (padding / predicate data starting with 00 00 00 00) are not
/// a valid instruction, so running off the end fails. An instruction charges its cost
/// before it executes; a contract opcode is refused before any charge.
fn reference(code: &[u8], own: usize, datas: &[u64], id_word: u64, gc: &GasCosts) -> (bool, u64) {
    let (mut r0, mut r1, mut r2): (u64, Option<usize>, usize) = (0, None, 0);
    let mut allocs = 0u64;
    let mut gas = 0u64;
    let mut pc = 0usize;
    loop {
        if pc >= code.len() {
            return (false, gas)
        }
        match code[pc] {
            0 => return (true, gas + gc.ret()),
            1 => return (false, gas + gc.ret()),
            2 => gas += gc.noop(),
            3 => {
                gas += gc.movi();
                r0 = 1;
            }
            4 => {
                gas += gc.add();
                match r0.checked_add(1) {
                    Some(v) => r0 = v,
                    None => return (false, gas),
                }
            }
            5 => {
                gas += gc.eq_();
                r0 = (r0 == 1) as u64;
            }
            6 => {
                gas += gc.gm();
                r2 = own;
            }
            7 => {
                gas += gc.gtf();
                r1 = Some(r2);
            }
            8 => {
                gas += gc.lw();
                r0 = match r1 {
                    None => id_word,
                    Some(j) => datas[j],
                };
            }
            9 => {
                gas += gc.jnzf();
                if r0 != 0 {
                    pc += 2;
                    continue
                }
            }
            10 => return (r0 == 1, gas + gc.ret()),
            11 => return (false, gas + gc.rvrt()),
            12 => return (false, gas),
            13 => {
                gas += gc.aloc().resolve(1);
                allocs += 1;
            }
            14 => {
                gas += gc.lb();
                if allocs == 0 {
                    return (false, gas)
                }
                r0 = 0;
            }
            _ => unreachable!(),
        }
        pc += 1;
    }
}

fn data_word(pos: usize) -> u64 {
    if pos % 2 == 0 {
        1
    } else {
        2
    }
}

fn flip_owner(mut a: Address, bit: usize) -> Address {
    a[bit / 8] ^= 1 << (bit % 8);
    a
}

/// kind 0 coin, 1 message-coin, 2 message-data predicate input at position `pos`.
fn pred_input(pos: usize, kind: u8, owner: Address, gas: u64, code: Vec<u8>, data: Vec<u8>, base: AssetId) -> Input {
    let p = pos as u8;
    match kind {
        0 => Input::coin_predicate(
            UtxoId::new(Bytes32::from([p + 1; 32]), pos as u16),
            owner,
            1000,
            base,
            TxPointer::default(),
            gas,
            code,
            data,
        ),
        1 => Input::message_coin_predicate(Address::from([0xa0 + p; 32]), owner, 1000, Nonce::from([0xb0 + p; 32]), gas, code, data),
        _ => Input::message_data_predicate(
            Address::from([0xa0 + p; 32]),
            owner,
            1000,
            Nonce::from([0xb0 + p; 32]),
            gas,
            vec![0xdd; 3],
            code,
            data,
        ),
    }
}

fn pred_tx(codes: &[Vec<u8>], kinds: &[u8], gas: &[u64], flip: Option<(usize, usize)>, base: AssetId) -> Script {
    let inputs = (0..codes.len())
        .map(|j| {
            let mut owner = Input::predicate_owner(&codes[j]);
            if let Some((fj, bit)) = flip {
                if fj == j {
                    owner = flip_owner(owner, bit);
                }
            }
            pred_input(j, kinds[j], owner, gas[j], codes[j].clone(), data_word(j).to_be_bytes().to_vec(), base)
        })
        .collect();
    Transaction::script(0, vec![], vec![], Policies::new().with_max_fee(0), inputs, vec![], vec![])
}

const Q: [u8; 2] = [2, 0];
const R: [u8; 3] = [2, 2, 0];
const PLACEMENTS: [&str; 6] = ["[p]", "[p,Q]", "[Q,p]", "[Q,p,R]", "[p,Q,R]", "[Q,R,p]"];

fn placement(p: &[u8], k: usize) -> Vec<Vec<u8>> {
    let (q, r) = (Q.to_vec(), R.to_vec());
    match k {
        0 => vec![p.to_vec()],
        1 => vec![p.to_vec(), q],
        2 => vec![q, p.to_vec()],
        3 => vec![q, p.to_vec(), r],
        4 => vec![p.to_vec(), q, r],
        _ => vec![q, r, p.to_vec()],
    }
}

fn prog_text(p: &[u8]) -> Vec<&'static str> {
    p.iter().map(|l| LETTERS[*l as usize]).collect()
}

fn pred_eval(prog: &[u8], place: usize, env: &Env, ctx: &Ctx, acc: &mut Acc) {
    let progs = placement(prog, place);
    let n = progs.len();
    let codes: Vec<Vec<u8>> = progs.iter().map(|p| prog_bytes(p)).collect();
    let kinds = vec![0u8; n];
    let case = json!({"part": "pred", "prog": prog, "placement": place});
    let tx0 = pred_tx(&codes, &kinds, &vec![0; n], None, env.base);
    let id = tx0.id(&env.chain);
    let id_word = u64::from_be_bytes(id[..8].try_into().unwrap());
    let datas: Vec<u64> = (0..n).map(data_word).collect();
    let refs: Vec<(bool, u64)> = (0..n)
        .map(|j| reference(&progs[j], j, &datas, id_word, &env.cpp.gas_costs))
        .collect();
    let all_true = refs.iter().all(|r| r.0);
    let descr = |label: &str, gas: &[u64]| {
        format!(
            "program {:?} in placement {} (Q = noop;ret 1, R = noop;noop;ret 1), variant {label}, declared gas {gas:?}, reference (true?, gas) {refs:?}",
            prog_text(prog),
            PLACEMENTS[place]
        )
    };

    // estimation
    let (est, est_gas) = estimate_seq(&tx0, &env.cpp, MemoryInstance::new());
    acc.evals += 1;
    if let V::Panic(p) = &est {
        acc.viol("C20:pred:host-panic", format!("estimate_predicates panicked: {p}; {}", descr("estimate", &[])), case.clone());
    }
    acc.out(format!("pred:estimate={},all-true={}", est.label(), all_true));
    if est.is_ok() && !all_true {
        acc.cnt("info_estimate_ok_although_some_predicate_not_true", 1);
        if acc.info.is_empty() {
            acc.info.push(json!({"observation": "estimate_predicates returned Ok although a predicate does not return 1 (upstream tests pin this)", "case": descr("estimate", &est_gas)}));
        }
    }

    // variants of the transaction: (label, gas, owner flip)
    let mut variants: Vec<(String, Vec<u64>, Option<(usize, usize)>)> = vec![];
    let base_gas = if est.is_ok() { est_gas.clone() } else { refs.iter().map(|r| r.1).collect() };
    variants.push(("estimated".into(), base_gas.clone(), None));
    let ref_gas: Vec<u64> = refs.iter().map(|r| r.1).collect();
    if ref_gas != base_gas {
        variants.push(("reference-gas".into(), ref_gas.clone(), None));
    }
    for j in 0..n {
        let mut g = base_gas.clone();
        g[j] += 1;
        variants.push((format!("gas[{j}]+1"), g, None));
        if base_gas[j] > 0 {
            let mut g = base_gas.clone();
            g[j] -= 1;
            variants.push((format!("gas[{j}]-1"), g, None));
        }
        variants.push((format!("owner[{j}] bit 0 flipped"), base_gas.clone(), Some((j, 0))));
        if ctx.thorough() {
            variants.push((format!("owner[{j}] bit 255 flipped"), base_gas.clone(), Some((j, 255))));
        }
    }
    variants.push(("gas all 0".into(), vec![0; n], None));

    for (label, gas, flip) in &variants {
        let tx = pred_tx(&codes, &kinds, gas, *flip, env.base);
        let v = verify_seq(&tx, &env.cp, &env.cpp, MemoryInstance::new());
        acc.evals += 1;
        let why_not = if flip.is_some() {
            Some("owner")
        } else if !all_true {
            Some("not-true")
        } else if *gas != ref_gas {
            Some("gas")
        } else {
            None
        };
        match &v {
            V::Panic(p) => acc.viol("C20:pred:host-panic", format!("verification panicked: {p}; {}", descr(label, gas)), case.clone()),
            V::Ok(total) => {
                if let Some(w) = why_not {
                    acc.viol(
                        format!("C20:pred:accepted-unauthorized:{w}"),
                        format!("check_predicates Ok({total}) but the tx is not authorized ({w}): {}", descr(label, gas)),
                        case.clone(),
                    );
                }
                let sum: u64 = gas.iter().sum();
                if *total != sum {
                    acc.viol(
                        "C20:pred:total-gas",
                        format!("check_predicates Ok({total}) but the declared gas sums to {sum}: {}", descr(label, gas)),
                        case.clone(),
                    );
                }
            }
            V::Err(_) => {}
        }
        if label == "estimated" {
            if est.is_ok() && all_true && !v.is_ok() {
                acc.viol(
                    "C20:pred:estimate-ok-verify-rejects",
                    format!("estimation Ok, every predicate true per reference, but verification of the estimated tx gave {}: {}", v.label(), descr(label, gas)),
                    case.clone(),
                );
            }
            if let (V::Ok(e), V::Ok(t)) = (&est, &v) {
                if e != t {
                    acc.viol(
                        "C20:pred:estimate-total-vs-verify-total",
                        format!("estimation total {e} != verification total {t}: {}", descr(label, gas)),
                        case.clone(),
                    );
                }
            }
            // the trait method (sets the Predicates bit) must agree with the free function
            if let Ok(Ok(c)) = guard::catch_any(|| tx.clone().into_checked_basic(BlockHeight::new(0), &env.cp)) {
                let r = guard::catch_any(|| {
                    c.check_predicates(&env.cpp, MemoryInstance::new(), &EmptyStorage, NotSupportedEcal).is_ok()
                });
                if r != Ok(v.is_ok()) {
                    acc.viol(
                        "C20:pred:checked-method-differs",
                        format!("Checked::check_predicates gave {r:?}, predicates::check_predicates {}: {}", v.label(), descr(label, gas)),
                        case.clone(),
                    );
                }
            }
            if v.is_ok() {
                acc.fps.insert(vcore::run::hash64(&("pred", prog, place, gas)));
                if prog.len() >= 3 && prog.contains(&8) && place == 3 && ctx.sample_count() < 5 {
                    ctx.sample(json!({"part": "pred", "accepted": descr(label, gas), "total_gas": format!("{v:?}")}));
                }
            }
            acc.out(format!("pred:verify-estimated={}", v.label()));
        } else {
            let class = if label.starts_with("owner") {
                "owner-flip"
            } else if label.ends_with("+1") {
                "gas+1"
            } else if label.ends_with("-1") {
                "gas-1"
            } else if label.starts_with("reference") {
                "reference-gas"
            } else {
                "gas-all-0"
            };
            acc.out(format!("pred:verify-variant:{class}={}", if v.is_ok() { "Ok" } else { "Err" }));
        }
    }
}

fn part_pred(ctx: &Ctx, env: &Env) {
    let k = ctx.pick(3u32, 4u32);
    let a = LETTERS.len() as u64;
    let nprog = space::seq_count(a, k) - 1; // skip the empty program (cannot be encoded)
    let mut total = BTreeMap::new();
    let mut info = vec![];
    let mut capped = false;
    space::par_chunks(
        nprog,
        32,
        Acc::default,
        |i, acc| {
            if ctx.out_of_time() {
                acc.cnt("pred_skipped_out_of_time", 1);
                return
            }
            let prog: Vec<u8> = space::seq_at(a, k, i + 1).into_iter().map(|d| d as u8).collect();
            for place in 0..PLACEMENTS.len() {
                pred_eval(&prog, place, env, ctx, acc);
            }
            acc.cnt("pred_programs", 1);
        },
        |acc| {
            capped |= acc.counters.contains_key("pred_skipped_out_of_time");
            acc.merge_into(ctx, &mut total, &mut info)
        },
    );
    if capped {
        ctx.cap("predicate programs: time budget reached");
    }
    ctx.set(
        "pred",
        json!({"alphabet": LETTERS, "max_len": k, "programs": nprog, "placements": PLACEMENTS, "counters": total,
               "variants_per_tx": "estimated, reference-gas (if different), gas[j]+-1, owner[j] bit flip(s), all gas 0"}),
    );
    ctx.set("info_estimation_on_unverifiable", json!(info));
}

// ------------------------------------------------------------------ part 4: schedules x memory assignments

const ROLES: [&str; 12] = [
    "true: ret 1",
    "true: noop;noop;ret 1",
    "true iff own predicate data == 1 (gm;gtf;lw;ret)",
    "true iff a freshly allocated heap byte is 0 (aloc 1;lb;eq;ret)",
    "true iff a freshly extended stack byte is 0 (move;cfei 8;lb;eq;ret)",
    "true, writes 0x01 to heap and stack (aloc;sb;cfei;sb;ret 1)",
    "fails: ret 0",
    "fails: rvrt",
    "fails: contract opcode bal",
    "fails: noop;ret 1 with declared gas + 1",
    "fails: noop;noop;noop;ret 1 with declared gas - 1",
    "fails: ret 1 with one owner bit flipped",
];
const POS_KINDS: [u8; 4] = [0, 1, 2, 0];

fn role_code(role: u8, kind: u8) -> Vec<Instruction> {
    let (zero, one, hp, sp) = (RegId::ZERO, RegId::ONE, RegId::HP, RegId::SP);
    match role {
        0 | 11 => vec![op::ret(one)],
        1 => vec![op::noop(), op::noop(), op::ret(one)],
        2 => vec![
            op::gm_args(R2, GMArgs::GetVerifyingPredicate),
            op::gtf_args(R1, R2, if kind == 0 { GTFArgs::InputCoinPredicateData } else { GTFArgs::InputMessagePredicateData }),
            op::lw(R0, R1, 0),
            op::ret(R0),
        ],
        3 => vec![op::aloc(one), op::lb(R0, hp, 0), op::eq(R0, R0, zero), op::ret(R0)],
        4 => vec![op::move_(R1, sp), op::cfei(8), op::lb(R0, R1, 0), op::eq(R0, R0, zero), op::ret(R0)],
        5 => vec![op::aloc(one), op::sb(hp, one, 0), op::move_(R1, sp), op::cfei(8), op::sb(R1, one, 0), op::ret(one)],
        6 => vec![op::ret(zero)],
        7 => vec![op::rvrt(zero)],
        8 => vec![op::bal(R0, R0, R0)],
        9 => vec![op::noop(), op::ret(one)],
        10 => vec![op::noop(), op::noop(), op::noop(), op::ret(one)],
        // heap-reuse family
        20 | 21 => {
            let n: u32 = if role == 20 { 200 } else { 4096 };
            let mut c = vec![op::movi(R2, n), op::aloc(R2), op::not(R1, zero)];
            c.extend((0..n / 8).map(|w| op::sw(hp, R1, w as u16)));
            c.push(op::ret(one));
            c
        }
        22 | 23 | 24 => {
            let (first, second): (Option<u32>, u32) = match role {
                22 => (Some(8), 300),
                23 => (Some(8), 5000),
                _ => (None, 300),
            };
            let mut c = vec![];
            if let Some(a) = first {
                c.extend([op::movi(R2, a), op::aloc(R2)]);
            }
            c.extend([op::movi(R2, second), op::aloc(R2)]);
            for w in 0..second / 8 {
                c.extend([op::lw(R1, hp, w as u16), op::or(R0, R0, R1)]);
            }
            c.extend([op::eq(R0, R0, zero), op::ret(R0)]);
            c
        }
        25 => {
            let mut c = vec![op::move_(R2, sp), op::cfei(4096)];
            for w in 0..512u16 {
                c.extend([op::lw(R1, R2, w), op::or(R0, R0, R1)]);
            }
            c.extend([op::eq(R0, R0, zero), op::ret(R0)]);
            c
        }
        _ => unreachable!(),
    }
}

/// The transaction of a role sequence: gas = sequential estimate of the all-zero-gas tx,
/// then the per-role adjustments. Returns (tx with declared gas, tx with zero gas).
fn sched_txs(roles: &[u8], env: &Env) -> (Script, Script) {
    let n = roles.len();
    let kinds: Vec<u8> = (0..n).map(|j| POS_KINDS[j]).collect();
    let codes: Vec<Vec<u8>> = (0..n).map(|j| role_code(roles[j], kinds[j]).into_iter().collect()).collect();
    // own-data role needs data word 1 at its own position: use 1 everywhere here
    let mk = |gas: &[u64]| {
        let inputs = (0..n)
            .map(|j| {
                let mut owner = Input::predicate_owner(&codes[j]);
                if roles[j] == 11 {
                    owner = flip_owner(owner, 0);
                }
                pred_input(j, kinds[j], owner, gas[j], codes[j].clone(), 1u64.to_be_bytes().to_vec(), env.base)
            })
            .collect();
        Transaction::script(0, vec![], vec![], Policies::new().with_max_fee(0), inputs, vec![], vec![])
    };
    let tx0 = mk(&vec![0; n]);
    let (_, mut gas) = estimate_seq(&tx0, &env.cpp, MemoryInstance::new());
    for j in 0..n {
        match roles[j] {
            9 => gas[j] += 1,
            10 => gas[j] = gas[j].saturating_sub(1),
            _ => {}
        }
    }
    (mk(&gas), tx0)
}

const HEAP_ROLES: [&str; 6] = [
    "heap dirtier: aloc 200; every word := ff..ff; ret 1",
    "heap dirtier: aloc 4096; every word := ff..ff; ret 1",
    "heap prober: aloc 8; aloc 300; true iff all 37 words of the new allocation are 0",
    "heap prober: aloc 8; aloc 5000; true iff all 625 words of the new allocation are 0",
    "heap prober: aloc 300; true iff all 37 words are 0",
    "stack prober: cfei 4096; true iff all 512 words of the new frame are 0",
];
/// role ids of the heap-reuse family (plus role 0 = ret 1)
const HEAP_FAMILY: [u8; 7] = [20, 21, 22, 23, 24, 25, 0];
/// memory kinds handed out per family (indices into Env::tpl / MEM_NAMES)
const FAMILY_MEMS: [&[u8]; 2] = [&[0, 1, 2], &[0, 3, 4, 2]];

fn roles_text(roles: &[u8]) -> Vec<&'static str> {
    roles
        .iter()
        .map(|r| if *r >= 20 { HEAP_ROLES[*r as usize - 20] } else { ROLES[*r as usize] })
        .collect()
}

fn sched_eval(fam: usize, roles: &[u8], env: &Env, ctx: &Ctx, acc: &mut Acc) {
    let mems = FAMILY_MEMS[fam];
    let n = roles.len();
    let (tx, tx0) = sched_txs(roles, env);
    let case = json!({"part": "sched", "fam": fam, "roles": roles});
    let expect_ok = roles.iter().all(|r| *r <= 5 || *r >= 20);
    let seq = verify_seq(&tx, &env.cp, &env.cpp, MemoryInstance::new());
    acc.evals += 1;
    let base = format!("roles {:?}, declared gas {:?}", roles_text(roles), gas_vec(&tx));
    if let V::Err(c) = &seq {
        if c.starts_with("basic:") {
            acc.out(format!("sched:skipped:{c}"));
            return
        }
    }
    // the roles fix the expected verdict by construction (gas = sequential estimate, then adjusted)
    if seq.is_ok() && !expect_ok {
        acc.viol(
            "C20:sched:accepted-unauthorized",
            format!("sequential check_predicates gave {} although a role makes the tx unauthorized: {base}", seq.label()),
            case.clone(),
        );
    } else if !seq.is_ok() && expect_ok {
        acc.viol(
            "C20:sched:estimate-ok-verify-rejects",
            format!("every role is a true predicate with estimated gas, but sequential check_predicates gave {}: {base}", seq.label()),
            case.clone(),
        );
    }
    acc.out(format!("sched:sequential={}", if seq.is_ok() { "Ok" } else { "Err" }));
    // sequential path on reused dirty memory
    for k in mems[1..].iter().map(|k| *k as usize) {
        let v = verify_seq(&tx, &env.cp, &env.cpp, env.tpl[k].clone());
        acc.evals += 1;
        if let Some(w) = seq.agrees(&v) {
            acc.viol(
                format!("C20:seq-reused-memory:check-{w}"),
                format!("check_predicates on fresh memory {seq:?}, on {} memory {v:?}: {base}", MEM_NAMES[k]),
                case.clone(),
            );
        }
    }
    let (eseq, eseq_gas) = estimate_seq(&tx0, &env.cpp, MemoryInstance::new());
    for k in mems[1..].iter().map(|k| *k as usize) {
        let (v, g) = estimate_seq(&tx0, &env.cpp, env.tpl[k].clone());
        acc.evals += 1;
        if let Some(w) = eseq.agrees(&v).or(if eseq.is_ok() && g != eseq_gas { Some("gas") } else { None }) {
            acc.viol(
                format!("C20:seq-reused-memory:estimate-{w}"),
                format!("estimate_predicates on fresh memory {eseq:?} {eseq_gas:?}, on {} memory {v:?} {g:?}: {base}", MEM_NAMES[k]),
                case.clone(),
            );
        }
    }
    let checked = tx
        .clone()
        .into_checked_basic(BlockHeight::new(0), &env.cp)
        .expect("basic checks passed above");
    let mut perms = space::permutations(n);
    if fam != 0 {
        // run order cannot influence memory content in the parallel path (one memory per
        // task): identity and reversed order only
        let rev: Vec<usize> = (0..n).rev().collect();
        perms.retain(|p| p.iter().copied().eq(0..n) || *p == rev);
    }
    let assigns = space::Product::new(&vec![mems.len() as u64; n]);
    let mut distinct: HashSet<String> = HashSet::new();
    // heap-reuse family: memory content is what matters, so identity/reversed run order x every memory
    // assignment is checked with results in completion order, and estimation (whose gas does
    // not depend on memory content) only under the identity order
    let result_orders: &[bool] = if fam == 0 { &[false, true] } else { &[false] };
    let identity: Vec<usize> = (0..n).collect();
    for perm in &perms {
        for creation in result_orders.iter().copied() {
            for ai in 0..assigns.size() {
                let assign: Vec<u8> = assigns.digits(ai).into_iter().map(|d| mems[d as usize]).collect();
                let sched = || {
                    format!(
                        "run order {perm:?}, results returned in {} order, memory {:?}",
                        if creation { "creation" } else { "completion" },
                        assign.iter().map(|a| MEM_NAMES[*a as usize]).collect::<Vec<_>>()
                    )
                };
                // verification
                let p = check_par(&checked, &env.cpp, &env.tpl, perm, creation, &assign);
                acc.evals += 1;
                acc.cnt("schedules_check", 1);
                acc.cnt("task_completions", p.ran.len() as u64);
                if p.mismatch || p.created != n || (p.ran != *perm && !matches!(p.v, V::Panic(_))) {
                    panic!("harness executor did not run the requested schedule: created {} ran {:?} wanted {perm:?}", p.created, p.ran);
                }
                if let Some(w) = seq.agrees(&p.v) {
                    acc.viol(
                        format!("C20:seq-vs-par:check-{w}"),
                        format!("check_predicates {seq:?} vs check_predicates_async {:?} under {}: {base}", p.v, sched()),
                        case.clone(),
                    );
                }
                distinct.insert(format!("c:{}", p.v.label()));
                // estimation
                if fam != 0 && *perm != identity {
                    continue
                }
                let e = estimate_par(&tx0, &env.cpp, &env.tpl, perm, creation, &assign);
                acc.evals += 1;
                acc.cnt("schedules_estimate", 1);
                acc.cnt("task_completions", e.ran.len() as u64);
                if e.mismatch || e.created != n {
                    panic!("harness executor did not run the requested schedule (estimate)");
                }
                let cmp_text = || {
                    format!(
                        "estimate_predicates {eseq:?} per-input {eseq_gas:?} vs estimate_predicates_async {:?} per-input {:?} under {}: {base}",
                        e.v,
                        e.gas,
                        sched()
                    )
                };
                match est_cmp(&eseq, &eseq_gas, &e.v, &e.gas) {
                    EstCmp::Same => {}
                    EstCmp::InfoVerdict => {
                        acc.cnt("info_seq_vs_par_estimation_verdict_differs", 1);
                        if acc.info.is_empty() {
                            acc.info.push(json!({"observation": "sequential and parallel ESTIMATION verdicts differ (not fixed by the statement)", "case": cmp_text()}));
                        }
                    }
                    EstCmp::Viol(w) => acc.viol(format!("C20:seq-vs-par:estimate-{w}"), cmp_text(), case.clone()),
                }
                distinct.insert(format!("e:{}:{:?}", e.v.label(), e.gas));
            }
        }
    }
    // the trait method on Checked (identity schedule, fresh memory)
    set_schedule(&(0..n).collect::<Vec<_>>(), false);
    let pool = HPool::new(&[], &env.tpl);
    let r = guard::catch_any(|| {
        block_on(checked.clone().check_predicates_async::<NotSupportedEcal, HExec>(&env.cpp, &pool, &EmptyStorage, NotSupportedEcal)).is_ok()
    });
    if r != Ok(seq.is_ok()) {
        acc.viol(
            "C20:seq-vs-par:checked-method",
            format!("Checked::check_predicates_async gave {r:?}, sequential {seq:?}: {base}"),
            case.clone(),
        );
    }
    acc.cnt("sched_transactions", 1);
    acc.out(format!("sched:distinct-outcomes-per-tx={}", distinct.len()));
    if seq.is_ok() {
        acc.fps.insert(vcore::run::hash64(&("sched", fam, roles)));
    } else {
        acc.fps.insert(vcore::run::hash64(&("sched-rejected", roles)));
    }
    if n == 3 && (roles == [2, 5, 3] || roles == [20, 22, 25]) {
        ctx.sample(json!({"part": "sched", "roles": roles_text(roles), "declared_gas": gas_vec(&tx), "sequential": format!("{seq:?}"),
                          "schedules": perms.len() * 2 * assigns.size() as usize, "estimate_sequential": eseq_gas}));
    }
}

fn part_sched(ctx: &Ctx, env: &Env) {
    // all role sequences of length <= 3 over 12 roles; thorough adds length 4 over 6 roles
    let a = ROLES.len() as u64;
    let mut fam: Vec<(usize, Vec<u8>)> = (1..space::seq_count(a, 3))
        .map(|i| (0, space::seq_at(a, 3, i).into_iter().map(|d| d as u8).collect()))
        .collect();
    let four: [u8; 6] = [0, 1, 3, 5, 6, 9];
    if ctx.thorough() {
        let p = space::Product::new(&[6, 6, 6, 6]);
        for i in 0..p.size() {
            fam.push((0, p.digits(i).into_iter().rev().map(|d| four[d as usize]).collect()));
        }
    }
    // heap-reuse family: all role sequences of length <= 3 over 7 roles (a dirtier before a
    // prober in the same tx = sequential sharing; the pool hands dirtier-used memory to
    // probers); thorough adds length 4 over the two dirtiers and the two two-step probers
    let h = HEAP_FAMILY.len() as u64;
    let n_orig = fam.len();
    for i in 1..space::seq_count(h, 3) {
        fam.push((1, space::seq_at(h, 3, i).into_iter().map(|d| HEAP_FAMILY[d as usize]).collect()));
    }
    if ctx.thorough() {
        let p = space::Product::new(&[4, 4, 4, 4]);
        for i in 0..p.size() {
            fam.push((1, p.digits(i).into_iter().rev().map(|d| HEAP_FAMILY[d as usize]).collect()));
        }
    }
    let mut total = BTreeMap::new();
    let mut info = vec![];
    let mut capped = false;
    space::par_chunks(
        fam.len() as u64,
        4,
        Acc::default,
        |i, acc| {
            if ctx.out_of_time() {
                acc.cnt("sched_skipped_out_of_time", 1);
                return
            }
            sched_eval(fam[i as usize].0, &fam[i as usize].1, env, ctx, acc)
        },
        |acc| {
            capped |= acc.counters.contains_key("sched_skipped_out_of_time");
            acc.merge_into(ctx, &mut total, &mut info)
        },
    );
    if capped {
        ctx.cap("schedules: time budget reached");
    }
    ctx.set(
        "sched",
        json!({"roles": ROLES, "input_kind_by_position": ["coin", "message-coin", "message-data", "coin"],
               "family": format!("all role sequences of length 1..=3 over 12 roles{}", if ctx.thorough() { " + all of length 4 over roles [0,1,3,5,6,9]" } else { "" }),
               "transactions": n_orig,
               "heap_reuse_family": {"roles": HEAP_ROLES, "plus": "ret 1", "transactions": fam.len() - n_orig,
                                     "family": format!("all role sequences of length 1..=3 over 7 roles{}", if ctx.thorough() { " + all of length 4 over the 2 dirtiers and the 2 two-step probers" } else { "" }),
                                     "memory_kinds": ["fresh", "after-heap-dirtier-200", "after-heap-dirtier-4096", "dirty-script"]},
               "per_tx": "main family: n! run orders x {completion, creation} result order x 3^n memory assignments, for check_predicates_async and estimate_predicates_async; heap-reuse family: {identity, reversed} run order x 4^n memory assignments (completion order) for check_predicates_async, 4^n assignments for estimate_predicates_async; sequential functions also on every dirty memory kind",
               "memory_kinds": MEM_NAMES, "counters": total}),
    );
    ctx.set("info_seq_vs_par_estimation_verdict_sched", json!(info));
}

// ------------------------------------------------------------------ part 5: gas limits (allowance order)

const LIMIT_ROLES: [&str; 3] = ["ret 1", "noop x5; ret 1", "noop x20; ret 1"];

fn limit_code(role: u8) -> Vec<u8> {
    let noops = [0usize, 5, 20][role as usize];
    (0..noops).map(|_| op::noop()).chain([op::ret(RegId::ONE)]).collect()
}

fn limit_tx(roles: &[u8], gas: &[u64], env: &Env) -> Script {
    let codes: Vec<Vec<u8>> = roles.iter().map(|r| limit_code(*r)).collect();
    pred_tx(&codes, &vec![0; roles.len()], gas, None, env.base)
}

fn limit_params(env: &Env, max_gas_per_tx: u64, max_gas_per_predicate: u64) -> (ConsensusParameters, CheckPredicateParams) {
    let mut cp = env.cp.clone();
    cp.set_tx_params(TxParameters::DEFAULT.with_max_gas_per_tx(max_gas_per_tx));
    cp.set_predicate_params(PredicateParameters::DEFAULT.with_max_gas_per_predicate(max_gas_per_predicate));
    let cpp = CheckPredicateParams::from(&cp);
    (cp, cpp)
}

/// Needed gas per predicate (reference interpreter) and the tx's max_gas with
/// zero declared predicate gas.
fn limit_needs(roles: &[u8], env: &Env) -> (Vec<u64>, u64) {
    let tx0 = limit_tx(roles, &vec![0; roles.len()], env);
    // needs from the reference interpreter (noop = letter 2, ret $one = letter 0)
    let need: Vec<u64> = roles
        .iter()
        .map(|r| {
            let mut p = vec![2u8; [0usize, 5, 20][*r as usize]];
            p.push(0);
            reference(&p, 0, &[0], 0, &env.cpp.gas_costs).1
        })
        .collect();
    let b = tx0.max_gas(&env.cpp.gas_costs, &env.cpp.fee_params);
    (need, b)
}

fn limit_grid(need: &[u64]) -> (Vec<u64>, Vec<u64>) {
    let mut t: Vec<u64> = vec![0, 1, 1_000_000];
    let mut acc = 0;
    for g in need {
        acc += g;
        for v in [*g, acc] {
            t.extend([v.saturating_sub(1), v, v + 1]);
        }
    }
    t.push(acc * 2);
    t.sort();
    t.dedup();
    let mut pp: Vec<u64> = vec![1, 1_000_000];
    for g in need {
        pp.extend([g.saturating_sub(1), *g]);
    }
    pp.sort();
    pp.dedup();
    pp.reverse(); // generous per-predicate limit first: the first counterexample is the plainest one
    (t, pp)
}

fn limit_eval(roles: &[u8], extra: u64, pp: u64, env: &Env, ctx: &Ctx, acc: &mut Acc) {
    let n = roles.len();
    let (need, b) = limit_needs(roles, env);
    let (cp, cpp) = limit_params(env, b + extra, pp);
    let tx0 = limit_tx(roles, &vec![0; n], env);
    let case = json!({"part": "limit", "roles": roles, "extra": extra, "pp": pp});
    let fits = need.iter().all(|g| *g <= pp) && need.iter().sum::<u64>() <= extra;
    let base = format!(
        "all-true predicates {:?} needing gas {need:?}; max_gas_per_tx = (tx max_gas with zero predicate gas = {b}) + {extra}, max_gas_per_predicate = {pp}",
        roles.iter().map(|r| LIMIT_ROLES[*r as usize]).collect::<Vec<_>>()
    );
    let (eseq, eseq_gas) = estimate_seq(&tx0, &cpp, MemoryInstance::new());
    acc.evals += 1;
    let perms = space::permutations(n);
    let fresh = vec![0u8; n];
    let mut par_first: Option<(V, Vec<u64>)> = None;
    for perm in &perms {
        for creation in [false, true] {
            let e = estimate_par(&tx0, &cpp, &env.tpl, perm, creation, &fresh);
            acc.evals += 1;
            acc.cnt("limit_schedules", 1);
            let cmp_text = || {
                format!(
                    "estimate_predicates {eseq:?} per-input {eseq_gas:?} vs estimate_predicates_async {:?} per-input {:?} (run order {perm:?}): {base}",
                    e.v, e.gas
                )
            };
            match est_cmp(&eseq, &eseq_gas, &e.v, &e.gas) {
                EstCmp::Same => {}
                EstCmp::InfoVerdict => {
                    acc.cnt("info_seq_vs_par_estimation_verdict_differs", 1);
                    if acc.info.is_empty() {
                        acc.info.push(json!({"observation": "sequential and parallel ESTIMATION verdicts differ under tight gas limits (not fixed by the statement)",
                                             "case": cmp_text(), "replay_case": case.clone()}));
                    }
                }
                EstCmp::Viol(w) => acc.viol(format!("C20:seq-vs-par:estimate-{w}:gas-limit"), cmp_text(), case.clone()),
            }
            if par_first.is_none() {
                par_first = Some((e.v.clone(), e.gas.clone()));
            }
        }
    }
    let (epar, epar_gas) = par_first.unwrap();
    acc.out(format!("limit:fits={fits},seq-estimate={},par-estimate={}", eseq.label(), epar.label()));
    // estimation Ok => verification of the estimated transaction Ok (every predicate is true)
    for (path, ev, eg) in [("sequential", &eseq, &eseq_gas), ("parallel", &epar, &epar_gas)] {
        if !ev.is_ok() {
            continue
        }
        let tx = limit_tx(roles, eg, env);
        let v = verify_seq(&tx, &cp, &cpp, MemoryInstance::new());
        acc.evals += 1;
        match &v {
            V::Ok(total) => {
                if *total != eg.iter().sum::<u64>() {
                    acc.viol("C20:pred:total-gas", format!("verification total {total} != sum of estimated {eg:?}: {base}"), case.clone());
                }
                acc.fps.insert(vcore::run::hash64(&("limit", roles, extra, pp)));
            }
            V::Err(c) => {
                let class = c.split(':').next().unwrap_or("").to_string();
                let class = if class == "basic" { c.clone() } else { class };
                acc.viol(
                    format!("C20:estimate-ok-verify-rejects:{path}:{class}"),
                    format!("{path} estimation Ok with per-input gas {eg:?}, but verification of the estimated tx gave Err({c}): {base}"),
                    case.clone(),
                );
            }
            V::Panic(p) => acc.viol("C20:pred:host-panic", format!("verification panicked: {p}: {base}"), case.clone()),
        }
        // sequential vs parallel verification of the estimated transaction, all schedules
        if let Ok(Ok(checked)) = guard::catch_any(|| tx.clone().into_checked_basic(BlockHeight::new(0), &cp)) {
            for perm in &perms {
                for creation in [false, true] {
                    let p = check_par(&checked, &cpp, &env.tpl, perm, creation, &fresh);
                    acc.evals += 1;
                    acc.cnt("limit_schedules", 1);
                    if let Some(w) = v.agrees(&p.v) {
                        acc.viol(
                            format!("C20:seq-vs-par:check-{w}:gas-limit"),
                            format!("check_predicates {v:?} vs check_predicates_async {:?} (run order {perm:?}) on the {path}-estimated tx {eg:?}: {base}", p.v),
                            case.clone(),
                        );
                    }
                }
            }
        }
    }
    if fits && extra < 1_000 && pp < 1_000 && ctx.sample_count() < 8 && n == 2 {
        ctx.sample(json!({"part": "limit", "case": base, "seq_estimate": format!("{eseq:?} {eseq_gas:?}"), "par_estimate": format!("{epar:?} {epar_gas:?}")}));
    }
}

fn limit_family(max_n: u32) -> Vec<Vec<u8>> {
    (1..space::seq_count(3, max_n))
        .map(|i| space::seq_at(3, max_n, i).into_iter().map(|d| d as u8).collect())
        .collect()
}

fn part_limit(ctx: &Ctx, env: &Env) {
    let max_n = ctx.pick(2u32, 3u32);
    let mut cases: Vec<(Vec<u8>, u64, u64)> = vec![];
    for roles in limit_family(max_n) {
        let (need, _) = limit_needs(&roles, env);
        let (ts, pps) = limit_grid(&need);
        for t in &ts {
            for p in &pps {
                cases.push((roles.clone(), *t, *p));
            }
        }
    }
    let mut total = BTreeMap::new();
    let mut info = vec![];
    space::par_chunks(
        cases.len() as u64,
        16,
        Acc::default,
        |i, acc| {
            let (r, t, p) = &cases[i as usize];
            limit_eval(r, *t, *p, env, ctx, acc)
        },
        |acc| acc.merge_into(ctx, &mut total, &mut info),
    );
    ctx.set(
        "limit",
        json!({"roles": LIMIT_ROLES, "max_predicates": max_n, "parameter_points": cases.len(),
               "grid": "max_gas_per_tx = base + T, T in {0,1,g_i-1,g_i,g_i+1,prefix sums -1/0/+1,2*sum,1e6}; max_gas_per_predicate in {1,g_i-1,g_i,1e6}",
               "per_point": "n! x 2 schedules for estimate_predicates_async and for check_predicates_async of each estimated tx", "counters": total}),
    );
    ctx.set(
        "info_seq_vs_par_estimation_verdict_gas_limit",
        json!({"schedules_with_differing_verdict": total.get("info_seq_vs_par_estimation_verdict_differs").copied().unwrap_or(0),
               "why": "run_predicates shrinks a global allowance (an out-of-gas run is estimated as Ok), run_predicate_async gives every predicate min(per-predicate, per-tx) and then fails on the total",
               "first_examples": info}),
    );
}

// ------------------------------------------------------------------ driver

fn explore(ctx: &Ctx) {
    ctx.rule(
        "five enumerated spaces (sig, sweep, pred, sched, limit; see the file header); a case is non-trivial when the \
         real check ACCEPTED something (signatures accepted / predicates verified) or, for sweep, when the flipped byte \
         is signed content; distinct = distinct accepted configurations / signed bytes / schedule families",
    );
    ctx.assume("fuel_crypto sign/recover are correct (C16), tx id / canonical codec are correct (C01-C03); the recover-based signature oracle is cross-checked against the construction");
    ctx.assume("reference predicate interpreter: 15 letters, gas taken from the consensus gas table; bytes following a program are 00 00 00 00 (not an instruction)");
    ctx.assume("task closures contain no synchronisation, so every interleaving equals a permutation of whole tasks");
    ctx.set(
        "dont_care",
        json!([
            "which error is returned when verification/estimation fails",
            "per-input gas left in a transaction after a FAILED estimation",
            "whether malleable-field / witness byte flips keep check_signatures Ok (C03's business; counted only)",
            "estimation returning Ok for predicates that are not true or whose owner is wrong (pinned by upstream tests; recorded under info_estimation_on_unverifiable)",
            "acceptance of an all-true exact-gas transaction other than through estimate => verify",
            "Ok/Err verdict of sequential vs parallel ESTIMATION (only checking is required to agree); per-input gas is compared when both succeed"
        ]),
    );
    let env = Env::new();
    part_sig(ctx, &env);
    part_sweep(ctx, &env);
    part_pred(ctx, &env);
    part_sched(ctx, &env);
    part_limit(ctx, &env);
}

fn replay(case: &Value, ctx: &Ctx) {
    let env = Env::new();
    let mut acc = Acc::default();
    match case["part"].as_str() {
        Some("sig") => {
            let widx: Vec<u16> = case["widx"].as_array().unwrap().iter().map(|x| x.as_u64().unwrap() as u16).collect();
            sig_eval(
                &u8s(&case["kinds"]),
                &u8s(&case["owners"]),
                &widx,
                case["m"].as_u64().unwrap() as usize,
                Some(&u8s(&case["wit"])),
                &env,
                ctx,
                &mut acc,
            )
        }
        Some("sweep") => sweep_eval(
            case["tx"].as_u64().unwrap() as usize,
            case["byte"].as_u64().unwrap() as usize,
            case["bit"].as_u64().unwrap() as u8,
            &env,
            ctx,
            &mut acc,
        ),
        Some("pred") => pred_eval(&u8s(&case["prog"]), case["placement"].as_u64().unwrap() as usize, &env, ctx, &mut acc),
        Some("sched") => sched_eval(case["fam"].as_u64().unwrap_or(0) as usize, &u8s(&case["roles"]), &env, ctx, &mut acc),
        Some("limit") => limit_eval(&u8s(&case["roles"]), case["extra"].as_u64().unwrap(), case["pp"].as_u64().unwrap(), &env, ctx, &mut acc),
        other => panic!("unknown part {other:?}"),
    }
    acc.flush_viols(ctx);
}

fn main() {
    run_check("C20", Level::Exploration, explore, replay)
}
