//! C14 — Sparse Merkle proofs prove membership and non-membership exactly.
//!
//! Explicit-state BFS over the real `fuel_merkle::sparse::MerkleTree` (harness node
//! storage), same clustered UNHASHED key alphabet / values / actions as C12 (states are
//! reached through inserts, overwrites AND deletes; merged on (reference map, SHA-256 of
//! sorted node storage, root); rebuilt by replay). On every distinct state, for every
//! query key q ∈ alphabet ∪ {00…03, 55…56 (never inserted, inside clusters)}:
//!
//!  G1 `generate_proof(q)` is Ok and is an inclusion proof iff q is in the reference map;
//!  G2 an inclusion proof verifies (library verifier, real root) with the stored value and
//!     with no other value of {"", "a", "b", "c"};
//!  G3 an exclusion proof (generated iff absent) verifies for q;
//!  M  structured mutations, each judged by the library verifier AND by the harness's own
//!     compact-tree recomputation (smtmodel.rs: leaf = H(0x00,key,H(value)), node =
//!     H(0x01,l,r), empty = zero, fold along the key's bits, a terminal leaf carrying the
//!     queried key can never witness absence, more than 256 side nodes never verify):
//!       flip / remove / duplicate a proof element (every position for proofs of ≤ 16
//!       elements; for longer ones the 3 positions at each end, the middle, every
//!       non-placeholder element and its neighbours; every position on states of depth ≤ 1
//!       (quick) / ≤ 2 (thorough)), prepend / append a placeholder element,
//!       the proof for q used for every other query key q′ (inclusion: with every value),
//!       the terminal replaced by a leaf claiming the queried key (every value), also with
//!       an inclusion proof's side nodes,
//!       placeholder ↔ leaf swapped (placeholder → leaf of every other query key; leaf →
//!       placeholder; inclusion side nodes + placeholder terminal; exclusion leaf terminal
//!       used as inclusion proof for the terminal's key and for q).
//!     Required: library verdict == recomputation verdict (accept ⇔ the recomputation
//!     reaches the root), and SOUNDNESS against the reference map: an accepted inclusion
//!     claim (k, v) has map[k] == v, an accepted exclusion claim for k has k ∉ map.
//! Bound. quick: depth 4 over 8 keys (7,459 states; positional and other-key mutations
//!   on the 1,789 states of depth ≤ 3, all other claims on every state); thorough: depth 5
//!   over 10 keys (81,922 states, every mutation everywhere). States checked after the time
//!   budget ended get G1–G3 only and the run reports a cap.
//! Oracle independence: reference root `vcore::oracle::smt_root`; recomputation and
//!   soundness use only the reference map and sha2.

#[path = "../smtmodel.rs"]
mod smtmodel;

use smtmodel::*;
use std::collections::{
    BTreeMap,
    BTreeSet,
};
use vcore::{
    bfs::{
        self,
        Model,
    },
    json,
    oracle::{
        self,
        H256,
        ZERO,
    },
    run_check,
    Ctx,
    Level,
    Value,
};

const PROBE_VALUES: [&[u8]; 4] = [b"", b"a", b"b", b"c"];

struct M {
    nkeys: usize,
    /// states up to this depth get all mutation positions
    full_positions_depth: usize,
    /// states deeper than this get only G1–G3 + the cheap (non-positional) mutations
    positional_depth: usize,
    samples: std::sync::atomic::AtomicU64,
    late: std::sync::atomic::AtomicU64,
}

#[derive(Clone)]
struct St {
    hist: Vec<Act>,
    refc: Vec<(u8, u8)>,
    digest: H256,
    root: H256,
}

fn hx(h: &H256) -> String {
    hex::encode(h)
}

/// One verification claim put to both verifiers.
enum Claim<'a> {
    Incl { key: &'a H256, value: &'a [u8], side: &'a [H256] },
    Excl { key: &'a H256, leaf: &'a Option<(H256, H256)>, side: &'a [H256] },
}

struct Judge<'a> {
    m: &'a M,
    ctx: &'a Ctx,
    hist: &'a [Act],
    refm: &'a RefMap,
    root: H256,
    oc: BTreeMap<String, u64>,
    n: u64,
}

impl Judge<'_> {
    fn viol(&self, key: String, what: String, probe: Value) {
        self.ctx.violation(
            key,
            format!("after {:?}: {what}", hist_names(self.hist)),
            json!({"nkeys": self.m.nkeys, "actions": self.hist, "readable": hist_names(self.hist), "probe": probe}),
        );
    }

    /// Put one claim to the library and to the recomputation; compare; check soundness.
    /// Returns the library verdict.
    fn judge(&mut self, mutation: &str, q: &H256, claim: Claim) -> Option<bool> {
        self.n += 1;
        let (lib, mine, truth, desc) = match claim {
            Claim::Incl { key, value, side } => (
                lib_verify_incl(&self.root, key, value, side),
                my_verify_incl(&self.root, key, value, side),
                self.refm.get(key).map(|v| v.as_slice()) == Some(value),
                format!("inclusion claim {} -> {:?} with {} side nodes", kname(key), String::from_utf8_lossy(value), side.len()),
            ),
            Claim::Excl { key, leaf, side } => (
                lib_verify_excl(&self.root, key, leaf, side),
                my_verify_excl(&self.root, key, leaf, side),
                !self.refm.contains_key(key),
                format!(
                    "exclusion claim for {} with {} side nodes and terminal {}",
                    kname(key),
                    side.len(),
                    match leaf {
                        None => "placeholder".to_string(),
                        Some((k, _)) => format!("leaf {}", kname(k)),
                    }
                ),
            ),
        };
        let probe = json!({"mutation": mutation, "query": hex::encode(q)});
        let lib = match lib {
            Ok(b) => b,
            Err(p) => {
                self.viol(format!("C14:verify-panicked:{mutation}"), format!("{desc} (proof of {} mutated by {mutation}): verifier panicked: {p}", kname(q)), probe);
                return None
            }
        };
        *self.oc.entry(format!("verify:{mutation}:{}", if lib { "accept" } else { "reject" })).or_insert(0) += 1;
        if lib != mine {
            let dir = if lib { "library-accepts-recomputation-rejects" } else { "library-rejects-recomputation-accepts" };
            self.viol(format!("C14:{mutation}:{dir}"), format!("{desc} (from the proof generated for {}): library {lib}, recomputation {mine}", kname(q)), probe.clone());
        }
        if lib && !truth {
            self.viol(format!("C14:unsound:{mutation}"), format!("{desc} (from the proof generated for {}) is accepted against the real root but is false in the reference map", kname(q)), probe);
        }
        Some(lib)
    }
}

fn positions(side: &[H256], all: bool) -> Vec<usize> {
    let n = side.len();
    if all || n <= 16 {
        return (0..n).collect()
    }
    let mut s: BTreeSet<usize> = [0, 1, 2, n / 2, n - 3, n - 2, n - 1].into_iter().collect();
    for (i, e) in side.iter().enumerate() {
        if *e != ZERO {
            s.insert(i);
            if i > 0 {
                s.insert(i - 1);
            }
            if i + 1 < n {
                s.insert(i + 1);
            }
        }
    }
    s.into_iter().collect()
}

impl M {
    fn queries(&self) -> Vec<H256> {
        let mut q = all_keys()[..self.nkeys].to_vec();
        q.extend(absent_neighbours());
        q
    }

    fn state_of(&self, l: &Live, hist: Vec<Act>) -> St {
        St {
            hist,
            refc: ref_compact(&l.refm),
            digest: store_digest(&l.store),
            root: l.root(),
        }
    }

    fn state_checks(&self, hist: &[Act], ctx: &Ctx) {
        let l = match replay_hist(hist, false) {
            Ok(l) => l,
            Err(_) => return, // reported by `step`
        };
        let root = l.root();
        let eroot = ref_root(&l.refm);
        let qs = self.queries();
        let mut j = Judge {
            m: self,
            ctx,
            hist,
            refm: &l.refm,
            root,
            oc: BTreeMap::new(),
            n: 0,
        };
        if root != eroot {
            // C12's business, but proofs against a wrong root are meaningless: say so and stop
            j.viol("C14:root-differs-from-reference".into(), format!("root {} but reference {}", hx(&root), hx(&eroot)), json!({}));
            return
        }
        let depth = hist.len();
        // past the time budget: only G1–G3 on the remaining states, reported as a cap
        let late = !ctx.replaying && ctx.out_of_time();
        if late {
            self.late.fetch_add(1, std::sync::atomic::Ordering::Relaxed);
        }
        let positional = depth <= self.positional_depth;
        let all_pos = depth <= self.full_positions_depth;
        let mut briefs = Vec::new();
        let mut longest = 0usize;
        for q in qs.iter() {
            let probe = json!({"query": hex::encode(q)});
            let present = l.refm.get(q).cloned();
            let p = match gen_proof(&l.tree, q) {
                Ok(p) => p,
                Err(e) => {
                    j.viol("C14:generate_proof:failed".into(), format!("generate_proof({}) -> {e:?}", kname(q)), probe);
                    continue
                }
            };
            briefs.push(format!("{}: {}", kname(q), p.brief()));
            longest = longest.max(p.side().len());
            *j.oc.entry(format!("generated:{}:{}", if present.is_some() { "present" } else { "absent" }, if p.is_incl() { "inclusion" } else { "exclusion" })).or_insert(0) += 1;
            // information only: the generated proof equals the one the definition prescribes
            *j.oc.entry(if p == ref_proof(&l.refm, q) { "generated:equals-canonical-proof".to_string() } else { "generated:differs-from-canonical-proof".to_string() }).or_insert(0) += 1;
            // G1
            if p.is_incl() != present.is_some() {
                j.viol(
                    format!("C14:kind:{}", if present.is_some() { "present-key-got-exclusion" } else { "absent-key-got-inclusion" }),
                    format!("generate_proof({}) = {} but the key is {}", kname(q), p.brief(), if present.is_some() { "present" } else { "absent" }),
                    probe.clone(),
                );
            }
            let side = p.side().clone();
            match &p {
                P::Incl(_) => {
                    // G2
                    for v in PROBE_VALUES {
                        let stored = present.as_deref() == Some(v);
                        let r = j.judge("none", q, Claim::Incl { key: q, value: v, side: &side });
                        if let Some(acc) = r {
                            if stored && !acc {
                                j.viol("C14:inclusion:stored-value-rejected".into(), format!("inclusion proof of {} does not verify with its stored value", kname(q)), probe.clone());
                            }
                            if !stored && acc {
                                j.viol("C14:inclusion:other-value-accepted".into(), format!("inclusion proof of {} verifies with {:?}", kname(q), String::from_utf8_lossy(v)), probe.clone());
                            }
                        }
                    }
                }
                P::Excl(_, leaf) => {
                    // G3
                    let r = j.judge("none", q, Claim::Excl { key: q, leaf, side: &side });
                    if r == Some(false) && present.is_none() {
                        j.viol("C14:exclusion:absent-key-rejected".into(), format!("generated exclusion proof of absent {} does not verify", kname(q)), probe.clone());
                    }
                }
            }

            if late {
                continue
            }
            // ---- mutations. `ask` re-asks the original question with other side nodes.
            let orig_leaf = match &p {
                P::Excl(_, l) => l.clone(),
                P::Incl(_) => None,
            };
            let stored_or_a: Vec<u8> = present.clone().unwrap_or_else(|| b"a".to_vec());
            let ask = |j: &mut Judge, name: &str, side: &[H256]| match &p {
                P::Incl(_) => {
                    j.judge(name, q, Claim::Incl { key: q, value: &stored_or_a, side });
                }
                P::Excl(..) => {
                    j.judge(name, q, Claim::Excl { key: q, leaf: &orig_leaf, side });
                }
            };
            if positional {
                for i in positions(&side, all_pos) {
                    let mut s = side.clone();
                    s[i][0] ^= 1;
                    ask(&mut j, "flip-element", &s);
                    let mut s = side.clone();
                    s.remove(i);
                    ask(&mut j, "remove-element", &s);
                    let mut s = side.clone();
                    s.insert(i, side[i]);
                    ask(&mut j, "duplicate-element", &s);
                }
            }
            let mut s = side.clone();
            s.insert(0, ZERO);
            ask(&mut j, "prepend-placeholder", &s);
            let mut s = side.clone();
            s.push(ZERO);
            ask(&mut j, "append-placeholder", &s);

            // proof for q used for q' (states within the positional bound)
            for q2 in qs.iter().filter(|x| positional && *x != q) {
                match &p {
                    P::Incl(_) => {
                        for v in PROBE_VALUES {
                            j.judge("other-key", q, Claim::Incl { key: q2, value: v, side: &side });
                        }
                    }
                    P::Excl(_, leaf) => {
                        j.judge("other-key", q, Claim::Excl { key: q2, leaf, side: &side });
                    }
                }
            }

            // terminal replaced by a leaf claiming the queried key
            for v in PROBE_VALUES {
                let leaf = Some((*q, oracle::sha256(&[v])));
                j.judge("leaf-claims-queried-key", q, Claim::Excl { key: q, leaf: &leaf, side: &side });
            }

            // placeholder <-> leaf
            match &p {
                P::Incl(_) => {
                    j.judge("inclusion-as-placeholder-exclusion", q, Claim::Excl { key: q, leaf: &None, side: &side });
                }
                P::Excl(_, None) => {
                    for q2 in qs.iter().filter(|x| *x != q) {
                        let leaf = Some((*q2, oracle::sha256(&[b"a"])));
                        j.judge("placeholder-to-leaf", q, Claim::Excl { key: q, leaf: &leaf, side: &side });
                    }
                    for v in PROBE_VALUES {
                        j.judge("exclusion-as-inclusion", q, Claim::Incl { key: q, value: v, side: &side });
                    }
                }
                P::Excl(_, Some((lk, _))) => {
                    j.judge("leaf-to-placeholder", q, Claim::Excl { key: q, leaf: &None, side: &side });
                    for v in PROBE_VALUES {
                        j.judge("exclusion-as-inclusion", q, Claim::Incl { key: lk, value: v, side: &side });
                        j.judge("exclusion-as-inclusion", q, Claim::Incl { key: q, value: v, side: &side });
                    }
                }
            }
        }
        ctx.evals(j.n);
        *j.oc.entry(format!("state:keys={}", l.refm.len())).or_insert(0) += 1;
        ctx.outcomes_merge(&j.oc);
        if !l.refm.is_empty() {
            ctx.fp_of(&(&ref_compact(&l.refm), &store_digest(&l.store)));
        }
        if depth >= 3 && l.refm.len() >= 3 && longest >= 255 && self.samples.fetch_add(1, std::sync::atomic::Ordering::Relaxed) < 4 {
            ctx.sample(json!({
                "actions": hist_names(hist),
                "root": hx(&root),
                "generated": briefs,
                "verifier_calls_on_this_state": j.n,
                "verdicts_on_this_state": j.oc,
            }));
        }
    }
}

impl Model for M {
    type State = St;
    type Action = Act;
    type Key = (Vec<(u8, u8)>, H256, H256);

    fn init(&self) -> St {
        self.state_of(&Live::new(false), vec![])
    }

    fn actions(&self, _s: &St) -> Vec<Act> {
        alphabet(self.nkeys)
    }

    fn step(&self, s: &St, a: &Act, _path: &[Act], ctx: &Ctx) -> Option<St> {
        let mut h = s.hist.clone();
        h.push(a.clone());
        match replay_hist(&h, false) {
            Ok(l) => Some(self.state_of(&l, h)),
            Err((i, e)) => {
                ctx.violation(
                    "C14:op-failed".to_string(),
                    format!("after {:?}: {e}", hist_names(&h[..=i])),
                    json!({"nkeys": self.nkeys, "actions": &h[..=i], "readable": hist_names(&h[..=i])}),
                );
                None
            }
        }
    }

    fn key(&self, s: &St) -> Self::Key {
        (s.refc.clone(), s.digest, s.root)
    }

    fn check(&self, s: &St, _path: &[Act], ctx: &Ctx) {
        self.state_checks(&s.hist, ctx);
    }
}

fn explore(ctx: &Ctx) {
    self_test();
    ctx.rule(
        "explicit-state BFS over the real sparse::MerkleTree (states merged on reference map + node storage digest + \
         root); on every state every query key gets generate_proof + the listed verifier claims; a case is one \
         verifier claim; non-trivial state = map holds >=1 key; distinct = distinct (map, storage) states.",
    );
    ctx.assume("sha2 crate and the harness compact-SMT reference/recomputation are correct; SHA-256 is collision free on the explored inputs");
    ctx.assume("insert(k, \"\") stores a leaf with value hash H(\"\"); only delete removes a key (see smtmodel.rs)");
    ctx.set(
        "dont_care",
        json!([
            "whether the generated proof equals the canonical proof of the definition (reported in the histogram only)",
            "verifier verdicts are only compared for the listed claims; roots other than the tree's real root are not used",
        ]),
    );
    let (nkeys, depth, positional_depth, full_positions_depth) = ctx.pick((8usize, 4usize, 3usize, 1usize), (10, 5, 5, 2));
    let keys = all_keys();
    ctx.set(
        "alphabet",
        json!({
            "keys": keys[..nkeys].iter().map(hex::encode).collect::<Vec<_>>(),
            "values": VALUE_NAMES,
            "probe_values": ["", "a", "b", "c"],
            "actions": alphabet(nkeys).len(),
            "query_keys_extra": absent_neighbours().iter().map(hex::encode).collect::<Vec<_>>(),
        }),
    );
    ctx.set(
        "mutation_bounds",
        json!({
            "positional_and_other_key_mutations_on_states_up_to_depth": positional_depth,
            "all_positions_on_states_up_to_depth": full_positions_depth,
            "otherwise": "all positions for proofs of <=16 elements; else 3 at each end, the middle, every non-placeholder element and its neighbours",
        }),
    );
    let m = M {
        nkeys,
        full_positions_depth,
        positional_depth,
        samples: Default::default(),
        late: Default::default(),
    };
    let st = bfs::bfs(&m, depth, 3_000_000, ctx);
    let late = m.late.load(std::sync::atomic::Ordering::Relaxed);
    if late > 0 {
        ctx.cap(format!("time budget ended inside the last BFS level: {late} states got G1-G3 only (no mutations)"));
    }
    ctx.set(
        "bfs",
        json!({"depth_bound": depth, "completed_depth": st.completed_depth, "states": st.states, "transitions": st.transitions, "per_depth": st.per_depth, "capped": st.capped}),
    );
}

fn replay(case: &Value, ctx: &Ctx) {
    self_test();
    let acts: Vec<Act> = serde_json::from_value(case["actions"].clone()).expect("actions");
    let nkeys = case["nkeys"].as_u64().expect("nkeys") as usize;
    // replay uses the strongest mutation set on every state of the path
    let m = M {
        nkeys,
        full_positions_depth: usize::MAX,
        positional_depth: usize::MAX,
        samples: std::sync::atomic::AtomicU64::new(u64::MAX / 2),
        late: Default::default(),
    };
    bfs::replay_path(&m, &acts, ctx);
}

fn main() {
    tune_allocator();
    run_check("C14", Level::ModelChecking, explore, replay)
}
