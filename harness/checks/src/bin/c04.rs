//! C04 — Reported field offsets locate the field's bytes in the encoding.
//!
//! Space (bounded exhaustive enumeration, generators in `../txcorpus.rs`):
//!  * quick: the star sub-product of TX(2) (every dimension — 128 policy sets, 57 input
//!    lists, 31 output lists, 111 witness lists, the body — over its full domain at two
//!    base points, all input-kind × output-kind pairs, six chargeable kinds) plus 1,296
//!    Mint values; each transaction WITHOUT and WITH `precompute`d metadata; where
//!    `precompute` refuses a corpus transaction for a reason unrelated to offsets (Create
//!    without bytecode witness, Upgrade whose witness does not hold consensus parameters)
//!    the minimally repaired copy (`txlayout::repaired_for_precompute`) is checked as well;
//!  * thorough: additionally the full product kind(6) × body(2) × witness lists(111) ×
//!    output lists(31) × input lists(57), one policy set after the other (order
//!    `POLICY_SEGMENTS`), until the time budget is used up (cap reported).
//!
//! Oracle. For every offset accessor the library exposes —
//!   tx level: `policies_offset`, `inputs_offset`, `inputs_offset_at(i)`,
//!   `inputs_predicate_offset_at(i)` (offset, padded length), `outputs_offset(_at)`,
//!   `witnesses_offset(_at)`; Script `script_gas_limit_offset`, `receipts_root_offset`,
//!   `script_offset`, `script_data_offset`; Create `bytecode_witness_index_offset`,
//!   `salt_offset`, `storage_slots_offset_static`, `storage_slots_offset_at(i)`; Upgrade
//!   `upgrade_purpose_offset`; Upload `bytecode_root_offset`, `bytecode_witness_index_offset`,
//!   `subsection_index_offset`, `subsections_number_offset`, `proof_set_offset(_at)`; Blob
//!   `blob_id_offset`, `bytecode_witness_index_offset`; Mint `tx_pointer_offset`,
//!   `input_contract_offset`, `output_contract_offset`, `mint_amount_offset`,
//!   `mint_asset_id_offset`, `gas_price_offset`;
//!   per input (relative to the input): every `InputRepr::*_offset`, `Input::predicate_offset`,
//!   `predicate_data_offset`, `predicate_len`, `predicate_data_len`, the static
//!   `Input::coin_predicate_offset()/message_data_offset()`;
//!   per output: every `OutputRepr::*_offset` —
//!  1. a reported `Some(offset)` equals the position the hand-written layout walker
//!     (`../txlayout.rs`, independent of all offset functions) gives to that field, and
//!     `tx.to_bytes()[offset .. offset+len]` equals the field's own canonical bytes (its
//!     `to_bytes()`, the big-endian word, the raw id, the vector content + zero padding);
//!  2. `None` is only reported for a field that does not exist / is empty in that value;
//!     `_at(i)` for i = count, count+1 reports `None`;
//!  3. the walker's own encoding equals `tx.to_bytes()` (validates the walker itself);
//!  4. every accessor gives the same answer on the precomputed transaction;
//!  5. histories of cache states (star corpus, all kinds): `precompute; EDIT; precompute`
//!     for every EDIT of a 19-letter alphabet of layout-shifting edits made through the
//!     public `*_mut` accessors on the PRECOMPUTED value (none, push/pop witness, lengthen
//!     a witness by 1/8, insert/remove the first input, insert/remove the first output,
//!     lengthen the first predicate by 1/8, predicate data by 1, message data by 8, toggle
//!     the Tip / Maturity policy, script +1, script data +8, push a storage slot, push a
//!     proof-set entry); after the FINAL precompute every accessor must answer exactly as
//!     on the same value without metadata (decode of its encoding), whose answers are in
//!     turn checked against the walker and the bytes (1–3). Nothing is demanded between
//!     the edit and the second precompute (the cache is documented as possibly stale).
//!
//! Keys: `C04:<owner>:<accessor>:<class>`; owner = tx kind (`Chargeable` for the cached
//! input/output/witness tables shared by all kinds), `InputRepr::Coin|Contract|Message`
//! for the per-wire-type tables, `Input::Variant` or `Output::Variant`; class in {offset,
//! bytes, length, missing, out-of-range, cached-differs, stale-after-re-precompute (owner
//! = tx kind, accessor = the first one in encoding order that differs), encoding,
//! panic}. Within one transaction a wrong offset whose error
//! (reported − expected) equals an error already reported for an earlier field of the
//! same transaction is counted as a cascade, not as another violation.

#[path = "../txcorpus.rs"]
mod txcorpus;
#[path = "../txlayout.rs"]
mod txlayout;

use fuel_tx::{
    field,
    Cacheable,
    Input,
    InputRepr,
    Output,
    OutputRepr,
    Transaction,
};
use fuel_types::{
    canonical::{
        Deserialize,
        Serialize,
    },
    ChainId,
};
use std::collections::{
    BTreeMap,
    HashSet,
};
use txcorpus::CorpusLevel;
use txlayout::{
    input_class,
    output_class,
    pad8,
    tx_kind,
    Layout,
};
use vcore::{
    guard,
    json,
    run::hash64,
    run_check,
    space,
    Ctx,
    Level,
    Value,
};

// ------------------------------------------------------------------ accumulator

#[derive(Default)]
struct Acc {
    evals: u64,
    fps: HashSet<u64>,
    outcomes: BTreeMap<String, u64>,
    viols: BTreeMap<String, (String, Value, u64)>,
}

impl Acc {
    fn outcome(&mut self, label: &str) {
        *self.outcomes.entry(label.to_string()).or_insert(0) += 1;
    }

    fn viol(&mut self, key: String, what: &dyn Fn() -> String, case: &Value) {
        match self.viols.get_mut(&key) {
            Some(e) => e.2 += 1,
            None => {
                self.viols.insert(key, (what(), case.clone(), 1));
            }
        }
    }

    fn flush(self, ctx: &Ctx) {
        ctx.evals(self.evals);
        ctx.fps_merge(self.fps);
        ctx.outcomes_merge(&self.outcomes);
        for (key, (what, case, n)) in self.viols {
            ctx.violation(key.clone(), what, case);
            for _ in 1..n {
                ctx.violation(key.clone(), "", Value::Null);
            }
        }
    }
}

// ------------------------------------------------------------------ observations

const ABSENT: &str = "<absent>";

#[derive(Clone, Debug, PartialEq, Eq)]
struct Obs {
    /// tx kind, `Input::Variant` or `Output::Variant` (key component)
    owner: String,
    /// accessor name (key component)
    acc: &'static str,
    /// index argument, if any (not part of the key)
    idx: Option<usize>,
    /// what the library reported
    got: Option<usize>,
    /// second component of `inputs_predicate_offset_at` (the padded length)
    got_len: Option<usize>,
    /// walker path / mark the accessor is documented to point at
    path: String,
    /// for offsets relative to an input / output: walker path of that element
    base: Option<String>,
    /// the field's own canonical bytes according to the subject
    own: Option<Vec<u8>>,
    /// index >= count probe: must be `None`
    out_of_range: bool,
    /// the accessor reports a LENGTH (compared with the walker's length word at `path`)
    is_len: bool,
}

fn be(v: u64) -> Option<Vec<u8>> {
    Some(v.to_be_bytes().to_vec())
}

fn padded(b: &[u8]) -> Vec<u8> {
    let mut v = b.to_vec();
    v.resize(pad8(b.len()), 0);
    v
}

fn when(cond: bool, path: String) -> String {
    if cond {
        path
    } else {
        ABSENT.to_string()
    }
}

struct Rec {
    v: Vec<Obs>,
}

impl Rec {
    fn tx(&mut self, kind: &str, acc: &'static str, idx: Option<usize>, got: Option<usize>, path: &str, own: Option<Vec<u8>>) {
        self.v.push(Obs {
            owner: kind.to_string(),
            acc,
            idx,
            got,
            got_len: None,
            path: path.to_string(),
            base: None,
            own,
            out_of_range: false,
            is_len: false,
        });
    }

    fn oor(&mut self, kind: &str, acc: &'static str, idx: usize, got: Option<usize>, path: String) {
        self.v.push(Obs {
            owner: kind.to_string(),
            acc,
            idx: Some(idx),
            got,
            got_len: None,
            path,
            base: None,
            own: None,
            out_of_range: true,
            is_len: false,
        });
    }

    fn rel(&mut self, owner: &str, acc: &'static str, got: Option<usize>, base: &str, path: String, own: Option<Vec<u8>>) {
        self.v.push(Obs {
            owner: owner.to_string(),
            acc,
            idx: None,
            got,
            got_len: None,
            path,
            base: Some(base.to_string()),
            own,
            out_of_range: false,
            is_len: false,
        });
    }

    fn len(&mut self, owner: &str, acc: &'static str, got: Option<usize>, path: String) {
        self.v.push(Obs {
            owner: owner.to_string(),
            acc,
            idx: None,
            got,
            got_len: None,
            path,
            base: None,
            own: None,
            out_of_range: false,
            is_len: true,
        });
    }
}

fn observe_input(r: &mut Rec, base: &str, inp: &Input) {
    let rp: InputRepr = inp.repr();
    // the InputRepr tables are per wire type (Coin / Contract / Message), not per variant
    let o = match rp {
        InputRepr::Coin => "InputRepr::Coin",
        InputRepr::Contract => "InputRepr::Contract",
        InputRepr::Message => "InputRepr::Message",
    };
    let is_coin = rp == InputRepr::Coin;
    let is_msg = rp == InputRepr::Message;
    let is_contract = rp == InputRepr::Contract;
    let is_pred = matches!(
        inp,
        Input::CoinPredicate(_) | Input::MessageCoinPredicate(_) | Input::MessageDataPredicate(_)
    );
    let p = |s: &str| format!("{base}.{s}");
    let raw = |b: Option<&[u8]>| b.map(|x| x.to_vec());

    r.rel(o, "InputRepr::utxo_id_offset", rp.utxo_id_offset(), base, p("utxoId"), inp.utxo_id().map(|u| u.to_bytes()));
    r.rel(
        o,
        "InputRepr::owner_offset",
        rp.owner_offset(),
        base,
        if is_msg { p("recipient") } else { p("owner") },
        inp.input_owner().map(|a| a.to_vec()),
    );
    let asset = match inp {
        Input::CoinSigned(c) => Some(c.asset_id.to_vec()),
        Input::CoinPredicate(c) => Some(c.asset_id.to_vec()),
        _ => None,
    };
    r.rel(o, "InputRepr::asset_id_offset", rp.asset_id_offset(), base, p("assetId"), asset);
    r.rel(
        o,
        "InputRepr::data_offset",
        rp.data_offset(),
        base,
        when(is_msg, p("data")),
        if is_msg { Some(padded(inp.input_data().unwrap_or(&[]))) } else { None },
    );
    r.rel(
        o,
        "InputRepr::coin_predicate_offset",
        rp.coin_predicate_offset(),
        base,
        when(is_coin, p("predicate")),
        if is_coin { Some(padded(inp.input_predicate().unwrap_or(&[]))) } else { None },
    );
    r.rel(
        o,
        "InputRepr::contract_balance_root_offset",
        rp.contract_balance_root_offset(),
        base,
        when(is_contract, p("balanceRoot")),
        inp.balance_root().map(|b| b.to_vec()),
    );
    r.rel(
        o,
        "InputRepr::contract_state_root_offset",
        rp.contract_state_root_offset(),
        base,
        when(is_contract, p("stateRoot")),
        inp.state_root().map(|b| b.to_vec()),
    );
    r.rel(
        o,
        "InputRepr::contract_id_offset",
        rp.contract_id_offset(),
        base,
        when(is_contract, p("contractId")),
        inp.contract_id().map(|b| b.to_vec()),
    );
    r.rel(o, "InputRepr::message_sender_offset", rp.message_sender_offset(), base, p("sender"), inp.sender().map(|b| b.to_vec()));
    r.rel(
        o,
        "InputRepr::message_recipient_offset",
        rp.message_recipient_offset(),
        base,
        p("recipient"),
        inp.recipient().map(|b| b.to_vec()),
    );
    r.rel(o, "InputRepr::message_nonce_offset", rp.message_nonce_offset(), base, p("nonce"), inp.nonce().map(|b| b.to_vec()));
    r.rel(o, "InputRepr::tx_pointer_offset", rp.tx_pointer_offset(), base, p("txPointer"), inp.tx_pointer().map(|t| t.to_bytes()));

    // static helpers and value-dependent accessors belong to the Input variant
    let o = input_class(inp);
    if is_coin {
        r.rel(o, "Input::coin_predicate_offset()", Some(Input::coin_predicate_offset()), base, p("predicate"), None);
    }
    if is_msg {
        r.rel(o, "Input::message_data_offset()", Some(Input::message_data_offset()), base, p("data"), None);
    }

    r.rel(
        o,
        "Input::predicate_offset",
        inp.predicate_offset(),
        base,
        when(is_pred, p("predicate")),
        if is_pred { raw(inp.input_predicate()).map(|b| padded(&b)) } else { None },
    );
    r.rel(
        o,
        "Input::predicate_data_offset",
        inp.predicate_data_offset(),
        base,
        when(is_pred, p("predicateData")),
        if is_pred { raw(inp.input_predicate_data()).map(|b| padded(&b)) } else { None },
    );
    r.len(o, "Input::predicate_len", inp.predicate_len(), p("predicateLength"));
    r.len(o, "Input::predicate_data_len", inp.predicate_data_len(), p("predicateDataLength"));
}

fn observe_output(r: &mut Rec, base: &str, out: &Output) {
    let o = output_class(out);
    let rp: OutputRepr = out.repr();
    let is_contract = matches!(out, Output::Contract(_));
    let is_created = matches!(out, Output::ContractCreated { .. });
    let p = |s: &str| format!("{base}.{s}");
    r.rel(o, "OutputRepr::to_offset", rp.to_offset(), base, p("to"), out.to().map(|a| a.to_vec()));
    r.rel(o, "OutputRepr::asset_id_offset", rp.asset_id_offset(), base, p("assetId"), out.asset_id().map(|a| a.to_vec()));
    r.rel(
        o,
        "OutputRepr::contract_balance_root_offset",
        rp.contract_balance_root_offset(),
        base,
        when(is_contract, p("balanceRoot")),
        if is_contract { out.balance_root().map(|a| a.to_vec()) } else { None },
    );
    r.rel(
        o,
        "OutputRepr::contract_state_root_offset",
        rp.contract_state_root_offset(),
        base,
        when(is_contract, p("stateRoot")),
        if is_contract { out.state_root().map(|a| a.to_vec()) } else { None },
    );
    r.rel(
        o,
        "OutputRepr::contract_created_state_root_offset",
        rp.contract_created_state_root_offset(),
        base,
        when(is_created, p("stateRoot")),
        if is_created { out.state_root().map(|a| a.to_vec()) } else { None },
    );
    r.rel(
        o,
        "OutputRepr::contract_id_offset",
        rp.contract_id_offset(),
        base,
        when(is_created, p("contractId")),
        out.contract_id().map(|a| a.to_vec()),
    );
}

fn observe_common<T>(r: &mut Rec, k: &str, t: &T)
where
    T: field::Policies + field::Inputs + field::Outputs + field::Witnesses,
{
    r.tx(k, "Policies::policies_offset", None, Some(t.policies_offset()), "policies", None);
    r.tx(k, "Inputs::inputs_offset", None, Some(t.inputs_offset()), "inputs", None);
    let n = t.inputs().len();
    for i in 0..n {
        let inp = &t.inputs()[i];
        let base = format!("inputs[{i}]");
        r.tx(k, "Inputs::inputs_offset_at", Some(i), t.inputs_offset_at(i), &base, Some(inp.to_bytes()));
        observe_input(r, &base, inp);
        let is_pred = matches!(
            inp,
            Input::CoinPredicate(_) | Input::MessageCoinPredicate(_) | Input::MessageDataPredicate(_)
        );
        let got = t.inputs_predicate_offset_at(i);
        r.v.push(Obs {
            owner: input_class(inp).to_string(),
            acc: "Inputs::inputs_predicate_offset_at",
            idx: Some(i),
            got: got.map(|g| g.0),
            got_len: got.map(|g| g.1),
            path: when(is_pred, format!("{base}.predicate")),
            base: None,
            own: if is_pred { inp.input_predicate().map(padded) } else { None },
            out_of_range: false,
            is_len: false,
        });
    }
    for i in n..n + 2 {
        r.oor(k, "Inputs::inputs_offset_at", i, t.inputs_offset_at(i), format!("inputs[{i}]"));
        r.oor(
            k,
            "Inputs::inputs_predicate_offset_at",
            i,
            t.inputs_predicate_offset_at(i).map(|g| g.0),
            format!("inputs[{i}].predicate"),
        );
    }
    r.tx(k, "Outputs::outputs_offset", None, Some(t.outputs_offset()), "outputs", None);
    let n = t.outputs().len();
    for i in 0..n {
        let out = &t.outputs()[i];
        let base = format!("outputs[{i}]");
        r.tx(k, "Outputs::outputs_offset_at", Some(i), t.outputs_offset_at(i), &base, Some(out.to_bytes()));
        observe_output(r, &base, out);
    }
    for i in n..n + 2 {
        r.oor(k, "Outputs::outputs_offset_at", i, t.outputs_offset_at(i), format!("outputs[{i}]"));
    }
    r.tx(k, "Witnesses::witnesses_offset", None, Some(t.witnesses_offset()), "witnesses", None);
    let n = t.witnesses().len();
    for i in 0..n {
        let w = &t.witnesses()[i];
        r.tx(
            k,
            "Witnesses::witnesses_offset_at",
            Some(i),
            t.witnesses_offset_at(i),
            &format!("witnesses[{i}]"),
            Some(w.to_bytes()),
        );
    }
    for i in n..n + 2 {
        r.oor(k, "Witnesses::witnesses_offset_at", i, t.witnesses_offset_at(i), format!("witnesses[{i}]"));
    }
}

/// Every offset the library reports for `tx`, in encoding order.
fn observe(tx: &Transaction) -> Vec<Obs> {
    use field::{
        BlobId as _,
        BytecodeRoot as _,
        BytecodeWitnessIndex as _,
        InputContract as _,
        MintAmount as _,
        MintAssetId as _,
        MintGasPrice as _,
        OutputContract as _,
        ProofSet as _,
        ReceiptsRoot as _,
        Salt as _,
        Script as _,
        ScriptData as _,
        ScriptGasLimit as _,
        StorageSlots as _,
        SubsectionIndex as _,
        SubsectionsNumber as _,
        TxPointer as _,
        UpgradePurpose as _,
    };
    let mut r = Rec { v: Vec::with_capacity(64) };
    let k = tx_kind(tx);
    match tx {
        Transaction::Script(t) => {
            r.tx(k, "ScriptGasLimit::script_gas_limit_offset", None, Some(t.script_gas_limit_offset()), "scriptGasLimit", be(*t.script_gas_limit()));
            r.tx(
                k,
                "ScriptGasLimit::script_gas_limit_offset_static",
                None,
                Some(fuel_tx::Script::script_gas_limit_offset_static()),
                "scriptGasLimit",
                None,
            );
            r.tx(k, "ReceiptsRoot::receipts_root_offset", None, Some(t.receipts_root_offset()), "receiptsRoot", Some(t.receipts_root().to_vec()));
            r.tx(
                k,
                "ReceiptsRoot::receipts_root_offset_static",
                None,
                Some(fuel_tx::Script::receipts_root_offset_static()),
                "receiptsRoot",
                None,
            );
            r.tx(k, "Script::script_offset", None, Some(t.script_offset()), "script", Some(padded(t.script())));
            r.tx(k, "Script::script_offset_static", None, Some(fuel_tx::Script::script_offset_static()), "script", None);
            r.tx(k, "ScriptData::script_data_offset", None, Some(t.script_data_offset()), "scriptData", Some(padded(t.script_data())));
            observe_common(&mut r, k, t);
        }
        Transaction::Create(t) => {
            r.tx(
                k,
                "BytecodeWitnessIndex::bytecode_witness_index_offset",
                None,
                Some(t.bytecode_witness_index_offset()),
                "bytecodeWitnessIndex",
                be(*t.bytecode_witness_index() as u64),
            );
            r.tx(k, "Salt::salt_offset", None, Some(t.salt_offset()), "salt", Some(t.salt().to_vec()));
            r.tx(
                k,
                "StorageSlots::storage_slots_offset_static",
                None,
                Some(fuel_tx::Create::storage_slots_offset_static()),
                "storageSlots",
                None,
            );
            let n = t.storage_slots().len();
            for i in 0..n {
                r.tx(
                    k,
                    "StorageSlots::storage_slots_offset_at",
                    Some(i),
                    t.storage_slots_offset_at(i),
                    &format!("storageSlots[{i}]"),
                    Some(t.storage_slots()[i].to_bytes()),
                );
            }
            for i in n..n + 2 {
                r.oor(k, "StorageSlots::storage_slots_offset_at", i, t.storage_slots_offset_at(i), format!("storageSlots[{i}]"));
            }
            observe_common(&mut r, k, t);
        }
        Transaction::Mint(t) => {
            r.tx(k, "TxPointer::tx_pointer_offset", None, Some(t.tx_pointer_offset()), "mint.txPointer", Some(t.tx_pointer().to_bytes()));
            r.tx(
                k,
                "InputContract::input_contract_offset",
                None,
                Some(t.input_contract_offset()),
                "inputContract",
                Some(t.input_contract().to_bytes()),
            );
            r.tx(
                k,
                "OutputContract::output_contract_offset",
                None,
                Some(t.output_contract_offset()),
                "outputContract",
                Some(t.output_contract().to_bytes()),
            );
            r.tx(k, "MintAmount::mint_amount_offset", None, Some(t.mint_amount_offset()), "mintAmount", be(*t.mint_amount()));
            r.tx(k, "MintAssetId::mint_asset_id_offset", None, Some(t.mint_asset_id_offset()), "mintAssetId", Some(t.mint_asset_id().to_vec()));
            r.tx(k, "MintGasPrice::gas_price_offset", None, Some(t.gas_price_offset()), "gasPrice", be(*t.gas_price()));
        }
        Transaction::Upgrade(t) => {
            r.tx(
                k,
                "UpgradePurpose::upgrade_purpose_offset",
                None,
                Some(t.upgrade_purpose_offset()),
                "purpose",
                Some(t.upgrade_purpose().to_bytes()),
            );
            observe_common(&mut r, k, t);
        }
        Transaction::Upload(t) => {
            r.tx(k, "BytecodeRoot::bytecode_root_offset", None, Some(t.bytecode_root_offset()), "root", Some(t.bytecode_root().to_vec()));
            r.tx(
                k,
                "BytecodeWitnessIndex::bytecode_witness_index_offset",
                None,
                Some(t.bytecode_witness_index_offset()),
                "witnessIndex",
                be(*t.bytecode_witness_index() as u64),
            );
            r.tx(
                k,
                "SubsectionIndex::subsection_index_offset",
                None,
                Some(t.subsection_index_offset()),
                "subsectionIndex",
                be(*t.subsection_index() as u64),
            );
            r.tx(
                k,
                "SubsectionsNumber::subsections_number_offset",
                None,
                Some(t.subsections_number_offset()),
                "subsectionsNumber",
                be(*t.subsections_number() as u64),
            );
            r.tx(k, "ProofSet::proof_set_offset", None, Some(t.proof_set_offset()), "proofSet", None);
            let n = t.proof_set().len();
            for i in 0..n {
                r.tx(
                    k,
                    "ProofSet::proof_set_offset_at",
                    Some(i),
                    t.proof_set_offset_at(i),
                    &format!("proofSet[{i}]"),
                    Some(t.proof_set()[i].to_vec()),
                );
            }
            for i in n..n + 2 {
                r.oor(k, "ProofSet::proof_set_offset_at", i, t.proof_set_offset_at(i), format!("proofSet[{i}]"));
            }
            observe_common(&mut r, k, t);
        }
        Transaction::Blob(t) => {
            r.tx(k, "BlobId::blob_id_offset", None, Some(t.blob_id_offset()), "id", Some(t.blob_id().to_vec()));
            r.tx(
                k,
                "BytecodeWitnessIndex::bytecode_witness_index_offset",
                None,
                Some(t.bytecode_witness_index_offset()),
                "witnessIndex",
                be(*t.bytecode_witness_index() as u64),
            );
            observe_common(&mut r, k, t);
        }
    }
    r.v
}

// ------------------------------------------------------------------ the oracle

fn hex_short(b: &[u8]) -> String {
    let n = b.len().min(40);
    format!("{}{}", hex::encode(&b[..n]), if b.len() > n { "…" } else { "" })
}

fn obs_name(o: &Obs) -> String {
    match o.idx {
        Some(i) => format!("{}({i})", o.acc),
        None => o.acc.to_string(),
    }
}

/// Verify the observations of one (un-precomputed) transaction against the walker and
/// the encoding. Returns the number of verified `Some` offsets.
fn verify(bytes: &[u8], layout: &Layout, obs: &[Obs], descr: &str, case: &Value, acc: &mut Acc) {
    let mut seen_shifts: HashSet<i64> = HashSet::new();
    for o in obs {
        acc.evals += 1;
        let key = |class: &str| format!("C04:{}:{}:{class}", o.owner, o.acc);
        if o.out_of_range {
            match o.got {
                None => acc.outcome("out_of_range_index_gives_none"),
                Some(g) => {
                    acc.outcome("VIOLATION_out_of_range_some");
                    acc.viol(
                        key("out-of-range"),
                        &|| format!("{} reports offset {g} although the index is past the end of the list, in {descr}", obs_name(o)),
                        case,
                    );
                }
            }
            continue
        }
        if o.is_len {
            let want = layout.span(&o.path).map(|(s, e)| {
                let mut w = [0u8; 8];
                w.copy_from_slice(&layout.bytes[s..e]);
                u64::from_be_bytes(w) as usize
            });
            if o.got == want {
                acc.outcome(if want.is_some() { "length_ok" } else { "length_none_ok" });
            } else {
                acc.outcome("VIOLATION_length");
                acc.viol(
                    key("length"),
                    &|| format!("{} reports {:?}, the encoding's length word says {want:?}, in {descr}", obs_name(o), o.got),
                    case,
                );
            }
            continue
        }
        let base = match &o.base {
            Some(b) => layout.start_of(b).unwrap_or(0),
            None => 0,
        };
        let want_abs = layout.start_of(&o.path);
        match o.got {
            None => {
                if layout.span(&o.path).is_some() {
                    acc.outcome("VIOLATION_missing");
                    acc.viol(
                        key("missing"),
                        &|| format!(
                            "{} reports None although the field {} occupies bytes {:?} of the encoding, in {descr}",
                            obs_name(o),
                            o.path,
                            layout.span(&o.path)
                        ),
                        case,
                    );
                } else {
                    acc.outcome("none_for_absent_or_empty_field");
                }
            }
            Some(rel) => {
                let got_abs = base.saturating_add(rel);
                match want_abs {
                    Some(w) if w == got_abs => {}
                    _ => {
                        let shift = got_abs as i64 - want_abs.map(|w| w as i64).unwrap_or(i64::MIN / 2);
                        if want_abs.is_some() && !seen_shifts.insert(shift) {
                            acc.outcome("offset_mismatch_same_error_as_an_earlier_field_of_this_tx_(cascade)");
                            continue
                        }
                        acc.outcome("VIOLATION_offset");
                        acc.viol(
                            key("offset"),
                            &|| format!(
                                "{} reports {rel} (absolute {got_abs}); the layout walker places {} at {:?} (element base {base}), in {descr}",
                                obs_name(o),
                                o.path,
                                want_abs
                            ),
                            case,
                        );
                        continue
                    }
                }
                let mut ok = true;
                if let Some(own) = &o.own {
                    let end = got_abs.saturating_add(own.len());
                    if end > bytes.len() || &bytes[got_abs..end] != own.as_slice() {
                        ok = false;
                        acc.outcome("VIOLATION_bytes");
                        acc.viol(
                            key("bytes"),
                            &|| format!(
                                "{} reports {rel}: the encoding there is {}, the field's own canonical bytes are {}, in {descr}",
                                obs_name(o),
                                hex_short(&bytes[got_abs.min(bytes.len())..end.min(bytes.len())]),
                                hex_short(own)
                            ),
                            case,
                        );
                    }
                    if let Some(l) = o.got_len {
                        if l != own.len() {
                            ok = false;
                            acc.outcome("VIOLATION_length");
                            acc.viol(
                                key("length"),
                                &|| format!("{} reports length {l}, the padded predicate has {} bytes, in {descr}", obs_name(o), own.len()),
                                case,
                            );
                        }
                    }
                }
                if ok {
                    acc.outcome("offset_ok");
                    acc.fps.insert(hash64(&(&o.owner, o.acc, rel, o.own.as_ref().map(|b| b.len()))));
                }
            }
        }
    }
}

fn descr(level: CorpusLevel, idx: u64, repaired: bool) -> String {
    format!(
        "{}{} [{} #{idx}]",
        txcorpus::tx_point(level, idx).describe(),
        if repaired { " (repaired for precompute)" } else { "" },
        level.name()
    )
}

const CHAIN: u64 = 7;

/// All checks for one transaction value. `tx` must not carry metadata.
fn check_value(tx: &Transaction, descr: &str, case: &Value, acc: &mut Acc, refused: &mut bool) -> Option<(Layout, Vec<Obs>)> {
    let kind = tx_kind(tx);
    let layout = Layout::of_tx(tx);
    if let Err(m) = layout.self_check() {
        panic!("layout walker is inconsistent ({m}) for {descr}");
    }
    let bytes = match guard::catch_any(|| tx.to_bytes()) {
        Ok(b) => b,
        Err(m) => {
            acc.viol(format!("C04:{kind}:to_bytes:panic"), &|| format!("to_bytes panicked: {m} for {descr}"), case);
            return None
        }
    };
    acc.evals += 1;
    if bytes != layout.bytes {
        let at = bytes.iter().zip(layout.bytes.iter()).position(|(a, b)| a != b).unwrap_or(bytes.len().min(layout.bytes.len()));
        acc.outcome("VIOLATION_encoding");
        acc.viol(
            format!("C04:{kind}:to_bytes:encoding"),
            &|| format!(
                "the encoding ({} bytes) differs from the layout walker's ({} bytes) first at byte {at} (walker field {:?}) for {descr}",
                bytes.len(),
                layout.bytes.len(),
                (at < layout.len()).then(|| layout.field_at(at).path.clone())
            ),
            case,
        );
        return None
    }
    let obs = match guard::catch_any(|| observe(tx)) {
        Ok(o) => o,
        Err(m) => {
            acc.outcome("VIOLATION_panic");
            acc.viol(format!("C04:{kind}:offset-accessors:panic"), &|| format!("an offset accessor panicked: {m} for {descr}"), case);
            return None
        }
    };
    verify(&bytes, &layout, &obs, descr, case, acc);

    // cached == uncached
    let mut pre = tx.clone();
    match guard::catch_any(|| pre.precompute(&ChainId::new(CHAIN))) {
        Ok(Ok(())) => {
            acc.outcome(&format!("precompute_ok_{kind}"));
            let pre_bytes = guard::catch_any(|| pre.to_bytes());
            if pre_bytes.as_ref().ok() != Some(&bytes) {
                acc.viol(
                    format!("C04:{kind}:to_bytes:cached-differs"),
                    &|| format!("the encoding changes after precompute for {descr}"),
                    case,
                );
            }
            match guard::catch_any(|| observe(&pre)) {
                Ok(obs2) => {
                    acc.evals += obs2.len() as u64;
                    let mut seen: HashSet<(i64, i64)> = HashSet::new();
                    if obs2.len() != obs.len() {
                        panic!("observation lists differ in length for {descr}");
                    }
                    for (a, b) in obs.iter().zip(obs2.iter()) {
                        if a.got == b.got && a.got_len == b.got_len {
                            continue
                        }
                        let d = (
                            b.got.map(|x| x as i64).unwrap_or(-1) - a.got.map(|x| x as i64).unwrap_or(-1),
                            b.got_len.map(|x| x as i64).unwrap_or(-1) - a.got_len.map(|x| x as i64).unwrap_or(-1),
                        );
                        if a.got.is_some() && b.got.is_some() && !seen.insert(d) {
                            acc.outcome("cached_differs_same_error_as_an_earlier_field_of_this_tx_(cascade)");
                            continue
                        }
                        acc.outcome("VIOLATION_cached_differs");
                        // the cached tables of inputs / outputs / witnesses are filled by code shared by all kinds
                        let shared = ["Inputs::", "Outputs::", "Witnesses::"].iter().any(|p| a.acc.starts_with(p));
                        let owner = if shared && a.base.is_none() && !a.owner.starts_with("Input::") { "Chargeable" } else { a.owner.as_str() };
                        acc.viol(
                            format!("C04:{owner}:{}:cached-differs", a.acc),
                            &|| format!(
                                "{} reports {:?}{} without metadata and {:?}{} after precompute, in {descr}",
                                obs_name(a),
                                a.got,
                                a.got_len.map(|l| format!(" (len {l})")).unwrap_or_default(),
                                b.got,
                                b.got_len.map(|l| format!(" (len {l})")).unwrap_or_default()
                            ),
                            case,
                        );
                    }
                    acc.outcome("cached_equals_uncached_checked");
                }
                Err(m) => {
                    acc.viol(
                        format!("C04:{kind}:offset-accessors:panic"),
                        &|| format!("an offset accessor panicked after precompute: {m} for {descr}"),
                        case,
                    );
                }
            }
        }
        Ok(Err(_)) => {
            *refused = true;
            acc.outcome(&format!("precompute_refused_{kind}"))
        }
        Err(_) => acc.outcome("precompute_panicked_(not_this_property)"),
    }
    Some((layout, obs))
}


// ------------------------------------------------------------------ histories of cache states

/// Layout-shifting edits applied to an already precomputed transaction through the public
/// `*_mut` accessors (none of them resets the metadata), before precompute is called again.
const EDITS: [&str; 19] = [
    "none (precompute twice)",
    "push witness(5 bytes)",
    "pop witness",
    "lengthen witness[0] by 1",
    "lengthen witness[0] by 8",
    "insert input[0] (CoinPredicate)",
    "remove input[0]",
    "insert output[0] (Coin)",
    "remove output[0]",
    "lengthen first predicate by 1",
    "lengthen first predicate by 8",
    "toggle Tip policy",
    "toggle Maturity policy",
    "script += 1 byte",
    "script data += 8 bytes",
    "push storage slot",
    "push proof set entry",
    "lengthen first predicate data by 1",
    "lengthen first message data by 8",
];

fn edit_common<T>(t: &mut T, e: usize) -> bool
where
    T: field::Policies + field::Inputs + field::Outputs + field::Witnesses,
{
    use fuel_tx::policies::PolicyType;
    match e {
        0 => true,
        1 => {
            t.witnesses_mut().push(vec![0xd1u8; 5].into());
            true
        }
        2 => t.witnesses_mut().pop().is_some(),
        3 | 4 => match t.witnesses_mut().first_mut() {
            Some(w) => {
                let n = if e == 3 { 1 } else { 8 };
                w.as_vec_mut().extend(std::iter::repeat(0xd2u8).take(n));
                true
            }
            None => false,
        },
        5 => {
            t.inputs_mut().insert(0, txcorpus::base_input(1, 1));
            true
        }
        6 => {
            if t.inputs().is_empty() {
                false
            } else {
                t.inputs_mut().remove(0);
                true
            }
        }
        7 => {
            t.outputs_mut().insert(0, txcorpus::base_output(0, 1));
            true
        }
        8 => {
            if t.outputs().is_empty() {
                false
            } else {
                t.outputs_mut().remove(0);
                true
            }
        }
        9 | 10 | 17 | 18 => {
            let n = if e == 9 || e == 17 { 1 } else { 8 };
            for inp in t.inputs_mut().iter_mut() {
                let v: Option<&mut Vec<u8>> = match (e, inp) {
                    (9 | 10, Input::CoinPredicate(c)) => Some(&mut c.predicate),
                    (9 | 10, Input::MessageCoinPredicate(c)) => Some(&mut c.predicate),
                    (9 | 10, Input::MessageDataPredicate(c)) => Some(&mut c.predicate),
                    (17, Input::CoinPredicate(c)) => Some(&mut c.predicate_data),
                    (17, Input::MessageCoinPredicate(c)) => Some(&mut c.predicate_data),
                    (17, Input::MessageDataPredicate(c)) => Some(&mut c.predicate_data),
                    (18, Input::MessageDataSigned(c)) => Some(&mut c.data),
                    (18, Input::MessageDataPredicate(c)) => Some(&mut c.data),
                    _ => None,
                };
                if let Some(v) = v {
                    v.extend(std::iter::repeat(0xd3u8).take(n));
                    return true
                }
            }
            false
        }
        11 | 12 => {
            let ty = if e == 11 { PolicyType::Tip } else { PolicyType::Maturity };
            let now = t.policies().get(ty);
            t.policies_mut().set(ty, if now.is_some() { None } else { Some(3) });
            true
        }
        _ => false,
    }
}

/// Apply edit `e` to `tx` (which carries metadata). `false` = not applicable to this value.
fn apply_edit(tx: &mut Transaction, e: usize) -> bool {
    use field::{
        ProofSet as _,
        Script as _,
        ScriptData as _,
        StorageSlots as _,
    };
    match tx {
        Transaction::Script(t) => match e {
            13 => {
                t.script_mut().push(0xd4);
                true
            }
            14 => {
                t.script_data_mut().extend([0xd5u8; 8]);
                true
            }
            _ => edit_common(t, e),
        },
        Transaction::Create(t) => match e {
            15 => {
                t.storage_slots_mut().as_mut().push(fuel_tx::StorageSlot::new([0xfe; 32].into(), [0xd6; 32].into()));
                true
            }
            _ => edit_common(t, e),
        },
        Transaction::Upgrade(t) => edit_common(t, e),
        Transaction::Upload(t) => match e {
            16 => {
                t.proof_set_mut().push([0xd7; 32].into());
                true
            }
            _ => edit_common(t, e),
        },
        Transaction::Blob(t) => edit_common(t, e),
        Transaction::Mint(_) => e == 0,
    }
}

/// precompute; edit; precompute again; then the full accessor oracle on the result:
/// every accessor must answer as on a copy WITHOUT metadata (decode of the encoding), and
/// that copy's answers must match the walker and the bytes.
fn check_histories(tx: &Transaction, descr: &str, case: &Value, acc: &mut Acc) {
    let kind = tx_kind(tx);
    let mut pre0 = tx.clone();
    if !matches!(guard::catch_any(|| pre0.precompute(&ChainId::new(CHAIN))), Ok(Ok(()))) {
        return
    }
    for (e, ename) in EDITS.iter().enumerate() {
        let mut h = pre0.clone();
        if !apply_edit(&mut h, e) {
            continue
        }
        acc.evals += 1;
        match guard::catch_any(|| h.precompute(&ChainId::new(CHAIN + 1))) {
            Ok(Ok(())) => {}
            Ok(Err(_)) => {
                acc.outcome("history_second_precompute_refused_(not_this_property)");
                continue
            }
            Err(m) => {
                acc.outcome("VIOLATION_panic");
                acc.viol(
                    format!("C04:{kind}:precompute:panic"),
                    &|| format!("precompute after '{ename}' panicked: {m}; {descr}"),
                    case,
                );
                continue
            }
        }
        let hd = format!("{descr} after [precompute; {ename}; precompute]");
        let bytes = match guard::catch_any(|| h.to_bytes()) {
            Ok(b) => b,
            Err(_) => continue,
        };
        // the same value with the metadata stripped
        let stripped = match guard::catch_any(|| Transaction::from_bytes(&bytes)) {
            Ok(Ok(t)) if t == h && !t.is_computed() => t,
            _ => {
                acc.outcome("history_value_does_not_round_trip_(see_C01)");
                continue
            }
        };
        let (oc, ou) = match (guard::catch_any(|| observe(&h)), guard::catch_any(|| observe(&stripped))) {
            (Ok(a), Ok(b)) => (a, b),
            _ => {
                acc.outcome("VIOLATION_panic");
                acc.viol(
                    format!("C04:{kind}:offset-accessors:panic"),
                    &|| format!("an offset accessor panicked; {hd}"),
                    case,
                );
                continue
            }
        };
        if oc.len() != ou.len() {
            panic!("observation lists differ in length for {hd}");
        }
        acc.evals += oc.len() as u64;
        // first accessor (encoding order) whose cached answer differs from the uncached one
        match oc.iter().zip(ou.iter()).find(|(c, u)| c.got != u.got || c.got_len != u.got_len) {
            None => acc.outcome("history_cached_equals_uncached"),
            Some((c, u)) => {
                acc.outcome("VIOLATION_stale_after_re_precompute");
                acc.viol(
                    format!("C04:{kind}:{}:stale-after-re-precompute", c.acc),
                    &|| format!(
                        "{} reports {:?}{} from the re-computed metadata, {:?}{} without metadata; {hd}",
                        obs_name(c),
                        c.got,
                        c.got_len.map(|l| format!(" (len {l})")).unwrap_or_default(),
                        u.got,
                        u.got_len.map(|l| format!(" (len {l})")).unwrap_or_default()
                    ),
                    case,
                );
            }
        }
        // the uncached answers of the edited value against walker and bytes
        let layout = Layout::of_tx(&stripped);
        if layout.bytes != bytes {
            acc.outcome("VIOLATION_encoding");
            acc.viol(
                format!("C04:{kind}:to_bytes:encoding"),
                &|| format!("the encoding differs from the layout walker's; {hd}"),
                case,
            );
            continue
        }
        verify(&bytes, &layout, &ou, &hd, case, acc);
    }
}

fn check_tx(level: CorpusLevel, idx: u64, histories: bool, acc: &mut Acc) {
    let tx = txcorpus::tx_at(level, idx);
    let case = json!({"level": level.name(), "idx": idx});
    let mut refused = false;
    check_value(&tx, &descr(level, idx, false), &case, acc, &mut refused);
    // repaired copy only where precompute refuses the corpus value
    let mut hist_on = tx.clone();
    let mut hist_repaired = false;
    if refused {
        if let Some(rep) = txlayout::repaired_for_precompute(&tx) {
            acc.outcome("repaired_copy_checked");
            check_value(&rep, &descr(level, idx, true), &case, acc, &mut refused);
            hist_on = rep;
            hist_repaired = true;
        }
    }
    if histories {
        check_histories(&hist_on, &descr(level, idx, hist_repaired), &case, acc);
    }
}

// ------------------------------------------------------------------ driver

/// Order in which the policy sets (index into `txcorpus::policies_tx`) are exhausted in
/// the thorough tier: none, all six (small), all six (max), then the rest ascending.
fn policy_segments() -> Vec<u64> {
    let mut v = vec![0u64, 126, 127];
    v.extend((0..txcorpus::N_POLICIES).filter(|p| ![0, 126, 127].contains(p)));
    v
}

fn sample_tx(ctx: &Ctx, level: CorpusLevel, idx: u64) {
    let tx = txcorpus::tx_at(level, idx);
    let mut acc = Acc::default();
    if let Some((layout, obs)) = check_value(&tx, &descr(level, idx, false), &Value::Null, &mut acc, &mut false) {
        let shown: Vec<String> = obs
            .iter()
            .filter(|o| o.got.is_some() && !o.is_len)
            .take(40)
            .map(|o| format!("{}:{}={}", o.owner, obs_name(o), o.got.unwrap()))
            .collect();
        ctx.sample(json!({
            "tx": descr(level, idx, false), "encoded_len": layout.len(), "walker_fields": layout.fields.len(),
            "offsets_reported_and_verified": shown, "violations_in_this_tx": acc.viols.len(),
        }));
    }
}

fn explore(ctx: &Ctx) {
    ctx.rule(
        "every transaction of the enumerated corpus (star sub-product of TX(2) + Mint; thorough: full product per policy \
         set) is encoded; every offset accessor of the library is called on it without and with precomputed metadata and \
         compared with the hand-written layout walker and with the field's own canonical bytes; a case is non-trivial when \
         an accessor returned Some(offset) and it was verified; distinct = distinct (owner, accessor, offset, field length)",
    );
    ctx.assume("the layout walker (txlayout.rs) is a correct reading of the tx-format tables; it is validated on every transaction by comparing its own encoding with to_bytes()");
    ctx.assume("InputRepr::owner_offset of a message input denotes its recipient (Input::input_owner returns the recipient)");
    ctx.set(
        "dont_care",
        json!([
            "None for a field that is absent or empty in the value (e.g. predicate offsets of signed inputs) is accepted, as is a correct Some",
            "validity of the enumerated transactions",
            "why precompute refuses a transaction (Create without bytecode witness, Upgrade without decodable parameters): recorded, a repaired copy is checked instead",
            "offsets after mutating a precomputed transaction through *_mut accessors (the cache is documented as possibly stale)",
        ]),
    );
    let star_n = txcorpus::tx_count(CorpusLevel::Star);
    space::par_chunks(
        star_n,
        32,
        Acc::default,
        |i, acc| check_tx(CorpusLevel::Star, i, true, acc),
        |acc| acc.flush(ctx),
    );
    ctx.set(
        "tx_star",
        json!({"count": star_n, "kinds": txcorpus::TX_KINDS, "plus": "Mint", "dims": txcorpus::DIM_NAMES,
               "dim_sizes_per_kind": (0..6).map(txcorpus::tx_dims).collect::<Vec<_>>(),
               "each_without_and_with_precompute": true, "out_of_range_probes": "index = count, count+1",
               "cache_histories": "precompute; EDIT; precompute — for every applicable EDIT", "edit_alphabet": EDITS}),
    );
    // samples: the rich base point of each of three kinds + a Mint
    for kind in [0usize, 1, 4] {
        let want = txcorpus::TxPoint::Chargeable {
            kind,
            ix: txcorpus::base_points(kind)[1],
        };
        if let Some(i) = (0..star_n).find(|i| txcorpus::tx_point(CorpusLevel::Star, *i) == want) {
            sample_tx(ctx, CorpusLevel::Star, i);
        }
    }
    sample_tx(ctx, CorpusLevel::Star, star_n - 1);

    if ctx.thorough() {
        let per_policy = 6 * 2 * txcorpus::N_WITNESS_LISTS * txcorpus::N_OUTPUT_LISTS * txcorpus::N_INPUT_LISTS;
        let budget_s: f64 = std::env::var("VERIF_BUDGET_S").ok().and_then(|s| s.parse().ok()).unwrap_or(600.0);
        let mut done_segments = Vec::new();
        let segs = policy_segments();
        for p in &segs {
            if ctx.out_of_time() || ctx.elapsed() > budget_s {
                ctx.cap(format!(
                    "full TX(2) product cut short by the time budget after {} of {} policy sets ({} transactions each)",
                    done_segments.len(),
                    segs.len(),
                    per_policy
                ));
                break
            }
            let base = p * per_policy;
            space::par_chunks(
                per_policy,
                4096,
                Acc::default,
                |i, acc| check_tx(CorpusLevel::Full, base + i, false, acc),
                |acc| acc.flush(ctx),
            );
            done_segments.push(*p);
        }
        ctx.set(
            "tx_full",
            json!({"transactions_per_policy_set": per_policy, "policy_sets_completed": done_segments.len(),
                   "policy_set_order": segs, "policy_sets_done": done_segments,
                   "product": "kind(6) x body(2) x witness lists(111) x output lists(31) x input lists(57)"}),
        );
        sample_tx(ctx, CorpusLevel::Full, 126 * per_policy + per_policy / 3);
    }
}

fn replay(case: &Value, ctx: &Ctx) {
    let mut acc = Acc::default();
    let level = CorpusLevel::from_name(case["level"].as_str().unwrap_or("Star"));
    let idx = case["idx"].as_u64().expect("idx");
    check_tx(level, idx, true, &mut acc);
    acc.flush(ctx);
}

fn main() {
    run_check("C04", Level::Exploration, explore, replay)
}
