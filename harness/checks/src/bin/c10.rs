//! C10 — Binary Merkle proofs are complete and sound.
//!
//! Subject: `fuel_merkle::binary::{verify, in_memory::MerkleTree::prove, MerkleTree::prove}`.
//!
//! Oracle (independent, `vcore::oracle`): a tuple (root, data, proof, index, count) is
//! accepted exactly when `root_from_path(index, count, leaf_hash(data), proof) ==
//! Some(root)` (RFC 6962 audit-path recomputation, written as RFC 9162 §2.1.3.2 with
//! u128 arithmetic; `None` for count == 0, index >= count or a path whose length does
//! not fit (index, count); a single-leaf tree has the empty path and root ==
//! leaf_hash(data)). `verify` must return exactly that boolean and never panic.
//! The oracle itself is cross-checked on every evaluated tuple against a separately
//! written RFC 6962 §2.1.1 path-length recursion (`path_len`) and, for n <= 64,
//! against `audit_path`/`mth` (a disagreement is a machinery error, not a verdict).
//!
//! Spaces (all enumerated completely, simplest first):
//!  S  synthetic small product: count m in 0..=M, index j in 0..=m+1, proof length
//!     L in 0..=Lb (fixed distinct elements), 2 data values, and as candidate roots
//!     *every* one of the 2^L left/right folds of the proof over the leaf hash
//!     (M=40,Lb=7 quick; M=130,Lb=9 thorough). Any verifier that folds the proof in
//!     some order is either right or caught here.
//!  A  real trees: n in 1..=N (64 quick / 300 thorough), every i < n, 3 content
//!     schedules, proofs from the in-memory and the storage-backed tree.
//!     Completeness: verify(tree.root(), data_i, prove(i), i, n) == true, for the
//!     tree built on clean storage and for the same n-leaf tree reached through a
//!     history over dirty storage: (a) N different leaves pushed, reset(), n leaves
//!     pushed (stored + in-memory tree); (b) N leaves pushed, load(storage, n)
//!     (stored tree); N in {n+1, P = next power of two >= n+1, 2P}.
//!     Soundness: every single structured mutation of the valid tuple (root: 5
//!     variants; data: up to 6; every index 0..=n+1 and u64::MAX; every count 0..=n+2
//!     and all 2^k-1,2^k,2^k+1 (k<=64); per proof element 2 bit flips, removal,
//!     duplicate insertion; truncation at either end, extension at either end by 4
//!     different elements; adjacent swaps) plus the full (index, count) product
//!     0..=n+1 x 0..=n+2 for n <= 48 (quick) / n <= 64 all schedules and n <= 128
//!     schedule 0 (thorough).
//!  G  boundary grid: count in {2^k-1,2^k,2^k+1 : k<=64, fits u64}, index in
//!     {0,1,n/2,n-2,n-1,n,n+1,u64::MAX}, synthetic proofs of every length 0..=65,
//!     candidate roots {RFC result, RFC result bit-flipped, all-right fold, all-left
//!     fold, zero}.

#[path = "../binmerkle.rs"]
mod binmerkle;
use binmerkle::*;

use fuel_merkle::binary::{
    self,
    in_memory,
};
use std::collections::{
    BTreeMap,
    HashSet,
};
use vcore::{
    guard,
    json,
    oracle::{
        self,
        H256,
    },
    run::hash64,
    run_check,
    space,
    Ctx,
    Level,
    Value,
};

// ------------------------------------------------------------------ tuple + oracle

#[derive(Clone, Debug)]
struct Tuple {
    root: H256,
    data: Vec<u8>,
    proof: Vec<H256>,
    index: u64,
    count: u64,
}

impl Tuple {
    fn to_json(&self, class: &str) -> Value {
        json!({
            "kind": "tuple",
            "class": class,
            "root": hx(&self.root),
            "data": hx(&self.data),
            "proof": self.proof.iter().map(|p| hx(p)).collect::<Vec<_>>(),
            "index": self.index,
            "count": self.count,
        })
    }

    fn from_json(v: &Value) -> Tuple {
        Tuple {
            root: unhx32(v["root"].as_str().expect("root")),
            data: unhx(v["data"].as_str().expect("data")),
            proof: v["proof"]
                .as_array()
                .expect("proof")
                .iter()
                .map(|p| unhx32(p.as_str().expect("proof element")))
                .collect(),
            index: v["index"].as_u64().expect("index"),
            count: v["count"].as_u64().expect("count"),
        }
    }
}

/// RFC 6962 §2.1.1: length of PATH(i, D[n]) by the recursive definition
/// (k = largest power of two smaller than n). `None` when there is no such leaf.
fn path_len(i: u64, n: u64) -> Option<usize> {
    if n == 0 || i >= n {
        return None
    }
    let (mut i, mut n, mut len) = (i as u128, n as u128, 0usize);
    while n > 1 {
        let k = 1u128 << (127 - (n - 1).leading_zeros());
        if i < k {
            n = k;
        } else {
            i -= k;
            n -= k;
        }
        len += 1;
    }
    Some(len)
}

/// The reference recomputation for a tuple (root not looked at).
fn rfc_of(t: &Tuple) -> Option<H256> {
    let r = oracle::root_from_path(t.index, t.count, oracle::leaf_hash(&t.data), &t.proof);
    // harness self-check: the two independently written references agree on *whether*
    // a recomputation exists. A disagreement is a harness bug -> machinery error.
    let fits = path_len(t.index, t.count) == Some(t.proof.len());
    assert!(
        r.is_some() == fits,
        "harness oracle self-check failed: root_from_path.is_some()={} but path_len fit={} for index={} count={} len={}",
        r.is_some(),
        fits,
        t.index,
        t.count,
        t.proof.len()
    );
    r
}

/// Structural class of a tuple (used for violation keys; *not* of the mutation).
fn shape(t: &Tuple) -> &'static str {
    match path_len(t.index, t.count) {
        None if t.count == 0 => "count=0",
        None => "index>=count",
        Some(_) if t.count == 1 => "count=1",
        Some(pl) if t.proof.len() < pl => "len<path",
        Some(pl) if t.proof.len() > pl => "len>path",
        Some(_) => "len=path",
    }
}

enum Judged {
    AgreeAccept,
    AgreeReject,
    Viol(String, String),
}

/// The one deciding step, used by exploration and replay alike.
fn judge(t: &Tuple, rfc: &Option<H256>) -> Judged {
    let expected = *rfc == Some(t.root);
    let got = guard::catch_any(|| binary::verify(&t.root, &t.data, &t.proof, t.index, t.count));
    let descr = || {
        format!(
            "verify(root={}.., data={} bytes, proof of {}, index={}, count={})",
            &hx(&t.root)[..8],
            t.data.len(),
            t.proof.len(),
            t.index,
            t.count
        )
    };
    match got {
        Err(m) => Judged::Viol("C10:verify:panic".into(), format!("{} panicked: {m}", descr())),
        Ok(g) if g == expected => {
            if g {
                Judged::AgreeAccept
            } else {
                Judged::AgreeReject
            }
        }
        Ok(true) => Judged::Viol(
            format!("C10:verify:wrong_accept:{}", shape(t)),
            format!(
                "{} returned true, but the RFC 6962 recomputation {}",
                descr(),
                match rfc {
                    None => "does not exist for this (index, count, proof length)".to_string(),
                    Some(r) => format!("yields {}..", &hx(r)[..8]),
                }
            ),
        ),
        Ok(false) => Judged::Viol(
            format!("C10:verify:wrong_reject:{}", shape(t)),
            format!("{} returned false, but the RFC 6962 recomputation reaches the root", descr()),
        ),
    }
}

// ------------------------------------------------------------------ accumulator

#[derive(Default)]
struct Acc {
    evals: u64,
    hist: BTreeMap<String, u64>,
    fps: HashSet<u64>,
    viols: BTreeMap<String, (String, Value, u64)>,
    samples: Vec<Value>,
    /// how many "mutated tuple still accepted" samples this accumulator may record
    want_samples: usize,
    info: BTreeMap<&'static str, u64>,
}

impl Acc {
    fn viol(&mut self, key: String, what: String, case: Value) {
        let e = self.viols.entry(key).or_insert((what, case, 0));
        e.2 += 1;
    }

    fn info(&mut self, k: &'static str) {
        *self.info.entry(k).or_insert(0) += 1;
    }

    fn check_with(&mut self, class: &'static str, t: &Tuple, rfc: &Option<H256>) {
        self.evals += 1;
        match judge(t, rfc) {
            Judged::AgreeAccept => {
                *self.hist.entry(format!("{class}:accept")).or_insert(0) += 1;
                self.fps.insert(hash64(&(class, t.count, t.index, t.proof.len(), true)));
                if class != "valid" && self.want_samples > 0 {
                    self.want_samples -= 1;
                    // a mutated tuple that the RFC recomputation (and verify) still accept
                    let mut j = t.to_json(class);
                    j["expected"] = json!("accept");
                    self.samples.push(j);
                }
            }
            Judged::AgreeReject => {
                *self.hist.entry(format!("{class}:reject")).or_insert(0) += 1;
                if rfc.is_some() {
                    // structurally well-formed: the verdict hinges on the hashes
                    self.fps.insert(hash64(&(class, t.count, t.index, t.proof.len(), false)));
                }
            }
            Judged::Viol(k, w) => self.viol(k, w, t.to_json(class)),
        }
    }

    fn check(&mut self, class: &'static str, t: &Tuple) {
        let rfc = rfc_of(t);
        self.check_with(class, t, &rfc);
    }

    fn merge_into(self, ctx: &Ctx, totals: &mut BTreeMap<String, u64>) {
        ctx.evals(self.evals);
        ctx.outcomes_merge(&self.hist);
        ctx.fps_merge(self.fps);
        for (k, (w, c, n)) in self.viols {
            *totals.entry(k.clone()).or_insert(0) += n;
            ctx.violation(k, w, c);
        }
        for s in self.samples {
            ctx.sample(s);
        }
        for (k, n) in self.info {
            ctx.outcome(k, n);
        }
    }
}

// ------------------------------------------------------------------ space S

fn synth_elem(k: usize) -> H256 {
    oracle::sha256(&[b"C10 synthetic proof element", &(k as u64).to_be_bytes()])
}

const SYNTH_DATA: [&[u8]; 2] = [&[], &[0x42]];

/// folds[L][mask]: fold of the first L synthetic elements over `leaf`; bit k of mask
/// set = element k is the *left* sibling at step k.
fn fold_table(leaf: H256, elems: &[H256], lmax: usize) -> Vec<Vec<H256>> {
    let mut t: Vec<Vec<H256>> = vec![vec![leaf]];
    for l in 1..=lmax {
        let prev = &t[l - 1];
        let mut cur = vec![[0u8; 32]; 1 << l];
        for (mask, r) in prev.iter().enumerate() {
            cur[mask] = oracle::node_hash(r, &elems[l - 1]);
            cur[mask | (1 << (l - 1))] = oracle::node_hash(&elems[l - 1], r);
        }
        t.push(cur);
    }
    t
}

fn unit_s(m: u64, lmax: usize, elems: &[H256], folds: &[Vec<Vec<H256>>], acc: &mut Acc) {
    if m == 3 {
        acc.want_samples = 1;
    }
    for j in 0..=m + 1 {
        for (di, d) in SYNTH_DATA.iter().enumerate() {
            for l in 0..=lmax {
                let mut t = Tuple {
                    root: [0u8; 32],
                    data: d.to_vec(),
                    proof: elems[..l].to_vec(),
                    index: j,
                    count: m,
                };
                let rfc = rfc_of(&t);
                for root in &folds[di][l] {
                    t.root = *root;
                    acc.check_with("synthetic", &t, &rfc);
                }
            }
        }
    }
}

// ------------------------------------------------------------------ space A

/// How the n-leaf tree was reached.
#[derive(Clone, Copy, Debug, PartialEq)]
enum Hist {
    /// n pushes on fresh storage
    Clean,
    /// N > n *different* leaves pushed, `reset()`, then the n leaves pushed (the node
    /// storage still holds the larger tree's nodes)
    Reset(u64),
    /// N > n leaves pushed (the first n are the tree's), then `load(storage, n)`
    Load(u64),
}

impl Hist {
    fn suffix(self) -> &'static str {
        match self {
            Hist::Clean => "",
            Hist::Reset(_) => ":after-reset",
            Hist::Load(_) => ":after-load",
        }
    }

    fn label(self) -> &'static str {
        match self {
            Hist::Clean => "clean",
            Hist::Reset(_) => "reset",
            Hist::Load(_) => "load",
        }
    }

    fn to_json(self) -> Value {
        match self {
            Hist::Clean => json!({"how": "clean"}),
            Hist::Reset(big) => json!({"how": "reset", "big": big}),
            Hist::Load(big) => json!({"how": "load", "big": big}),
        }
    }

    fn from_json(v: &Value) -> Hist {
        match v["how"].as_str() {
            None | Some("clean") => Hist::Clean,
            Some("reset") => Hist::Reset(v["big"].as_u64().expect("big")),
            Some("load") => Hist::Load(v["big"].as_u64().expect("big")),
            other => panic!("unknown history {other:?}"),
        }
    }
}

/// The larger sizes N used for the reset/load histories of an n-leaf tree.
fn bigger_sizes(n: u64) -> Vec<u64> {
    let p = (n + 1).next_power_of_two();
    let mut v = vec![n + 1, p, 2 * p];
    v.dedup();
    v
}

fn complete_case(n: u64, i: u64, s: u8, h: Hist) -> Value {
    json!({"kind": "complete", "n": n, "i": i, "schedule": s, "history": h.to_json()})
}

struct Built {
    hist: Hist,
    data: Vec<Vec<u8>>,
    /// (name, tree, root()) — in-memory tree absent for `Hist::Load`
    im: Option<(in_memory::MerkleTree, H256)>,
    st: (Tree, H256),
}

fn build(n: u64, s: u8, hist: Hist) -> Result<Built, String> {
    let data = leaves(s, n);
    let r = guard::catch_any(|| -> Result<Built, String> {
        let store = Store::new();
        let mut st = Tree::new(store.clone());
        let mut im = in_memory::MerkleTree::new();
        let push_st = |t: &mut Tree, d: &[u8]| t.push(d).map_err(|e| format!("stored push failed: {e:?}"));
        let mut with_im = true;
        match hist {
            Hist::Clean => {}
            Hist::Reset(big) => {
                for p in 0..big {
                    let d = leaf(s, 1_000_000 + p);
                    push_st(&mut st, &d)?;
                    im.push(&d);
                }
                st.reset();
                im.reset();
            }
            Hist::Load(big) => {
                for p in 0..big {
                    push_st(&mut st, &leaf(s, p))?;
                }
                st = Tree::load(store.clone(), n).map_err(|e| format!("load({n}) after {big} pushes failed: {e:?}"))?;
                with_im = false;
            }
        }
        if !matches!(hist, Hist::Load(_)) {
            for d in &data {
                push_st(&mut st, d)?;
                im.push(d);
            }
        }
        let st_root = st.root();
        let im = if with_im {
            let r = im.root();
            Some((im, r))
        } else {
            None
        };
        Ok(Built {
            hist,
            data: vec![],
            im,
            st: (st, st_root),
        })
    });
    match r {
        Ok(Ok(mut b)) => {
            b.data = data;
            Ok(b)
        }
        Ok(Err(m)) => Err(m),
        Err(m) => Err(format!("building the tree panicked: {m}")),
    }
}

/// Completeness of one (tree, i). Returns the in-memory proof (if that tree exists)
/// for the mutation step, and the stored tree's proof.
fn complete_one(b: &Built, n: u64, i: u64, s: u8, acc: &mut Acc) -> (Option<Vec<H256>>, Option<Vec<H256>>) {
    let d = &b.data[i as usize];
    let h = b.hist;
    let (mut im_proof, mut st_proof) = (None, None);
    let mut proofs: Vec<(&str, H256, Result<Option<(H256, Vec<H256>)>, String>)> = vec![];
    if let Some((im, r)) = &b.im {
        proofs.push(("inmem", *r, guard::catch_any(|| im.prove(i))));
    }
    proofs.push(("stored", b.st.1, guard::catch_any(|| b.st.0.prove(i).ok())));
    for (name, tree_root, got) in proofs {
        acc.evals += 1;
        let sfx = h.suffix();
        match got {
            Ok(Some((r, p))) => {
                if r != tree_root {
                    acc.viol(
                        format!("C10:complete:{name}:root_mismatch{sfx}"),
                        format!("n={n} i={i} history={h:?}: prove returned a root different from root()"),
                        complete_case(n, i, s, h),
                    );
                }
                match guard::catch_any(|| binary::verify(&tree_root, d, &p, i, n)) {
                    Ok(true) => {
                        *acc.hist.entry(format!("complete:{name}:{}:verified", h.label())).or_insert(0) += 1;
                        acc.fps.insert(hash64(&("complete", name, h.label(), n, i)));
                    }
                    Ok(false) => acc.viol(
                        format!("C10:complete:{name}:verify_false{sfx}"),
                        format!("n={n} i={i} schedule={s} history={h:?}: the tree's own proof (len {}) does not verify against its root", p.len()),
                        complete_case(n, i, s, h),
                    ),
                    Err(m) => acc.viol(
                        "C10:verify:panic".into(),
                        format!("n={n} i={i} history={h:?}: verify of the tree's own proof panicked: {m}"),
                        complete_case(n, i, s, h),
                    ),
                }
                if name == "inmem" {
                    im_proof = Some(p);
                } else {
                    st_proof = Some(p);
                }
            }
            other => acc.viol(
                format!("C10:complete:{name}:prove_failed{sfx}"),
                format!("n={n} i={i} history={h:?}: prove returned {}", format!("{other:?}").chars().take(120).collect::<String>()),
                complete_case(n, i, s, h),
            ),
        }
    }
    (im_proof, st_proof)
}

fn flip(mut h: H256, byte: usize, bit: u8) -> H256 {
    h[byte] ^= 1 << bit;
    h
}

fn mutate(base: &Tuple, product: bool, pow2: &[u64], acc: &mut Acc) {
    let n = base.count;
    let ext = oracle::sha256(&[b"C10 extension element"]);
    acc.check("valid", base);

    // root changed
    for r in [
        flip(base.root, 0, 0),
        flip(base.root, 31, 7),
        [0u8; 32],
        oracle::leaf_hash(&base.data),
        oracle::sha256(&[]),
    ] {
        acc.check("root", &Tuple { root: r, ..base.clone() });
    }
    // data changed
    {
        let d = &base.data;
        let mut vs: Vec<Vec<u8>> = vec![];
        if !d.is_empty() {
            let mut x = d.clone();
            x[0] ^= 1;
            vs.push(x);
            vs.push(d[..d.len() - 1].to_vec());
            vs.push(vec![]);
        }
        let mut x = d.clone();
        x.push(0);
        vs.push(x);
        vs.push(oracle::leaf_hash(d).to_vec());
        let mut x = vec![0u8];
        x.extend_from_slice(d);
        vs.push(x);
        for v in vs {
            acc.check("data", &Tuple { data: v, ..base.clone() });
        }
    }
    // every other index
    for j in (0..=n + 1).chain([u64::MAX]) {
        if j != base.index {
            acc.check("index", &Tuple { index: j, ..base.clone() });
        }
    }
    // every other count, then the power-of-two neighbourhood
    for m in 0..=n + 2 {
        if m != n {
            acc.check("count", &Tuple { count: m, ..base.clone() });
        }
    }
    for &m in pow2 {
        if m > n + 2 {
            acc.check("count_pow2", &Tuple { count: m, ..base.clone() });
        }
    }
    // proof elements
    let l = base.proof.len();
    for p in 0..l {
        for (byte, bit) in [(0usize, 0u8), (31, 7)] {
            let mut t = base.clone();
            t.proof[p] = flip(t.proof[p], byte, bit);
            acc.check("proof_flip", &t);
        }
        let mut t = base.clone();
        t.proof.remove(p);
        acc.check(if p == 0 { "proof_trunc_front" } else if p == l - 1 { "proof_trunc_back" } else { "proof_remove" }, &t);
        let mut t = base.clone();
        t.proof.insert(p, base.proof[p]);
        acc.check("proof_duplicate", &t);
        if p + 1 < l {
            let mut t = base.clone();
            t.proof.swap(p, p + 1);
            acc.check("proof_swap", &t);
        }
    }
    for e in [ext, [0u8; 32], base.root, oracle::leaf_hash(&base.data)] {
        let mut t = base.clone();
        t.proof.insert(0, e);
        acc.check("proof_extend_front", &t);
        let mut t = base.clone();
        t.proof.push(e);
        acc.check("proof_extend_back", &t);
    }
    // full (index, count) product
    if product {
        for m in 0..=n + 2 {
            for j in 0..=n + 1 {
                if m != n && j != base.index {
                    acc.check("index_count", &Tuple { index: j, count: m, ..base.clone() });
                }
            }
        }
    }
}

fn unit_a(n: u64, s: u8, product: bool, pow2: &[u64], acc: &mut Acc) {
    let b = match build(n, s, Hist::Clean) {
        Ok(b) => b,
        Err(m) => {
            acc.viol("C10:complete:build".into(), format!("n={n} schedule={s}: {m}"), complete_case(n, 0, s, Hist::Clean));
            return
        }
    };
    // informational: are the proofs we mutate the RFC audit paths?
    let hs: Vec<H256> = b.data.iter().map(|d| oracle::leaf_hash(d)).collect();
    let rfc_root = oracle::mth_hashed(&hs);
    let mut rfc_paths: BTreeMap<u64, Vec<H256>> = BTreeMap::new();
    for i in 0..n {
        let (Some(p), _) = complete_one(&b, n, i, s, acc) else { continue };
        if n <= 64 || i == 0 || i == n - 1 {
            let ap = oracle::audit_path(i as usize, &hs);
            // harness self-check of the reference (not a verdict about the subject)
            assert!(
                oracle::root_from_path(i, n, hs[i as usize], &ap) == Some(rfc_root) && Some(ap.len()) == path_len(i, n),
                "harness oracle self-check failed: audit_path/root_from_path/mth/path_len disagree at n={n} i={i}"
            );
            acc.info(if ap == p && b.im.as_ref().map(|x| x.1) == Some(rfc_root) {
                "info:tree_proof_is_rfc_audit_path"
            } else {
                "info:tree_proof_differs_from_rfc_audit_path(dont_care_here)"
            });
            rfc_paths.insert(i, ap);
        }
        let base = Tuple {
            root: b.im.as_ref().expect("clean build has the in-memory tree").1,
            data: b.data[i as usize].clone(),
            proof: p,
            index: i,
            count: n,
        };
        if s == 0 && (n == 4 || n == 7) && i == 0 {
            acc.want_samples = 1;
        }
        if s == 0 && n == 5 && i == 4 {
            let mut j = base.to_json("valid");
            j["expected"] = json!("accept");
            acc.samples.push(j);
        }
        mutate(&base, product, pow2, acc);
    }
    // the same n-leaf tree reached through reset / load over storage that still holds a
    // larger tree: completeness only (the verifier does not depend on the history)
    for big in bigger_sizes(n) {
        for hist in [Hist::Reset(big), Hist::Load(big)] {
            let hb = match build(n, s, hist) {
                Ok(hb) => hb,
                Err(m) => {
                    acc.viol(format!("C10:complete:build{}", hist.suffix()), format!("n={n} schedule={s} history={hist:?}: {m}"), complete_case(n, 0, s, hist));
                    continue
                }
            };
            for i in 0..n {
                let (imp, stp) = complete_one(&hb, n, i, s, acc);
                if let Some(ap) = rfc_paths.get(&i) {
                    for p in [imp, stp].into_iter().flatten() {
                        acc.info(if *ap == p {
                            "info:history_tree_proof_is_rfc_audit_path"
                        } else {
                            "info:history_tree_proof_differs_from_rfc_audit_path(dont_care_here)"
                        });
                    }
                }
            }
            if s == 1 && n == 7 && hist == Hist::Reset(8) {
                acc.samples.push(json!({"kind": "complete", "n": n, "schedule": s, "history": hist.to_json(), "indices": "all i < n",
                    "expected": "prove(i) verifies against root() for the in-memory and the stored tree"}));
            }
        }
    }
}

// ------------------------------------------------------------------ space G

fn grid_indices(n: u64) -> Vec<u64> {
    let mut v = vec![0, 1, n / 2, n, u64::MAX];
    v.extend(n.checked_sub(2));
    v.extend(n.checked_sub(1));
    v.extend(n.checked_add(1));
    v.sort();
    v.dedup();
    v
}

fn unit_g(n: u64, elems: &[H256], acc: &mut Acc) {
    let data = vec![0x42u8];
    let leaf = oracle::leaf_hash(&data);
    for i in grid_indices(n) {
        let (mut right, mut left) = (leaf, leaf);
        for l in 0..=65usize {
            if l > 0 {
                right = oracle::node_hash(&right, &elems[l - 1]);
                left = oracle::node_hash(&elems[l - 1], &left);
            }
            let mut t = Tuple {
                root: [0u8; 32],
                data: data.clone(),
                proof: elems[..l].to_vec(),
                index: i,
                count: n,
            };
            let rfc = rfc_of(&t);
            let mut roots = vec![];
            if let Some(r) = rfc {
                roots.push(r);
                roots.push(flip(r, 13, 3));
            }
            roots.extend([right, left, [0u8; 32]]);
            roots.dedup();
            for r in roots {
                t.root = r;
                acc.check_with("grid", &t, &rfc);
            }
            if rfc.is_some() && n == (1u64 << 63) + 1 && i == 0 {
                t.root = rfc.unwrap();
                let mut j = t.to_json("grid");
                j["expected"] = json!("accept");
                j["proof"] = json!(format!("{} synthetic elements sha256('C10 synthetic proof element'||k)", l));
                acc.samples.push(j);
            }
        }
    }
}

// ------------------------------------------------------------------ driver

fn explore(ctx: &Ctx) {
    ctx.rule(
        "every tuple of the spaces S, A, G (see header) is passed to verify and to the reference; \
         a case is non-trivial when (count, index, proof length) admit an RFC recomputation (so the verdict \
         hinges on hashes) or it is a completeness case; distinct = distinct (class, count, index, proof length, verdict)",
    );
    ctx.assume("sha2 crate and vcore::oracle::{root_from_path, leaf_hash, node_hash} are correct (cross-checked in-run against an independent path-length recursion and audit_path/mth)");
    ctx.assume("SHA-256 collisions do not occur among the enumerated tuples");
    ctx.set(
        "dont_care",
        json!([
            "whether a tree's proof equals the RFC audit path element-for-element (C11/C09 territory; reported as info:* counts only)",
            "which internal step rejects a tuple",
            "behaviour of prove for indices >= n (C11)"
        ]),
    );
    ctx.set("schedules", json!(SCHEDULES));
    let mut totals: BTreeMap<String, u64> = BTreeMap::new();
    let pow2 = pow2_neighbours(64);

    // ---- S
    let (m_max, l_max) = ctx.pick((64u64, 8usize), (130, 9));
    let elems: Vec<H256> = (0..66).map(synth_elem).collect();
    let folds: Vec<Vec<Vec<H256>>> = SYNTH_DATA
        .iter()
        .map(|d| fold_table(oracle::leaf_hash(d), &elems, l_max))
        .collect();
    space::par_chunks(
        m_max + 1,
        1,
        Acc::default,
        |m, acc| unit_s(m, l_max, &elems, &folds, acc),
        |acc| acc.merge_into(ctx, &mut totals),
    );
    ctx.set(
        "space_S",
        json!({"count": format!("0..={m_max}"), "index": "0..=count+1", "proof_len": format!("0..={l_max}"), "roots": "all 2^len left/right folds", "data": ["", "42"], "completed": true}),
    );

    // ---- A
    let (n_max, n_prod_all, n_prod_s0) = ctx.pick((96u64, 56u64, 64u64), (300, 64, 128));
    let units = n_max * 3;
    let mut done_n = 0u64;
    // in slices so that a time cap is reported with the bound actually completed
    let slice = 30u64; // units per slice (= 10 values of n)
    let mut u0 = 0u64;
    let mut capped = false;
    while u0 < units {
        if ctx.out_of_time() {
            ctx.cap(format!("space A stopped by the time budget after n <= {done_n} (target {n_max})"));
            capped = true;
            break
        }
        let u1 = (u0 + slice).min(units);
        space::par_chunks(
            u1 - u0,
            1,
            Acc::default,
            |k, acc| {
                let u = u0 + k;
                let (n, s) = (u / 3 + 1, (u % 3) as u8);
                let product = n <= n_prod_all || (s == 0 && n <= n_prod_s0);
                unit_a(n, s, product, &pow2, acc)
            },
            |acc| acc.merge_into(ctx, &mut totals),
        );
        done_n = u1 / 3;
        u0 = u1;
    }
    ctx.set(
        "space_A",
        json!({"n_completed": done_n, "n_target": n_max, "indices": "all i < n", "schedules": 3,
               "completeness_histories": ["clean", "reset after N different leaves", "load(storage, n) after N leaves"],
               "history_N": "n+1, P = next power of two >= n+1, 2P",
               "index_count_product_upto_n": {"all_schedules": n_prod_all, "schedule0": n_prod_s0},
               "count_pow2_neighbours": pow2.len(), "capped": capped}),
    );

    // ---- G
    space::par_chunks(
        pow2.len() as u64,
        1,
        Acc::default,
        |k, acc| unit_g(pow2[k as usize], &elems, acc),
        |acc| acc.merge_into(ctx, &mut totals),
    );
    ctx.set(
        "space_G",
        json!({"counts": pow2.len(), "count_set": "2^k-1, 2^k, 2^k+1 for k in 0..=64 that fit u64", "indices": "0,1,n/2,n-2,n-1,n,n+1,u64::MAX", "proof_len": "0..=65",
               "roots": "rfc result, rfc result bit-flipped, all-right fold, all-left fold, zero", "completed": true}),
    );
    if !totals.is_empty() {
        ctx.set("violation_counts", json!(totals));
    }
}

fn replay(case: &Value, ctx: &Ctx) {
    let mut acc = Acc::default();
    match case["kind"].as_str() {
        Some("tuple") => {
            let t = Tuple::from_json(case);
            acc.check("replay", &t);
        }
        Some("complete") => {
            let n = case["n"].as_u64().expect("n");
            let i = case["i"].as_u64().expect("i");
            let s = case["schedule"].as_u64().expect("schedule") as u8;
            let h = Hist::from_json(&case["history"]);
            match build(n, s, h) {
                Ok(b) => {
                    complete_one(&b, n, i, s, &mut acc);
                }
                Err(m) => acc.viol(format!("C10:complete:build{}", h.suffix()), m, case.clone()),
            }
        }
        other => panic!("unknown case kind {other:?}"),
    }
    let mut totals = BTreeMap::new();
    acc.merge_into(ctx, &mut totals);
}

fn main() {
    run_check("C10", Level::Exploration, explore, replay)
}
