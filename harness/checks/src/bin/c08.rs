//! C08 — Instruction encoding is a bijection on valid 32-bit words.
//!
//! Space (both tiers, no bound): ALL 2^32 raw words, sharded into 65,536 blocks of
//!   65,536 consecutive words (`vcore::space::par_chunks`). Because every in-range
//!   argument tuple of every opcode is the field extraction of exactly one valid word
//!   (the reference layout below is a bijection tuple <-> word by construction), the
//!   sweep also enumerates "all opcodes x all in-range argument tuples" in full, not
//!   only boundary classes: the constructors are called on every tuple.
//!   Additionally: all 256 opcode bytes through `Opcode::try_from`; and the real
//!   `Interpreter::instruction` on (every opcode byte) x (argument words with <= 1 set
//!   bit (quick) / <= 3 set bits (thorough), plus all-ones) for parser acceptance.
//!
//! Reference (independent of fuel-asm's decoder):
//!   * opcode table (byte, NAME, constructor name, argument kinds) parsed at RUN TIME
//!     from the `impl_instructions! { .. }` invocation in
//!     `$VERIF_ROOT/subject/fuel-asm/src/lib.rs` (parse failure => panic => exit 2);
//!   * layout semantics written here from the instruction-format documentation
//!     (fuel-specs "Instruction Set": a 32-bit big-endian word = 8-bit opcode, then
//!     6-bit register ids rA rB rC rD from the most significant argument bit downwards,
//!     an immediate occupies the least significant 6/12/18/24 bits; fuel-asm type docs:
//!     "6-bit register ID", "6/12/18/24-bit immediate"; `InvalidOpcode`: "opcode doesn't
//!     exist, or the reserved part of the instruction (i.e. space outside arguments) is
//!     non-zero").
//!
//! Oracle per word w (op = w >> 24, args = w & 0xffffff):
//!   accept   `Instruction::try_from(w)` is Ok  <=>  op is in the table and
//!            args has no bit outside the declared argument fields; the `[u8;4]`
//!            decoder gives the same result;
//!   roundtrip `u32::from(inst) == w`, `inst.to_bytes() == w.to_be_bytes()`;
//!   opcode   `inst.opcode() as u8 == op`, `Opcode::try_from(op) == Ok(inst.opcode())`;
//!   unpack   the decoded variant's `unpack()` == reference field extraction;
//!   access   `ra()/rb()/rc()/rd()/imm06()/imm12()/imm18()/imm24()` == reference;
//!   reg_ids  `Instruction::reg_ids()` == reference register fields;
//!   new      `op::XXX::new(typed args)` built from the reference fields re-encodes
//!            to w and equals the decoded instruction;
//!   short    `op::xxx(literal args)` (the panicking short-hand constructors) likewise;
//!   interp   the interpreter's argument parser, i.e. the two steps of
//!            `instruction_inner`/`execute_op!` (`Opcode::try_from(byte)` then
//!            `op::XXX::from_raw_args([b1,b2,b3])`), agrees with the general decoder:
//!            same acceptance, same instruction value (as the statement says; a
//!            decoder that is itself wrong is reported under `accept`/`unpack`).
//!   vm       (`Interpreter::instruction`, real code path) fails with
//!            `PanicReason::InvalidInstruction` <=> the general decoder rejects the
//!            word (the only two producers of that reason are the opcode and argument
//!            parsers in executors/instruction.rs).
//!
//! Per-type API (`unpack`, `new`, `from_raw_args`, `op::xxx`) cannot be called
//! generically, so `c08_table!` below generates the dispatch `match`es from a compact
//! copy of the table (byte NAME ctor [kinds]). The copy is NOT an oracle: at start-up
//! it is compared row by row with the run-time parse of lib.rs (mismatch => exit 2,
//! "copy out of date"), a wrong kind would not type-check, and opcode identity is
//! cross-checked through `Opcode`'s derived Debug name.
//!
//! Don't-cares: Debug text of instructions, predicate-mode error precedence, behaviour
//! of constructors on out-of-range literals (they are documented to panic/mask).

use fuel_asm::{
    op,
    Imm06,
    Imm12,
    Imm18,
    Imm24,
    Instruction,
    Opcode,
    PanicReason,
    RegId,
};
use std::collections::BTreeMap;
use vcore::{
    guard,
    json,
    run_check,
    space,
    vmkit,
    Ctx,
    Level,
    Value,
};

type Args = [u32; 4];

#[inline(always)]
fn r(x: RegId) -> u32 {
    u8::from(x) as u32
}
#[inline(always)]
fn reg(v: u32) -> RegId {
    // in-range ids must be accepted by the checked constructor
    RegId::new_checked(v as u8).expect("in-range register id refused by RegId::new_checked")
}
#[inline(always)]
fn i06(v: u32) -> Imm06 {
    Imm06::new_checked(v as u8).expect("in-range imm06 refused by Imm06::new_checked")
}
#[inline(always)]
fn i12(v: u32) -> Imm12 {
    Imm12::new_checked(v as u16).expect("in-range imm12 refused by Imm12::new_checked")
}
#[inline(always)]
fn i18(v: u32) -> Imm18 {
    Imm18::new_checked(v).expect("in-range imm18 refused by Imm18::new_checked")
}
#[inline(always)]
fn i24(v: u32) -> Imm24 {
    Imm24::new_checked(v).expect("in-range imm24 refused by Imm24::new_checked")
}

// ------------------------------------------------------------ per-kind glue (not an oracle)

macro_rules! k_unpack {
    ($o:expr;) => {{ let _ = $o; [0u32; 4] }};
    ($o:expr; RegId) => {{ let a = $o.unpack(); [r(a), 0, 0, 0] }};
    ($o:expr; RegId RegId) => {{ let (a, b) = $o.unpack(); [r(a), r(b), 0, 0] }};
    ($o:expr; RegId RegId RegId) => {{ let (a, b, c) = $o.unpack(); [r(a), r(b), r(c), 0] }};
    ($o:expr; RegId RegId RegId RegId) => {{ let (a, b, c, d) = $o.unpack(); [r(a), r(b), r(c), r(d)] }};
    ($o:expr; RegId RegId RegId Imm06) => {{ let (a, b, c, i) = $o.unpack(); [r(a), r(b), r(c), u8::from(i) as u32] }};
    ($o:expr; RegId RegId Imm12) => {{ let (a, b, i) = $o.unpack(); [r(a), r(b), u16::from(i) as u32, 0] }};
    ($o:expr; RegId Imm18) => {{ let (a, i) = $o.unpack(); [r(a), u32::from(i), 0, 0] }};
    ($o:expr; Imm24) => {{ let i = $o.unpack(); [u32::from(i), 0, 0, 0] }};
}

macro_rules! k_access {
    ($o:expr;) => {{ let _ = $o; [0u32; 4] }};
    ($o:expr; RegId) => {[r($o.ra()), 0, 0, 0]};
    ($o:expr; RegId RegId) => {[r($o.ra()), r($o.rb()), 0, 0]};
    ($o:expr; RegId RegId RegId) => {[r($o.ra()), r($o.rb()), r($o.rc()), 0]};
    ($o:expr; RegId RegId RegId RegId) => {[r($o.ra()), r($o.rb()), r($o.rc()), r($o.rd())]};
    ($o:expr; RegId RegId RegId Imm06) => {[r($o.ra()), r($o.rb()), r($o.rc()), u8::from($o.imm06()) as u32]};
    ($o:expr; RegId RegId Imm12) => {[r($o.ra()), r($o.rb()), u16::from($o.imm12()) as u32, 0]};
    ($o:expr; RegId Imm18) => {[r($o.ra()), u32::from($o.imm18()), 0, 0]};
    ($o:expr; Imm24) => {[u32::from($o.imm24()), 0, 0, 0]};
}

macro_rules! k_new {
    ($Op:ident $a:expr;) => {{ let _ = $a; op::$Op::new() }};
    ($Op:ident $a:expr; RegId) => {op::$Op::new(reg($a[0]))};
    ($Op:ident $a:expr; RegId RegId) => {op::$Op::new(reg($a[0]), reg($a[1]))};
    ($Op:ident $a:expr; RegId RegId RegId) => {op::$Op::new(reg($a[0]), reg($a[1]), reg($a[2]))};
    ($Op:ident $a:expr; RegId RegId RegId RegId) => {op::$Op::new(reg($a[0]), reg($a[1]), reg($a[2]), reg($a[3]))};
    ($Op:ident $a:expr; RegId RegId RegId Imm06) => {op::$Op::new(reg($a[0]), reg($a[1]), reg($a[2]), i06($a[3]))};
    ($Op:ident $a:expr; RegId RegId Imm12) => {op::$Op::new(reg($a[0]), reg($a[1]), i12($a[2]))};
    ($Op:ident $a:expr; RegId Imm18) => {op::$Op::new(reg($a[0]), i18($a[1]))};
    ($Op:ident $a:expr; Imm24) => {op::$Op::new(i24($a[0]))};
}

macro_rules! k_short {
    ($op:ident $a:expr;) => {{ let _ = $a; op::$op() }};
    ($op:ident $a:expr; RegId) => {op::$op($a[0] as u8)};
    ($op:ident $a:expr; RegId RegId) => {op::$op($a[0] as u8, $a[1] as u8)};
    ($op:ident $a:expr; RegId RegId RegId) => {op::$op($a[0] as u8, $a[1] as u8, $a[2] as u8)};
    ($op:ident $a:expr; RegId RegId RegId RegId) => {op::$op($a[0] as u8, $a[1] as u8, $a[2] as u8, $a[3] as u8)};
    ($op:ident $a:expr; RegId RegId RegId Imm06) => {op::$op($a[0] as u8, $a[1] as u8, $a[2] as u8, $a[3] as u8)};
    ($op:ident $a:expr; RegId RegId Imm12) => {op::$op($a[0] as u8, $a[1] as u8, $a[2] as u16)};
    ($op:ident $a:expr; RegId Imm18) => {op::$op($a[0] as u8, $a[1])};
    ($op:ident $a:expr; Imm24) => {op::$op($a[0])};
}

macro_rules! c08_table {
    ($($ix:literal $Op:ident $op:ident [$($field:ident)*])*) => {
        /// Compile-time copy of the table, compared with the run-time parse at start-up.
        const COPY: &[(u8, &str, &str, &[&str])] = &[
            $( ($ix, stringify!($Op), stringify!($op), &[$(stringify!($field)),*]), )*
        ];

        /// `unpack()` of the decoded variant.
        #[inline(always)]
        fn sub_unpack(i: &Instruction) -> Args {
            match *i { $( Instruction::$Op(o) => k_unpack!(o; $($field)*), )* }
        }

        /// Per-field accessors of the decoded variant.
        #[inline(always)]
        fn sub_access(i: &Instruction) -> Args {
            match *i { $( Instruction::$Op(o) => k_access!(o; $($field)*), )* }
        }

        /// Typed constructor `op::XXX::new(..)` selected by opcode byte.
        #[inline(always)]
        fn sub_new(ix: u8, a: &Args) -> Option<Instruction> {
            match ix { $( $ix => Some(Instruction::from(k_new!($Op a; $($field)*))), )* _ => None }
        }

        /// Short-hand constructor `op::xxx(..)` selected by opcode byte.
        #[inline(always)]
        fn sub_short(ix: u8, a: &Args) -> Option<Instruction> {
            match ix { $( $ix => Some(k_short!($op a; $($field)*)), )* _ => None }
        }

        /// The argument-parsing step of `execute_instruction` (`execute_op!`):
        /// `fuel_asm::op::$op::from_raw_args(raw_args)` selected by `Opcode`.
        #[inline(always)]
        fn sub_from_raw_args(opcode: Opcode, raw_args: [u8; 3]) -> Option<Instruction> {
            match opcode {
                $( Opcode::$Op => op::$Op::from_raw_args(raw_args).ok().map(Instruction::from), )*
            }
        }
    };
}

c08_table! {
    0x10 ADD add [RegId RegId RegId]
    0x11 AND and [RegId RegId RegId]
    0x12 DIV div [RegId RegId RegId]
    0x13 EQ eq [RegId RegId RegId]
    0x14 EXP exp [RegId RegId RegId]
    0x15 GT gt [RegId RegId RegId]
    0x16 LT lt [RegId RegId RegId]
    0x17 MLOG mlog [RegId RegId RegId]
    0x18 MROO mroo [RegId RegId RegId]
    0x19 MOD mod_ [RegId RegId RegId]
    0x1A MOVE move_ [RegId RegId]
    0x1B MUL mul [RegId RegId RegId]
    0x1C NOT not [RegId RegId]
    0x1D OR or [RegId RegId RegId]
    0x1E SLL sll [RegId RegId RegId]
    0x1F SRL srl [RegId RegId RegId]
    0x20 SUB sub [RegId RegId RegId]
    0x21 XOR xor [RegId RegId RegId]
    0x22 MLDV mldv [RegId RegId RegId RegId]
    0x23 NIOP niop [RegId RegId RegId Imm06]
    0x24 RET ret [RegId]
    0x25 RETD retd [RegId RegId]
    0x26 ALOC aloc [RegId]
    0x27 MCL mcl [RegId RegId]
    0x28 MCP mcp [RegId RegId RegId]
    0x29 MEQ meq [RegId RegId RegId RegId]
    0x2A BHSH bhsh [RegId RegId]
    0x2B BHEI bhei [RegId]
    0x2C BURN burn [RegId RegId]
    0x2D CALL call [RegId RegId RegId RegId]
    0x2E CCP ccp [RegId RegId RegId RegId]
    0x2F CROO croo [RegId RegId]
    0x30 CSIZ csiz [RegId RegId]
    0x31 CB cb [RegId]
    0x32 LDC ldc [RegId RegId RegId Imm06]
    0x33 LOG log [RegId RegId RegId RegId]
    0x34 LOGD logd [RegId RegId RegId RegId]
    0x35 MINT mint [RegId RegId]
    0x36 RVRT rvrt [RegId]
    0x37 SCWQ scwq [RegId RegId RegId]
    0x38 SRW srw [RegId RegId RegId Imm06]
    0x39 SRWQ srwq [RegId RegId RegId RegId]
    0x3A SWW sww [RegId RegId RegId]
    0x3B SWWQ swwq [RegId RegId RegId RegId]
    0x3C TR tr [RegId RegId RegId]
    0x3D TRO tro [RegId RegId RegId RegId]
    0x3E ECK1 eck1 [RegId RegId RegId]
    0x3F ECR1 ecr1 [RegId RegId RegId]
    0x40 ED19 ed19 [RegId RegId RegId RegId]
    0x41 K256 k256 [RegId RegId RegId]
    0x42 S256 s256 [RegId RegId RegId]
    0x43 TIME time [RegId RegId]
    0x47 NOOP noop []
    0x48 FLAG flag [RegId]
    0x49 BAL bal [RegId RegId RegId]
    0x4A JMP jmp [RegId]
    0x4B JNE jne [RegId RegId RegId]
    0x4C SMO smo [RegId RegId RegId RegId]
    0x50 ADDI addi [RegId RegId Imm12]
    0x51 ANDI andi [RegId RegId Imm12]
    0x52 DIVI divi [RegId RegId Imm12]
    0x53 EXPI expi [RegId RegId Imm12]
    0x54 MODI modi [RegId RegId Imm12]
    0x55 MULI muli [RegId RegId Imm12]
    0x56 ORI ori [RegId RegId Imm12]
    0x57 SLLI slli [RegId RegId Imm12]
    0x58 SRLI srli [RegId RegId Imm12]
    0x59 SUBI subi [RegId RegId Imm12]
    0x5A XORI xori [RegId RegId Imm12]
    0x5B JNEI jnei [RegId RegId Imm12]
    0x5C LB lb [RegId RegId Imm12]
    0x5D LW lw [RegId RegId Imm12]
    0x5E SB sb [RegId RegId Imm12]
    0x5F SW sw [RegId RegId Imm12]
    0x60 MCPI mcpi [RegId RegId Imm12]
    0x61 GTF gtf [RegId RegId Imm12]
    0x62 LQW lqw [RegId RegId Imm12]
    0x63 LHW lhw [RegId RegId Imm12]
    0x64 SQW sqw [RegId RegId Imm12]
    0x65 SHW shw [RegId RegId Imm12]
    0x70 MCLI mcli [RegId Imm18]
    0x71 GM gm [RegId Imm18]
    0x72 MOVI movi [RegId Imm18]
    0x73 JNZI jnzi [RegId Imm18]
    0x74 JMPF jmpf [RegId Imm18]
    0x75 JMPB jmpb [RegId Imm18]
    0x76 JNZF jnzf [RegId RegId Imm12]
    0x77 JNZB jnzb [RegId RegId Imm12]
    0x78 JNEF jnef [RegId RegId RegId Imm06]
    0x79 JNEB jneb [RegId RegId RegId Imm06]
    0x90 JI ji [Imm24]
    0x91 CFEI cfei [Imm24]
    0x92 CFSI cfsi [Imm24]
    0x93 CFE cfe [RegId]
    0x94 CFS cfs [RegId]
    0x95 PSHL pshl [Imm24]
    0x96 PSHH pshh [Imm24]
    0x97 POPL popl [Imm24]
    0x98 POPH poph [Imm24]
    0x99 JAL jal [RegId RegId Imm12]
    0xa0 WDCM wdcm [RegId RegId RegId Imm06]
    0xa1 WQCM wqcm [RegId RegId RegId Imm06]
    0xa2 WDOP wdop [RegId RegId RegId Imm06]
    0xa3 WQOP wqop [RegId RegId RegId Imm06]
    0xa4 WDML wdml [RegId RegId RegId Imm06]
    0xa5 WQML wqml [RegId RegId RegId Imm06]
    0xa6 WDDV wddv [RegId RegId RegId Imm06]
    0xa7 WQDV wqdv [RegId RegId RegId Imm06]
    0xa8 WDMD wdmd [RegId RegId RegId RegId]
    0xa9 WQMD wqmd [RegId RegId RegId RegId]
    0xaa WDAM wdam [RegId RegId RegId RegId]
    0xab WQAM wqam [RegId RegId RegId RegId]
    0xac WDMM wdmm [RegId RegId RegId RegId]
    0xad WQMM wqmm [RegId RegId RegId RegId]
    0xb0 ECAL ecal [RegId RegId RegId RegId]
    0xba BSIZ bsiz [RegId RegId]
    0xbb BLDD bldd [RegId RegId RegId RegId]
    0xbc ECOP ecop [RegId RegId RegId RegId]
    0xbe EPAR epar [RegId RegId RegId RegId]
    0xc0 SCLR sclr [RegId RegId]
    0xc1 SRDD srdd [RegId RegId RegId RegId]
    0xc2 SRDI srdi [RegId RegId RegId Imm06]
    0xc3 SWRD swrd [RegId RegId RegId]
    0xc4 SWRI swri [RegId RegId Imm12]
    0xc5 SUPD supd [RegId RegId RegId RegId]
    0xc6 SUPI supi [RegId RegId RegId Imm06]
    0xc7 SPLD spld [RegId RegId]
}

// ------------------------------------------------------------ reference: table + layout

/// One parsed row of `impl_instructions!`.
#[derive(Debug, Clone)]
struct Row {
    byte: u8,
    name: String,
    ctor: String,
    fields: Vec<String>,
}

/// Bit layout of the 24 argument bits of one opcode (reference semantics).
#[derive(Clone, Copy, Default)]
struct Layout {
    defined: bool,
    kind: u8,
    nf: u8,
    nregs: u8,
    shift: [u8; 4],
    width: [u8; 4],
    /// mask (within the low 24 bits) of bits that belong to a declared argument
    used: u32,
}

struct Tables {
    lay: [Layout; 256],
    rows: Vec<Row>,
    row_of: [usize; 256],
    /// kinds[0] = "undefined", then the distinct argument-kind lists in table order
    kinds: Vec<String>,
}

const NO_ROW: usize = usize::MAX;
const MAX_KINDS: usize = 16;
/// kind slot of violation classes that are not per argument kind
const NO_KIND: u8 = 0xff;

fn subject_lib_rs() -> std::path::PathBuf {
    vcore::run::root().join("subject/fuel-asm/src/lib.rs")
}

#[derive(Debug, PartialEq)]
enum Tok {
    Str,
    Word(String),
    Open,
    Close,
    Colon,
}

/// Tokens of the body of `impl_instructions! { .. }` in lib.rs. Panics (=> exit 2) on
/// anything unexpected.
fn table_tokens(src: &str) -> Vec<Tok> {
    let marker = "\nimpl_instructions! {";
    let start = src.find(marker).expect("C08: `impl_instructions! {` not found in fuel-asm/src/lib.rs");
    assert!(
        src[start + marker.len()..].find(marker).is_none(),
        "C08: more than one impl_instructions! invocation"
    );
    let b = src.as_bytes();
    let mut i = start + marker.len();
    let mut toks = Vec::new();
    loop {
        assert!(i < b.len(), "C08: unterminated impl_instructions! block");
        let c = b[i];
        if c.is_ascii_whitespace() {
            i += 1;
        } else if c == b'/' && b.get(i + 1) == Some(&b'/') {
            while i < b.len() && b[i] != b'\n' {
                i += 1;
            }
        } else if c == b'"' {
            i += 1;
            loop {
                assert!(i < b.len(), "C08: unterminated string literal in table");
                match b[i] {
                    b'\\' => i += 2,
                    b'"' => {
                        i += 1;
                        break
                    }
                    _ => i += 1,
                }
            }
            toks.push(Tok::Str);
        } else if c == b'[' {
            toks.push(Tok::Open);
            i += 1;
        } else if c == b']' {
            toks.push(Tok::Close);
            i += 1;
        } else if c == b':' {
            toks.push(Tok::Colon);
            i += 1;
        } else if c == b'}' {
            break
        } else if c.is_ascii_alphanumeric() || c == b'_' {
            let s = i;
            while i < b.len() && (b[i].is_ascii_alphanumeric() || b[i] == b'_') {
                i += 1;
            }
            toks.push(Tok::Word(src[s..i].to_string()));
        } else {
            panic!("C08: unexpected character {:?} in impl_instructions! table", c as char);
        }
    }
    toks
}

fn parse_rows(src: &str) -> Vec<Row> {
    let toks = table_tokens(src);
    let mut rows = Vec::new();
    let mut i = 0;
    let word = |t: Option<&Tok>, what: &str| -> String {
        match t {
            Some(Tok::Word(w)) => w.clone(),
            other => panic!("C08: table parse: expected {what}, found {other:?}"),
        }
    };
    while i < toks.len() {
        assert_eq!(toks[i], Tok::Str, "C08: table parse: row must start with a doc string");
        i += 1;
        let num = word(toks.get(i), "opcode byte");
        i += 1;
        let byte = if let Some(h) = num.strip_prefix("0x").or_else(|| num.strip_prefix("0X")) {
            u8::from_str_radix(&h.replace('_', ""), 16)
        } else {
            num.replace('_', "").parse::<u8>()
        }
        .unwrap_or_else(|_| panic!("C08: table parse: bad opcode byte {num:?}"));
        let name = word(toks.get(i), "upper-case name");
        i += 1;
        let ctor = word(toks.get(i), "constructor name");
        i += 1;
        assert_eq!(toks.get(i), Some(&Tok::Open), "C08: table parse: expected `[` after {name}");
        i += 1;
        let mut fields = Vec::new();
        while toks.get(i) != Some(&Tok::Close) {
            let _fname = word(toks.get(i), "field name");
            assert_eq!(toks.get(i + 1), Some(&Tok::Colon), "C08: table parse: expected `:` in {name}");
            fields.push(word(toks.get(i + 2), "field type"));
            i += 3;
        }
        i += 1;
        assert!(
            name.chars().all(|c| c.is_ascii_uppercase() || c.is_ascii_digit()),
            "C08: table parse: {name:?} is not an upper-case mnemonic"
        );
        rows.push(Row {
            byte,
            name,
            ctor,
            fields,
        });
    }
    assert!(rows.len() >= 2, "C08: table parse: implausibly small table");
    rows
}

/// Layout semantics (written from the format documentation, see header).
fn layout_of(row: &Row) -> Layout {
    let mut l = Layout {
        defined: true,
        ..Default::default()
    };
    let mut imm: Option<u8> = None;
    for f in &row.fields {
        let w = match f.as_str() {
            "RegId" => {
                assert!(imm.is_none(), "C08: {}: register after immediate is not a documented format", row.name);
                assert!(l.nregs < 4, "C08: {}: more than four registers", row.name);
                let i = l.nf as usize;
                // rA = bits 23..18, rB = 17..12, rC = 11..6, rD = 5..0
                l.shift[i] = 18 - 6 * l.nregs;
                l.width[i] = 6;
                l.nregs += 1;
                l.nf += 1;
                continue
            }
            "Imm06" => 6u8,
            "Imm12" => 12,
            "Imm18" => 18,
            "Imm24" => 24,
            other => panic!("C08: {}: unknown argument kind {other:?}", row.name),
        };
        assert!(imm.is_none(), "C08: {}: two immediates", row.name);
        assert!(
            l.nregs * 6 + w == 24,
            "C08: {}: immediate position is not fixed by the documented formats",
            row.name
        );
        let i = l.nf as usize;
        l.shift[i] = 0; // immediates are right-aligned
        l.width[i] = w;
        l.nf += 1;
        imm = Some(w);
    }
    for i in 0..l.nf as usize {
        l.used |= ((1u32 << l.width[i]) - 1) << l.shift[i];
    }
    assert!(l.used <= 0x00ff_ffff);
    l
}

fn kind_text(fields: &[String]) -> String {
    format!("[{}]", fields.join(" "))
}

fn load_tables() -> Tables {
    let path = subject_lib_rs();
    let src = std::fs::read_to_string(&path)
        .unwrap_or_else(|e| panic!("C08: cannot read {}: {e}", path.display()));
    let rows = parse_rows(&src);
    let mut t = Tables {
        lay: [Layout::default(); 256],
        rows: rows.clone(),
        row_of: [NO_ROW; 256],
        kinds: vec!["undefined".to_string()],
    };
    let mut names = std::collections::BTreeSet::new();
    let mut ctors = std::collections::BTreeSet::new();
    for (n, row) in rows.iter().enumerate() {
        assert!(t.row_of[row.byte as usize] == NO_ROW, "C08: duplicate opcode byte {:#04x}", row.byte);
        assert!(names.insert(row.name.clone()), "C08: duplicate name {}", row.name);
        assert!(ctors.insert(row.ctor.clone()), "C08: duplicate constructor {}", row.ctor);
        let mut l = layout_of(row);
        let kt = kind_text(&row.fields);
        let k = match t.kinds.iter().position(|k| *k == kt) {
            Some(k) => k,
            None => {
                t.kinds.push(kt);
                t.kinds.len() - 1
            }
        };
        assert!(k < MAX_KINDS);
        l.kind = k as u8;
        t.lay[row.byte as usize] = l;
        t.row_of[row.byte as usize] = n;
    }
    // The dispatch glue must describe exactly the same table.
    let copy: Vec<(u8, String, String, Vec<String>)> = COPY
        .iter()
        .map(|(b, n, c, f)| (*b, n.to_string(), c.to_string(), f.iter().map(|s| s.to_string()).collect()))
        .collect();
    let parsed: Vec<(u8, String, String, Vec<String>)> = rows
        .iter()
        .map(|r| (r.byte, r.name.clone(), r.ctor.clone(), r.fields.clone()))
        .collect();
    if copy != parsed {
        let diff = parsed
            .iter()
            .zip(copy.iter())
            .find(|(a, b)| a != b)
            .map(|(a, b)| format!("lib.rs has {a:?}, c08.rs has {b:?}"))
            .unwrap_or_else(|| format!("row counts differ: lib.rs {} vs c08.rs {}", parsed.len(), copy.len()));
        panic!("C08: the dispatch copy of the instruction table in c08.rs is out of date: {diff}");
    }
    t
}

#[derive(Clone, Copy, PartialEq, Debug)]
enum Ref {
    Undefined,
    Reserved,
    Valid(Args),
}

#[inline(always)]
fn ref_decode(t: &Tables, w: u32) -> Ref {
    let l = &t.lay[(w >> 24) as usize];
    if !l.defined {
        return Ref::Undefined
    }
    let a = w & 0x00ff_ffff;
    if a & !l.used != 0 {
        return Ref::Reserved
    }
    let mut f = [0u32; 4];
    for i in 0..l.nf as usize {
        f[i] = (a >> l.shift[i]) & ((1u32 << l.width[i]) - 1);
    }
    Ref::Valid(f)
}

// ------------------------------------------------------------ per-word oracle

const CK_ACCEPT: u8 = 0;
const CK_BYTES: u8 = 1;
const CK_ROUNDTRIP: u8 = 2;
const CK_OPCODE: u8 = 3;
const CK_UNPACK: u8 = 4;
const CK_ACCESS: u8 = 5;
const CK_REGIDS: u8 = 6;
const CK_NEW: u8 = 7;
const CK_SHORT: u8 = 8;
const CK_INTERP: u8 = 9;
const CK_PANIC: u8 = 10;
const CK_VM: u8 = 11;
const CK_OPTABLE: u8 = 12;

fn check_name(ck: u8) -> &'static str {
    [
        "accept", "bytes-decoder", "roundtrip", "opcode", "unpack", "accessor", "reg_ids",
        "new", "shorthand", "interp-parser", "panic", "vm-parser", "optable",
    ][ck as usize]
}

fn detail_name(ck: u8, d: u8) -> String {
    match ck {
        CK_ACCEPT => match d {
            0 => "accepts-nonzero-reserved-bits".into(),
            1 => "accepts-undefined-opcode".into(),
            _ => "rejects-valid-word".into(),
        },
        CK_INTERP | CK_VM => match d {
            0 => "accepts-word-the-decoder-rejects".into(),
            1 => "rejects-word-the-decoder-accepts".into(),
            _ => "value-differs-from-decoder".into(),
        },
        CK_BYTES => "differs-from-u32-decoder".into(),
        CK_ROUNDTRIP => "reencoded-word-differs".into(),
        CK_OPCODE => "opcode-differs".into(),
        CK_UNPACK | CK_ACCESS | CK_REGIDS => format!("arg{d}"),
        CK_NEW | CK_SHORT => match d {
            0 => "encodes-to-different-word".into(),
            1 => "differs-from-decoded".into(),
            _ => "no-constructor".into(),
        },
        CK_PANIC => "host-panic".into(),
        CK_OPTABLE => match d {
            0 => "accepts-undefined-byte".into(),
            1 => "rejects-defined-byte".into(),
            2 => "byte-value-differs".into(),
            _ => "name-differs".into(),
        },
        _ => format!("d{d}"),
    }
}

/// Per-shard accumulator (merged in shard order => deterministic).
struct Acc {
    /// (check, kind, detail) -> (smallest failing word, number of failing words)
    viol: BTreeMap<(u8, u8, u8), (u32, u64)>,
    panic_msg: Option<(u32, String)>,
    dec_accepted: [u64; MAX_KINDS],
    dec_rejected: u64,
    ref_valid: u64,
    ref_undefined: u64,
    ref_reserved: u64,
    /// per opcode byte: bit set of argument classes seen among reference-valid words
    classes: Box<[u128; 256]>,
}

impl Acc {
    fn new() -> Self {
        Acc {
            viol: BTreeMap::new(),
            panic_msg: None,
            dec_accepted: [0; MAX_KINDS],
            dec_rejected: 0,
            ref_valid: 0,
            ref_undefined: 0,
            ref_reserved: 0,
            classes: Box::new([0u128; 256]),
        }
    }

    #[cold]
    #[inline(never)]
    fn hit(&mut self, ck: u8, kind: u8, detail: u8, w: u32) {
        let e = self.viol.entry((ck, kind, detail)).or_insert((w, 0));
        e.0 = e.0.min(w);
        e.1 += 1;
    }

    fn merge(&mut self, o: Acc) {
        for (k, (w, n)) in o.viol {
            let e = self.viol.entry(k).or_insert((w, 0));
            e.0 = e.0.min(w);
            e.1 += n;
        }
        match (&self.panic_msg, o.panic_msg) {
            (Some((a, _)), Some((b, m))) if b < *a => self.panic_msg = Some((b, m)),
            (None, Some(p)) => self.panic_msg = Some(p),
            _ => {}
        }
        for i in 0..MAX_KINDS {
            self.dec_accepted[i] += o.dec_accepted[i];
        }
        self.dec_rejected += o.dec_rejected;
        self.ref_valid += o.ref_valid;
        self.ref_undefined += o.ref_undefined;
        self.ref_reserved += o.ref_reserved;
        for i in 0..256 {
            self.classes[i] |= o.classes[i];
        }
    }
}

/// The whole C08 oracle for one word (everything except the real-VM probe).
#[inline(always)]
fn check_word(t: &Tables, w: u32, acc: &mut Acc) {
    let ix = (w >> 24) as u8;
    let l = &t.lay[ix as usize];
    let kind = l.kind;
    let bytes = w.to_be_bytes();

    // subject: general decoders
    let dec = Instruction::try_from(w).ok();
    let dec_b = Instruction::try_from(bytes).ok();
    // subject: the interpreter's two parsing steps
    let opc = Opcode::try_from(ix).ok();
    let interp = match opc {
        Some(o) => sub_from_raw_args(o, [bytes[1], bytes[2], bytes[3]]),
        None => None,
    };

    let rf = ref_decode(t, w);
    let ref_ok = matches!(rf, Ref::Valid(_));

    if dec != dec_b {
        acc.hit(CK_BYTES, kind, 0, w);
    }
    if dec.is_some() != ref_ok {
        let d = match rf {
            Ref::Reserved => 0,
            Ref::Undefined => 1,
            Ref::Valid(_) => 2,
        };
        acc.hit(CK_ACCEPT, kind, d, w);
    }
    // the statement asks for agreement with the general decoder (acceptance and value)
    // (one generic function => the key does not carry the argument kind)
    match (&interp, &dec) {
        (Some(_), None) => acc.hit(CK_INTERP, NO_KIND, 0, w),
        (None, Some(_)) => acc.hit(CK_INTERP, NO_KIND, 1, w),
        (Some(a), Some(b)) if a != b => acc.hit(CK_INTERP, NO_KIND, 2, w),
        _ => {}
    }
    match dec {
        Some(inst) => {
            acc.dec_accepted[kind as usize] += 1;
            if u32::from(inst) != w || inst.to_bytes() != bytes {
                acc.hit(CK_ROUNDTRIP, kind, 0, w);
            }
            let o = inst.opcode();
            if o as u8 != ix || u8::from(o) != ix || opc != Some(o) {
                acc.hit(CK_OPCODE, kind, 0, w);
            }
        }
        None => acc.dec_rejected += 1,
    }

    let a = match rf {
        Ref::Undefined => {
            acc.ref_undefined += 1;
            return
        }
        Ref::Reserved => {
            acc.ref_reserved += 1;
            return
        }
        Ref::Valid(a) => a,
    };
    acc.ref_valid += 1;
    let nf = l.nf as usize;
    let nregs = l.nregs as usize;

    // class of the argument tuple: per field 0 / max / other (evidence only)
    let mut cls = 0u32;
    for i in 0..nf {
        let max = (1u32 << l.width[i]) - 1;
        let c = if a[i] == 0 {
            0
        } else if a[i] == max {
            1
        } else {
            2
        };
        cls = cls * 3 + c;
    }
    acc.classes[ix as usize] |= 1u128 << cls;

    if let Some(inst) = dec {
        let u = sub_unpack(&inst);
        let v = sub_access(&inst);
        for i in 0..nf {
            if u[i] != a[i] {
                acc.hit(CK_UNPACK, kind, i as u8, w);
            }
            if v[i] != a[i] {
                acc.hit(CK_ACCESS, kind, i as u8, w);
            }
        }
        let ids = inst.reg_ids();
        for i in 0..4 {
            let exp = if i < nregs { Some(a[i]) } else { None };
            if ids[i].map(r) != exp {
                acc.hit(CK_REGIDS, kind, i as u8, w);
            }
        }
    }

    // constructor direction: every in-range tuple is the extraction of exactly one
    // reference-valid word, so this visits every (opcode, tuple).
    match sub_new(ix, &a) {
        Some(c) => {
            if u32::from(c) != w {
                acc.hit(CK_NEW, kind, 0, w);
            } else if dec.is_some() && dec != Some(c) {
                acc.hit(CK_NEW, kind, 1, w);
            }
        }
        None => acc.hit(CK_NEW, kind, 2, w),
    }
    match sub_short(ix, &a) {
        Some(c) => {
            if u32::from(c) != w {
                acc.hit(CK_SHORT, kind, 0, w);
            } else if dec.is_some() && dec != Some(c) {
                acc.hit(CK_SHORT, kind, 1, w);
            }
        }
        None => acc.hit(CK_SHORT, kind, 2, w),
    }
}

/// `check_word` with panic capture (replay, and the slow path of a block that unwound).
fn check_word_guarded(t: &Tables, w: u32, acc: &mut Acc) {
    if let Err(m) = guard::catch_any(|| check_word(t, w, acc)) {
        let kind = t.lay[(w >> 24) as usize].kind;
        acc.hit(CK_PANIC, kind, 0, w);
        if acc.panic_msg.as_ref().map_or(true, |(pw, _)| w < *pw) {
            acc.panic_msg = Some((w, m));
        }
    }
}

/// 65,536 consecutive words.
fn run_block(t: &Tables, block: u32, acc: &mut Acc) {
    let base = block << 16;
    let mut tmp = Acc::new();
    let fast = guard::catch_any(|| {
        for lo in 0..=0xffffu32 {
            check_word(t, base | lo, &mut tmp);
        }
    });
    match fast {
        Ok(()) => acc.merge(tmp),
        Err(_) => {
            // something unwound: redo the block word by word to attribute it
            for lo in 0..=0xffffu32 {
                check_word_guarded(t, base | lo, acc);
            }
        }
    }
}

/// `Opcode::try_from(u8)` against the table (all 256 bytes).
fn check_opcode_byte(t: &Tables, b: u8, acc: &mut Acc) {
    let w = (b as u32) << 24;
    let row = t.row_of[b as usize];
    let kind = t.lay[b as usize].kind;
    match (Opcode::try_from(b), row) {
        (Ok(_), NO_ROW) => acc.hit(CK_OPTABLE, kind, 0, w),
        (Err(_), NO_ROW) => {}
        (Err(_), _) => acc.hit(CK_OPTABLE, kind, 1, w),
        (Ok(o), n) => {
            if o as u8 != b || u8::from(o) != b {
                acc.hit(CK_OPTABLE, kind, 2, w);
            }
            if format!("{o:?}") != t.rows[n].name {
                acc.hit(CK_OPTABLE, kind, 3, w);
            }
        }
    }
}

/// The real interpreter: `Interpreter::instruction(word)` on a fresh script VM.
/// Returns the observed step label.
fn check_vm_word(t: &Tables, w: u32, acc: &mut Acc) -> String {
    let mut vm = vmkit::vm_for_script(&[op::ret(RegId::ONE)], vec![], 1_000_000);
    let step = vmkit::inject_raw(&mut vm, w);
    let rejected = step.panic_reason() == Some(PanicReason::InvalidInstruction);
    let dec_ok = Instruction::try_from(w).is_ok();
    match (rejected, dec_ok) {
        (false, false) => acc.hit(CK_VM, NO_KIND, 0, w),
        (true, true) => acc.hit(CK_VM, NO_KIND, 1, w),
        _ => {}
    }
    step.label()
}

/// Argument words with at most `k` set bits (ascending popcount, then value) + all-ones.
fn sparse_args(k: u32) -> Vec<u32> {
    let mut v = vec![0u32];
    if k >= 1 {
        for i in 0..24 {
            v.push(1 << i);
        }
    }
    if k >= 2 {
        for i in 0..24 {
            for j in 0..i {
                v.push((1 << i) | (1 << j));
            }
        }
    }
    if k >= 3 {
        for i in 0..24 {
            for j in 0..i {
                for h in 0..j {
                    v.push((1 << i) | (1 << j) | (1 << h));
                }
            }
        }
    }
    v.push(0x00ff_ffff);
    v
}

// ------------------------------------------------------------ reporting

fn describe(t: &Tables, w: u32) -> String {
    let ix = (w >> 24) as u8;
    let row = t.row_of[ix as usize];
    let rf = ref_decode(t, w);
    let reference = match (row, rf) {
        (NO_ROW, _) => format!("opcode byte {ix:#04x} undefined => invalid"),
        (n, Ref::Reserved) => format!(
            "{} {} with reserved bits {:#08x} set => invalid",
            t.rows[n].name,
            kind_text(&t.rows[n].fields),
            w & 0x00ff_ffff & !t.lay[ix as usize].used
        ),
        (n, Ref::Valid(a)) => format!(
            "{} {} args={:?}",
            t.rows[n].name,
            kind_text(&t.rows[n].fields),
            &a[..t.lay[ix as usize].nf as usize]
        ),
        (_, Ref::Undefined) => unreachable!(),
    };
    let subject = guard::catch_any(|| {
        let dec = Instruction::try_from(w);
        let b = w.to_be_bytes();
        let interp = Opcode::try_from(ix)
            .ok()
            .and_then(|o| sub_from_raw_args(o, [b[1], b[2], b[3]]));
        let mut s = match &dec {
            Ok(i) => format!(
                "try_from={i:?} reencoded={:#010x} unpack={:?} reg_ids={:?}",
                u32::from(*i),
                sub_unpack(i),
                i.reg_ids().iter().map(|x| x.map(r)).collect::<Vec<_>>()
            ),
            Err(e) => format!("try_from=Err({e:?})"),
        };
        s += &format!(" from_raw_args={interp:?}");
        if let Ref::Valid(a) = rf {
            s += &format!(
                " new->{:?} shorthand->{:?}",
                guard::catch_any(|| sub_new(ix, &a).map(u32::from)).map(|x| x.map(|v| format!("{v:#010x}"))),
                guard::catch_any(|| sub_short(ix, &a).map(u32::from)).map(|x| x.map(|v| format!("{v:#010x}"))),
            );
        }
        s
    })
    .unwrap_or_else(|m| format!("PANIC {m}"));
    format!("word {w:#010x}: reference: {reference}; subject: {subject}")
}

fn report(t: &Tables, acc: &Acc, ctx: &Ctx) {
    for ((ck, kind, d), (w, n)) in &acc.viol {
        let key = if *kind == NO_KIND {
            format!("C08:{}:{}", check_name(*ck), detail_name(*ck, *d))
        } else {
            format!("C08:{}:{}:{}", check_name(*ck), t.kinds[*kind as usize], detail_name(*ck, *d))
        };
        let mut what = format!("{n} word(s) in this class; smallest: {}", describe(t, *w));
        if *ck == CK_PANIC {
            if let Some((_, m)) = &acc.panic_msg {
                what += &format!("; panic: {m}");
            }
        }
        if *ck == CK_VM {
            let mut scratch = Acc::new();
            what += &format!("; Interpreter::instruction -> {}", check_vm_word(t, *w, &mut scratch));
        }
        ctx.violation(key, what, json!({ "word": format!("{w:#010x}") }));
    }
}

// ------------------------------------------------------------ driver

fn explore(ctx: &Ctx) {
    ctx.rule(
        "all 2^32 words in ascending order, 65,536 blocks of 65,536 words, every word through the \
         whole per-word oracle; non-trivial = word the reference accepts (defined opcode, reserved \
         bits zero); distinct counts (opcode byte, per-argument class in {0, max, other}) of such \
         words -- the exact number of accepted words is coverage.words.reference_valid",
    );
    ctx.assume(
        "layout semantics as documented: opcode = top byte; 6-bit register ids rA..rD at bits \
         23..18, 17..12, 11..6, 5..0; immediates right-aligned in 6/12/18/24 bits",
    );
    ctx.assume(
        "the interpreter's argument parser is Opcode::try_from(byte) followed by \
         op::XXX::from_raw_args(bytes[1..]) (read from executors/instruction.rs; the function \
         itself is private) -- compared on all words; the real Interpreter::instruction is probed \
         for acceptance on the sparse argument set only",
    );
    ctx.set(
        "dont_care",
        json!([
            "Debug rendering of instructions",
            "which error a predicate-mode VM reports for a contract-only opcode with bad arguments",
            "constructors applied to out-of-range literals (documented to mask or panic)",
            "what Interpreter::instruction does with a word its parser accepted (any outcome other than InvalidInstruction counts as accepted)"
        ]),
    );

    let t = load_tables();

    // expected number of valid words, analytically from the parsed table
    let mut per_kind: BTreeMap<String, u64> = BTreeMap::new();
    let mut expect_valid = 0u64;
    for row in &t.rows {
        *per_kind.entry(kind_text(&row.fields)).or_insert(0) += 1;
        expect_valid += 1u64 << t.lay[row.byte as usize].used.count_ones();
    }
    ctx.set(
        "opcode_table",
        json!({
            "source": subject_lib_rs().display().to_string(),
            "defined_opcodes": t.rows.len(),
            "opcodes_per_kind": per_kind,
            "first": format!("{:#04x} {}", t.rows[0].byte, t.rows[0].name),
            "last": format!("{:#04x} {}", t.rows[t.rows.len() - 1].byte, t.rows[t.rows.len() - 1].name),
        }),
    );

    let mut total = Acc::new();

    // (1) opcode bytes
    for b in 0..=255u8 {
        check_opcode_byte(&t, b, &mut total);
    }
    ctx.evals(256);

    // (2) all words
    let t0 = ctx.elapsed();
    space::par_chunks(
        1 << 16,
        32,
        Acc::new,
        |block, acc| run_block(&t, block as u32, acc),
        |a| total.merge(a),
    );
    ctx.evals(1u64 << 32);
    let sweep_s = ctx.elapsed() - t0;
    assert_eq!(
        total.ref_valid + total.ref_undefined + total.ref_reserved,
        1u64 << 32,
        "C08: sweep did not visit every word"
    );
    assert_eq!(total.ref_valid, expect_valid, "C08: reference-valid count differs from 2^(argument bits) sum");
    ctx.set(
        "words",
        json!({
            "total": 1u64 << 32,
            "reference_valid": total.ref_valid,
            "reference_invalid_undefined_opcode": total.ref_undefined,
            "reference_invalid_reserved_bits": total.ref_reserved,
            "constructor_tuples_covered": total.ref_valid,
            "sweep_wall_s": (sweep_s * 10.0).round() / 10.0,
        }),
    );
    for (k, n) in total.dec_accepted.iter().enumerate() {
        if *n > 0 {
            ctx.outcome(&format!("decoder-accepts:{}", t.kinds[k]), *n);
        }
    }
    ctx.outcome("decoder-rejects", total.dec_rejected);
    for ix in 0..256usize {
        let mut bits = total.classes[ix];
        while bits != 0 {
            let c = bits.trailing_zeros();
            ctx.fp_of(&(ix as u8, c));
            bits &= bits - 1;
        }
    }

    // (3) the real interpreter on the sparse argument set
    let args = sparse_args(ctx.pick(1, 3));
    let mut vm_words: Vec<u32> = Vec::new();
    for b in 0..=255u32 {
        if t.lay[b as usize].defined {
            vm_words.extend(args.iter().map(|a| (b << 24) | a));
        } else {
            vm_words.push(b << 24);
            vm_words.push((b << 24) | 0x00ff_ffff);
        }
    }
    struct VmAcc {
        acc: Acc,
        labels: BTreeMap<String, u64>,
    }
    let mut vm_labels: BTreeMap<String, u64> = BTreeMap::new();
    space::par_chunks(
        vm_words.len() as u64,
        64,
        || VmAcc {
            acc: Acc::new(),
            labels: BTreeMap::new(),
        },
        |i, a| {
            let label = check_vm_word(&t, vm_words[i as usize], &mut a.acc);
            *a.labels.entry(format!("vm:{label}")).or_insert(0) += 1;
        },
        |a| {
            total.merge(a.acc);
            for (k, v) in a.labels {
                *vm_labels.entry(k).or_insert(0) += v;
            }
        },
    );
    ctx.evals(vm_words.len() as u64);
    ctx.outcomes_merge(&vm_labels);
    ctx.set(
        "vm_probe",
        json!({
            "words": vm_words.len(),
            "argument_words_per_defined_opcode": args.len(),
            "argument_set": format!("<= {} set bits among the 24 argument bits, plus 0xffffff", ctx.pick(1, 3)),
            "undefined_opcode_bytes_probed_with": ["0x000000", "0xffffff"],
        }),
    );

    // samples: real cases from this run
    for w in [
        0x1012_3000u32, // ADD r4 r35 r0
        0x50ff_ffff,    // ADDI max everything
        0x7200_0001,    // MOVI r0 1
        0x9080_0000,    // JI 2^23
        0x4700_0000,    // NOOP
        0x1a04_1001,    // MOVE with a reserved bit
        0x4700_0001,    // NOOP with a reserved bit
        0x0000_0000,    // undefined opcode
    ] {
        let mut scratch = Acc::new();
        let vm = check_vm_word(&t, w, &mut scratch);
        ctx.sample(json!({ "case": describe(&t, w), "Interpreter::instruction": vm }));
    }

    report(&t, &total, ctx);
}

fn replay(case: &Value, ctx: &Ctx) {
    let s = case["word"].as_str().expect("case.word");
    let w = u32::from_str_radix(s.trim_start_matches("0x"), 16).expect("case.word hex");
    let t = load_tables();
    let mut acc = Acc::new();
    check_opcode_byte(&t, (w >> 24) as u8, &mut acc);
    check_word_guarded(&t, w, &mut acc);
    check_vm_word(&t, w, &mut acc);
    report(&t, &acc, ctx);
}

fn main() {
    run_check("C08", Level::Exploration, explore, replay)
}
