//! C11 — Binary Merkle trees behave like fresh trees across reset and reload.
//!
//! Explicit-state BFS; every transition is a call into the real
//! `fuel_merkle::binary::{MerkleTree, in_memory::MerkleTree}`.
//!
//! Both models also have bulk letters PushN(4) and PushN(7) (medium leaf counts at small
//! depth; total leaves capped at 24).
//! Model A (in-memory tree): actions Push(a|b), Reset. Key = history (the wrapper's
//!   node storage is a private hash map, so nothing is merged).
//! Model B (storage-backed tree over the harness-owned node storage): actions
//!   Push(a|b), Reset, Load(k) for every k <= number of consistently stored leaves.
//!   Key = (reference leaves, stored leaves, leaves_count(), root(), sorted storage).
//!
//! Invariant on every state: root == RFC 6962 MTH(ref), leaves_count == |ref|,
//! prove(i) == audit path of a fresh tree for i < |ref| (and verifies), refused for
//! i in {|ref|, |ref|+1}.

use fuel_merkle::{
    binary::{
        self,
        in_memory,
        Primitive,
    },
    storage::Mappable,
};
use serde::{
    Deserialize,
    Serialize,
};
use vcore::{
    bfs::{
        self,
        Model,
    },
    guard,
    json,
    nodestore::Shared,
    oracle::{
        self,
        H256,
    },
    run_check,
    Ctx,
    Level,
    Value,
};

#[derive(Debug, Clone)]
struct Table;
impl Mappable for Table {
    type Key = Self::OwnedKey;
    type OwnedKey = u64;
    type OwnedValue = Primitive;
    type Value = Self::OwnedValue;
}
type Store = Shared<Table>;
type Tree = binary::MerkleTree<Table, Store>;

#[derive(Debug, Clone, Serialize, Deserialize, PartialEq, Eq, Hash)]
enum Act {
    Push(u8),
    /// Push `n` leaves at once (tags alternate starting with `tag`): makes medium
    /// leaf counts (7, 8, 11, 15 …) reachable at small search depth, which is where
    /// stale storage nodes of a longer earlier history coincide with intermediate
    /// nodes of a shorter current tree.
    PushN(u8, u8),
    Reset,
    Load(u64),
}

const MAX_LEAVES: usize = 24;

fn bulk_tags(tag: u8, n: u8) -> Vec<u8> {
    (0..n).map(|i| if i % 2 == 0 { tag } else { tag + 1 }).collect()
}

fn leaf_data(tag: u8) -> Vec<u8> {
    match tag {
        0 => vec![],            // empty leaf
        1 => vec![0xaa],        // one byte
        2 => vec![0x5b; 32],    // hash-sized
        _ => vec![tag; 33],
    }
}

// ------------------------------------------------------------------ shared oracle

fn expected_proofs(leaves: &[u8]) -> (H256, Vec<Vec<H256>>) {
    let hs: Vec<H256> = leaves.iter().map(|t| oracle::leaf_hash(&leaf_data(*t))).collect();
    let root = oracle::mth_hashed(&hs);
    let proofs = (0..hs.len()).map(|i| oracle::audit_path(i, &hs)).collect();
    (root, proofs)
}

fn viol(ctx: &Ctx, model: &str, path: &[Act], probe: &str, expected: String, observed: String) {
    // key: model + probe class (not the whole path) so that one defect = one key
    let class = probe.split('(').next().unwrap_or(probe);
    ctx.violation(
        format!("C11:{model}:{class}"),
        format!("after {path:?}: {probe} expected {expected}, observed {observed}"),
        json!({"model": model, "actions": path, "probe": probe}),
    );
}

/// Compare one tree observation set against the reference.
fn check_obs(
    ctx: &Ctx,
    model: &str,
    path: &[Act],
    refl: &[u8],
    root: Result<[u8; 32], String>,
    count: Option<u64>,
    prove: &dyn Fn(u64) -> Result<Option<([u8; 32], Vec<[u8; 32]>)>, String>,
) {
    let (eroot, eproofs) = expected_proofs(refl);
    match root {
        Ok(r) if r == eroot => {}
        other => viol(ctx, model, path, "root", hex::encode(eroot), format!("{other:?}")),
    }
    if let Some(c) = count {
        if c != refl.len() as u64 {
            viol(ctx, model, path, "leaves_count", refl.len().to_string(), c.to_string());
        }
    }
    let n = refl.len() as u64;
    for i in 0..=n + 1 {
        let got = prove(i);
        if i < n {
            let exp = &eproofs[i as usize];
            match got {
                Ok(Some((r, p))) => {
                    if r != eroot || &p != exp {
                        viol(
                            ctx,
                            model,
                            path,
                            &format!("prove({i})"),
                            format!("proof of fresh tree (len {})", exp.len()),
                            format!("root_ok={} proof_len={} proof_eq={}", r == eroot, p.len(), &p == exp),
                        );
                    } else {
                        // the returned proof must verify with the library verifier
                        let data = leaf_data(refl[i as usize]);
                        let ps: Vec<fuel_merkle::common::Bytes32> = p.clone();
                        let ok = guard::catch_any(|| binary::verify(&r, &data, &ps, i, n));
                        if ok != Ok(true) {
                            viol(ctx, model, path, &format!("verify(prove({i}))"), "true".into(), format!("{ok:?}"));
                        }
                    }
                }
                other => viol(
                    ctx,
                    model,
                    path,
                    &format!("prove({i})"),
                    "Some(proof)".into(),
                    format!("{other:?}").chars().take(160).collect(),
                ),
            }
        } else {
            match got {
                Ok(None) => {}
                other => viol(
                    ctx,
                    model,
                    path,
                    &format!("prove_beyond({i})"),
                    "refused".into(),
                    format!("{other:?}").chars().take(160).collect(),
                ),
            }
        }
    }
}

// ------------------------------------------------------------------ model A

struct InMem {
    alphabet: Vec<u8>,
    bulk: Vec<u8>,
}

#[derive(Clone)]
struct InMemState {
    tree: in_memory::MerkleTree,
    refl: Vec<u8>,
    hist: Vec<Act>,
}

impl Model for InMem {
    type State = InMemState;
    type Action = Act;
    type Key = Vec<Act>;

    fn init(&self) -> InMemState {
        InMemState {
            tree: in_memory::MerkleTree::new(),
            refl: vec![],
            hist: vec![],
        }
    }

    fn actions(&self, s: &InMemState) -> Vec<Act> {
        let mut v: Vec<Act> = Vec::new();
        if s.refl.len() < MAX_LEAVES {
            v.extend(self.alphabet.iter().map(|t| Act::Push(*t)));
        }
        for n in &self.bulk {
            if s.refl.len() + *n as usize <= MAX_LEAVES {
                v.push(Act::PushN(self.alphabet[0], *n));
            }
        }
        v.push(Act::Reset);
        v
    }

    fn step(&self, s: &InMemState, a: &Act, path: &[Act], ctx: &Ctx) -> Option<InMemState> {
        let mut n = s.clone();
        let r = guard::catch_any(|| match a {
            Act::Push(t) => n.tree.push(&leaf_data(*t)),
            Act::PushN(t, k) => {
                for x in bulk_tags(*t, *k) {
                    n.tree.push(&leaf_data(x))
                }
            }
            Act::Reset => n.tree.reset(),
            Act::Load(_) => {}
        });
        if let Err(m) = r {
            let mut p = path.to_vec();
            p.push(a.clone());
            viol(ctx, "inmem", &p, "step", "no panic".into(), m);
            return None
        }
        match a {
            Act::Push(t) => n.refl.push(*t),
            Act::PushN(t, k) => n.refl.extend(bulk_tags(*t, *k)),
            Act::Reset => n.refl.clear(),
            Act::Load(_) => {}
        }
        n.hist.push(a.clone());
        Some(n)
    }

    fn key(&self, s: &InMemState) -> Vec<Act> {
        s.hist.clone()
    }

    fn check(&self, s: &InMemState, path: &[Act], ctx: &Ctx) {
        let root = guard::catch_any(|| s.tree.root());
        let tree = &s.tree;
        check_obs(ctx, "inmem", path, &s.refl, root, None, &|i| {
            guard::catch_any(|| tree.prove(i))
        });
        ctx.evals(1);
        ctx.fp_of(&(0u8, &s.refl, s.hist.len()));
        if path.len() >= 4 && path.contains(&Act::Reset) && !s.refl.is_empty() && ctx.sample_count() < 3 {
            ctx.sample(json!({"model": "inmem", "actions": path, "probes": format!("root, prove(0..={})", s.refl.len() + 1)}));
        }
    }
}

// ------------------------------------------------------------------ model B

struct Stored {
    alphabet: Vec<u8>,
    bulk: Vec<u8>,
}

/// The storage-backed tree is rebuilt by replaying the history (the tree owns its
/// storage handle; a replay is the only way to get an independent copy without
/// going through `load`, which is itself under test).
struct StoredState {
    hist: Vec<Act>,
    refl: Vec<u8>,
    stored: Vec<u8>,
    tree: std::sync::Mutex<Tree>,
    store: Store,
}

fn stored_replay(hist: &[Act]) -> Result<StoredState, String> {
    let store = Store::new();
    let mut tree = Tree::new(store.clone());
    let mut refl: Vec<u8> = vec![];
    let mut stored: Vec<u8> = vec![];
    for a in hist {
        match a {
            Act::Push(_) | Act::PushN(_, _) => {
                let tags = match a {
                    Act::Push(t) => vec![*t],
                    Act::PushN(t, k) => bulk_tags(*t, *k),
                    _ => unreachable!(),
                };
                for t in tags {
                    let d = leaf_data(t);
                    let r = guard::catch_any(|| tree.push(&d));
                    match r {
                        Ok(Ok(())) => {}
                        Ok(Err(e)) => return Err(format!("push error {e:?}")),
                        Err(m) => return Err(format!("push panicked: {m}")),
                    }
                    stored.truncate(refl.len());
                    stored.push(t);
                    refl.push(t);
                }
            }
            Act::Reset => {
                let r = guard::catch_any(|| tree.reset());
                if let Err(m) = r {
                    return Err(format!("reset panicked: {m}"))
                }
                refl.clear();
            }
            Act::Load(k) => {
                let r = guard::catch_any(|| Tree::load(store.clone(), *k));
                match r {
                    Ok(Ok(t)) => tree = t,
                    Ok(Err(e)) => return Err(format!("load({k}) error {e:?}")),
                    Err(m) => return Err(format!("load({k}) panicked: {m}")),
                }
                refl = stored[..*k as usize].to_vec();
            }
        }
    }
    Ok(StoredState {
        hist: hist.to_vec(),
        refl,
        stored,
        tree: std::sync::Mutex::new(tree),
        store,
    })
}

impl Model for Stored {
    type State = StoredState;
    type Action = Act;
    type Key = (Vec<u8>, Vec<u8>, u64, [u8; 32], Vec<(u64, Primitive)>);

    fn init(&self) -> StoredState {
        stored_replay(&[]).unwrap()
    }

    fn actions(&self, s: &StoredState) -> Vec<Act> {
        let mut v: Vec<Act> = Vec::new();
        if s.refl.len() < MAX_LEAVES {
            v.extend(self.alphabet.iter().map(|t| Act::Push(*t)));
        }
        for n in &self.bulk {
            if s.refl.len() + *n as usize <= MAX_LEAVES {
                v.push(Act::PushN(self.alphabet[0], *n));
            }
        }
        v.push(Act::Reset);
        for k in 0..=s.stored.len() as u64 {
            v.push(Act::Load(k));
        }
        v
    }

    fn step(&self, s: &StoredState, a: &Act, _path: &[Act], ctx: &Ctx) -> Option<StoredState> {
        let mut h = s.hist.clone();
        h.push(a.clone());
        match stored_replay(&h) {
            Ok(n) => Some(n),
            Err(m) => {
                viol(ctx, "stored", &h, "step", "Ok".into(), m);
                None
            }
        }
    }

    fn key(&self, s: &StoredState) -> Self::Key {
        let t = s.tree.lock().unwrap();
        let root = guard::catch_any(|| t.root()).unwrap_or([0xee; 32]);
        (
            s.refl.clone(),
            s.stored.clone(),
            t.leaves_count(),
            root,
            s.store.snapshot().into_iter().collect(),
        )
    }

    fn check(&self, s: &StoredState, _path: &[Act], ctx: &Ctx) {
        let t = s.tree.lock().unwrap();
        let root = guard::catch_any(|| t.root());
        let count = t.leaves_count();
        check_obs(ctx, "stored", &s.hist, &s.refl, root, Some(count), &|i| {
            guard::catch_any(|| t.prove(i).ok())
        });
        ctx.evals(1);
        ctx.fp_of(&(1u8, &s.refl, &s.stored));
        if s.hist.len() >= 5 && s.hist.iter().any(|a| matches!(a, Act::Load(k) if *k > 0)) && s.refl.len() > 1 && ctx.want_sample() {
            ctx.sample(json!({"model": "stored", "actions": s.hist, "probes": format!("root, leaves_count, prove(0..={})", s.refl.len() + 1)}));
        }
    }
}

// ------------------------------------------------------------------ driver

fn explore(ctx: &Ctx) {
    ctx.rule(
        "explicit-state BFS over the real trees; a state is non-trivial when it holds >=1 leaf \
         or was reached through reset/load; distinct = distinct (model, reference leaves, stored leaves, depth)",
    );
    ctx.assume("sha2 crate and the harness RFC 6962 reference are correct");
    ctx.assume("Load(k) is only issued for k <= leaves consistently persisted (see model B comment)");
    let (da, db) = ctx.pick((7usize, 5usize), (9, 7));
    let a = InMem {
        alphabet: vec![0, 1],
        bulk: vec![4, 7],
    };
    let sa = bfs::bfs(&a, da, 5_000_000, ctx);
    ctx.set("inmem", json!({"depth": sa.completed_depth, "states": sa.states, "transitions": sa.transitions, "per_depth": sa.per_depth, "alphabet": ["Push(empty)", "Push(1 byte)", "PushN(4)", "PushN(7)", "Reset"], "max_leaves": MAX_LEAVES}));
    let b = Stored {
        alphabet: vec![1, 2],
        bulk: vec![4, 7],
    };
    let sb = bfs::bfs(&b, db, 5_000_000, ctx);
    ctx.set("stored", json!({"depth": sb.completed_depth, "states": sb.states, "transitions": sb.transitions, "per_depth": sb.per_depth, "alphabet": ["Push(1 byte)", "Push(32 bytes)", "PushN(4)", "PushN(7)", "Reset", "Load(k<=stored)"], "max_leaves": MAX_LEAVES}));
}

fn replay(case: &Value, ctx: &Ctx) {
    let acts: Vec<Act> = serde_json::from_value(case["actions"].clone()).expect("actions");
    match case["model"].as_str() {
        Some("inmem") => bfs::replay_path(
            &InMem {
                alphabet: vec![0, 1],
                bulk: vec![4, 7],
            },
            &acts,
            ctx,
        ),
        Some("stored") => bfs::replay_path(
            &Stored {
                alphabet: vec![1, 2],
                bulk: vec![4, 7],
            },
            &acts,
            ctx,
        ),
        other => panic!("unknown model {other:?}"),
    }
}

fn main() {
    run_check("C11", Level::ModelChecking, explore, replay)
}
