//! C16 — The two secp256k1 backends agree on every signature (hook H1).
//!
//! Both in-crate backends are called side by side through
//! `fuel_crypto::verif_hooks::{secp256k1 (std / libsecp256k1), k256 (no-std)}`.
//!
//! Space (finite, fully enumerated):
//!   bases    = secret keys K × messages M; the base signature is the one produced by
//!              the std backend (`sign` of both backends is compared on all of K × M,
//!              `public_key` on all of K).
//!   T        = 23 transformations of (r, s, v, msg) acting on the 64-byte compact
//!              form (v = top bit of byte 32): flip v; s := 0, 1, ⌊n/2⌋−1, ⌊n/2⌋,
//!              ⌊n/2⌋+1, 2^255−1, n−s (only when representable, i.e. < 2^255), twin
//!              (s := n−s and flip v); r := 0, 1, n−1, n, p−1, p, 2^256−1, r+1, a
//!              fixed value that is not an x-coordinate, Gx; swap the two halves;
//!              message bit 0 / bit 255 flipped; message := n.
//!   cases    = bases × all sequences of ≤ D transformations (D = 2 quick, 3 thorough);
//!              a sequence containing an inapplicable `n−s` is skipped and counted.
//!   per case = `recover` on both backends, and `verify` on both backends for each
//!              public-key variant: signer, key recovered by either backend from the
//!              transformed signature, another signer, negated signer, off-curve,
//!              zero, non-canonical x (x+p of an on-curve point), x = 2^256−1.
//!
//! Oracle (differential, from the statement): both backends return the same key, or
//! both fail; verify: both accept or both reject; sign / public_key: equal bytes; no
//! call panics. Which `Error` variant is returned is a don't-care.
//!
//! Violation keys: `C16:<op>:<signature class>[:<pk class>]:<kind>` where the
//! signature class is s ∈ {zero-s, low-s (1..=⌊n/2⌋), high-s (⌊n/2⌋ < s < 2^255)}
//! plus `+r-zero` / `+r-ge-n` when r is outside 1..n−1, and kind ∈
//! {secp256k1-ok-k256-err, secp256k1-err-k256-ok, keys-differ, panic-<backend>}.
//!
//! Findings on the unchanged tree (each has exactly one key; anything else is new):
//!   `C16:recover:high-s:secp256k1-ok-k256-err` — for n/2 < s < 2^255 and an r that is
//!       recoverable, libsecp256k1 returns the key of the twin (r, n−s, !v) while k256
//!       rejects (its recovery ends with a verification that refuses high s). `verify`
//!       agrees (both reject high s). See `high_s_characterisation` in the evidence.
//!   `C16:sign:msg-ge-n:outputs-differ` — when the 32-byte message is >= n as an
//!       integer the RFC 6979 nonces differ (libsecp256k1 feeds the raw bytes, k256 the
//!       value reduced mod n); both signatures are valid under both backends.
//!
//! Limit: this is not all 2^768 inputs; it is every ≤ D-fold combination of the
//! boundary conditions at which ECDSA libraries are known to differ.

use std::collections::{
    BTreeMap,
    HashSet,
};

use fuel_crypto::{
    verif_hooks::{
        k256 as kb,
        secp256k1 as sb,
    },
    Message,
    SecretKey,
};
use fuel_types::Bytes32;
use serde::{
    Deserialize,
    Serialize,
};
use vcore::{
    guard,
    json,
    oracle::Big,
    run::hash64,
    run_check,
    space,
    Ctx,
    Level,
    Value,
};

// ------------------------------------------------------------------ constants

const N_HEX: &str = "fffffffffffffffffffffffffffffffebaaedce6af48a03bbfd25e8cd0364141";
const P_HEX: &str = "fffffffffffffffffffffffffffffffffffffffffffffffffffffffefffffc2f";
const GX_HEX: &str = "79be667ef9dcbbac55a06295ce870b07029bfcdb2dce28d959f2815b16f81798";

fn big_hex(h: &str) -> Big {
    Big::from_be(&hex::decode(h).unwrap())
}

fn modmul(a: &Big, b: &Big, m: &Big) -> Big {
    a.mul(b).divrem(m).1
}

fn modpow(a: &Big, e: &Big, m: &Big) -> Big {
    let mut acc = Big::one();
    let mut base = a.divrem(m).1;
    for i in 0..e.bits() {
        if !e.shr(i).low_bits(1).is_zero() {
            acc = modmul(&acc, &base, m);
        }
        base = modmul(&base, &base, m);
    }
    acc
}

/// Curve constants and derived inputs (generators of test inputs, not oracles).
struct Consts {
    n: Big,
    p: Big,
    half: Big,
    two255: Big,
    two256: Big,
    non_x: Big,
    /// on-curve point with x < 2^256 - p, so that x + p still fits in 32 bytes
    small_pt: ([u8; 32], [u8; 32]),
}

impl Consts {
    fn new() -> Self {
        let n = big_hex(N_HEX);
        let p = big_hex(P_HEX);
        let seven = Big::from_u64(7);
        let rhs = |x: &Big| modmul(&modmul(x, x, &p), x, &p).add(&seven).divrem(&p).1;
        let euler = p.sub(&Big::one()).shr(1);
        let is_qr = |a: &Big| a.is_zero() || modpow(a, &euler, &p) == Big::one();
        // first x >= 2^255 + 1 that is not an x-coordinate (and is < n)
        let mut non_x = Big::pow2(255).add(&Big::one());
        while is_qr(&rhs(&non_x)) {
            non_x = non_x.add(&Big::one());
        }
        // first x >= 1 on the curve; y = rhs^((p+1)/4) since p = 3 mod 4
        let mut x = Big::one();
        while !is_qr(&rhs(&x)) {
            x = x.add(&Big::one());
        }
        let y = modpow(&rhs(&x), &p.add(&Big::one()).shr(2), &p);
        assert_eq!(modmul(&y, &y, &p), rhs(&x), "sqrt self-check");
        let mut sx = [0u8; 32];
        let mut sy = [0u8; 32];
        sx.copy_from_slice(&x.to_be(32));
        sy.copy_from_slice(&y.to_be(32));
        Consts {
            half: n.shr(1),
            two255: Big::pow2(255),
            two256: Big::pow2(256),
            n,
            p,
            non_x,
            small_pt: (sx, sy),
        }
    }
}

// ------------------------------------------------------------------ state + alphabet

#[derive(Clone, Debug, PartialEq, Eq, Hash)]
struct St {
    sig: [u8; 64],
    msg: [u8; 32],
}

fn get_r(sig: &[u8; 64]) -> Big {
    Big::from_be(&sig[..32])
}
fn get_s(sig: &[u8; 64]) -> Big {
    let mut b = [0u8; 32];
    b.copy_from_slice(&sig[32..]);
    b[0] &= 0x7f;
    Big::from_be(&b)
}
fn get_v(sig: &[u8; 64]) -> u8 {
    sig[32] >> 7
}
fn set_r(sig: &mut [u8; 64], r: &Big) {
    sig[..32].copy_from_slice(&r.to_be(32));
}
/// s must be < 2^255; v is preserved.
fn set_s(sig: &mut [u8; 64], s: &Big) {
    let v = sig[32] & 0x80;
    sig[32..].copy_from_slice(&s.to_be(32));
    sig[32] = (sig[32] & 0x7f) | v;
}

#[derive(Clone, Copy, Debug, PartialEq, Eq, Hash, Serialize, Deserialize)]
enum T {
    FlipV,
    S0,
    S1,
    SHalfM1,
    SHalf,
    SHalfP1,
    SMax,
    SNeg,
    Twin,
    R0,
    R1,
    RNm1,
    RN,
    RPm1,
    RP,
    RMax,
    RInc,
    RNonX,
    RGx,
    Swap,
    MsgBit0,
    MsgBit255,
    MsgN,
}

const ALPHABET: [T; 23] = [
    T::FlipV,
    T::S0,
    T::S1,
    T::SHalfM1,
    T::SHalf,
    T::SHalfP1,
    T::SMax,
    T::SNeg,
    T::Twin,
    T::R0,
    T::R1,
    T::RNm1,
    T::RN,
    T::RPm1,
    T::RP,
    T::RMax,
    T::RInc,
    T::RNonX,
    T::RGx,
    T::Swap,
    T::MsgBit0,
    T::MsgBit255,
    T::MsgN,
];

/// Apply one transformation; `false` = not applicable to this state.
fn apply(t: T, st: &mut St, c: &Consts) -> bool {
    let one = Big::one();
    match t {
        T::FlipV => st.sig[32] ^= 0x80,
        T::S0 => set_s(&mut st.sig, &Big::zero()),
        T::S1 => set_s(&mut st.sig, &one),
        T::SHalfM1 => set_s(&mut st.sig, &c.half.sub(&one)),
        T::SHalf => set_s(&mut st.sig, &c.half),
        T::SHalfP1 => set_s(&mut st.sig, &c.half.add(&one)),
        T::SMax => set_s(&mut st.sig, &c.two255.sub(&one)),
        T::SNeg | T::Twin => {
            let s = get_s(&st.sig);
            if s > c.n {
                return false
            }
            let neg = c.n.sub(&s);
            if neg >= c.two255 {
                return false
            }
            set_s(&mut st.sig, &neg);
            if t == T::Twin {
                st.sig[32] ^= 0x80;
            }
        }
        T::R0 => set_r(&mut st.sig, &Big::zero()),
        T::R1 => set_r(&mut st.sig, &one),
        T::RNm1 => set_r(&mut st.sig, &c.n.sub(&one)),
        T::RN => set_r(&mut st.sig, &c.n),
        T::RPm1 => set_r(&mut st.sig, &c.p.sub(&one)),
        T::RP => set_r(&mut st.sig, &c.p),
        T::RMax => set_r(&mut st.sig, &c.two256.sub(&one)),
        T::RInc => {
            let r = get_r(&st.sig).add(&one).divrem(&c.two256).1;
            set_r(&mut st.sig, &r)
        }
        T::RNonX => set_r(&mut st.sig, &c.non_x),
        T::RGx => set_r(&mut st.sig, &big_hex(GX_HEX)),
        T::Swap => {
            let mut n = [0u8; 64];
            n[..32].copy_from_slice(&st.sig[32..]);
            n[32..].copy_from_slice(&st.sig[..32]);
            st.sig = n;
        }
        T::MsgBit0 => st.msg[31] ^= 0x01,
        T::MsgBit255 => st.msg[0] ^= 0x80,
        T::MsgN => st.msg.copy_from_slice(&c.n.to_be(32)),
    }
    true
}

fn sig_class(sig: &[u8; 64], c: &Consts) -> String {
    let s = get_s(sig);
    let r = get_r(sig);
    let mut k = if s.is_zero() {
        "zero-s"
    } else if s <= c.half {
        "low-s"
    } else {
        "high-s"
    }
    .to_string();
    if r.is_zero() {
        k.push_str("+r-zero");
    } else if r >= c.n {
        k.push_str("+r-ge-n");
    }
    k
}

// ------------------------------------------------------------------ bases

fn key_bytes(c: &Consts, quick: bool) -> Vec<[u8; 32]> {
    let b32 = |b: &Big| {
        let mut a = [0u8; 32];
        a.copy_from_slice(&b.to_be(32));
        a
    };
    let mut pat = [0u8; 32];
    for (i, b) in pat.iter_mut().enumerate() {
        *b = i as u8 + 1;
    }
    let mut v = vec![
        b32(&Big::one()),
        b32(&Big::from_u64(2)),
        b32(&Big::from_u64(3)),
        b32(&c.n.sub(&Big::one())),
        pat,
        [0xa5; 32],
    ];
    if !quick {
        v.extend([
            b32(&c.n.sub(&Big::from_u64(2))),
            b32(&c.half),
            b32(&c.half.add(&Big::one())),
            b32(&Big::pow2(128)),
            [0x5a; 32],
            b32(&Big::pow2(255)),
        ]);
    }
    v
}

fn msg_bytes(c: &Consts, quick: bool) -> Vec<[u8; 32]> {
    let b32 = |b: &Big| {
        let mut a = [0u8; 32];
        a.copy_from_slice(&b.to_be(32));
        a
    };
    let mut pat = [0u8; 32];
    for (i, b) in pat.iter_mut().enumerate() {
        *b = 0xf0 ^ (i as u8 * 7);
    }
    let mut v = vec![
        [0u8; 32],
        b32(&Big::one()),
        [0xff; 32],
        pat,
        b32(&c.n.sub(&Big::one())),
        b32(&c.n),
        b32(&c.n.add(&Big::one())),
    ];
    if !quick {
        v.extend([
            b32(&c.half),
            b32(&Big::pow2(255)),
            vcore::oracle::sha256(&[b"fuel"]),
        ]);
    }
    v
}

fn secret(bytes: &[u8; 32]) -> SecretKey {
    SecretKey::try_from(Bytes32::from(*bytes)).expect("harness secret keys are in 1..n-1")
}

// ------------------------------------------------------------------ evaluation

#[derive(Default)]
struct Acc {
    evals: u64,
    fps: HashSet<u64>,
    outcomes: BTreeMap<String, u64>,
    viols: Vec<(String, String, Value, u64)>,
    samples: Vec<(u8, Value)>,
    // characterisation counters for the high-s class
    high_s_cases: u64,
    high_s_secp_ok_k256_err: u64,
    high_s_both_err: u64,
    high_s_other: u64,
    high_s_twin_same_key: u64,
    high_s_twin_mismatch: u64,
    non_high_cases: u64,
    non_high_recover_disagree: u64,
    verify_calls_high_s: u64,
    verify_disagree_high_s: u64,
    inapplicable: u64,
}

impl Acc {
    fn out(&mut self, l: &str) {
        *self.outcomes.entry(l.to_string()).or_insert(0) += 1;
    }
    fn viol(&mut self, key: String, what: String, case: Value) {
        self.viol_n(key, what, case, 1)
    }
    fn viol_n(&mut self, key: String, what: String, case: Value, n: u64) {
        if let Some(e) = self.viols.iter_mut().find(|e| e.0 == key) {
            e.3 += n;
        } else {
            self.viols.push((key, what, case, n));
        }
    }
    fn report(self, ctx: &Ctx) {
        for (k, w, c, n) in self.viols {
            for _ in 0..n {
                ctx.violation(k.clone(), w.clone(), c.clone());
            }
        }
    }
}

type R<T> = Result<Result<T, fuel_crypto::Error>, String>;

fn kind_of<TT: PartialEq>(a: &R<TT>, b: &R<TT>) -> Option<&'static str> {
    match (a, b) {
        (Err(_), _) => Some("panic-secp256k1"),
        (_, Err(_)) => Some("panic-k256"),
        (Ok(Ok(x)), Ok(Ok(y))) => {
            if x == y {
                None
            } else {
                Some("keys-differ")
            }
        }
        (Ok(Ok(_)), Ok(Err(_))) => Some("secp256k1-ok-k256-err"),
        (Ok(Err(_)), Ok(Ok(_))) => Some("secp256k1-err-k256-ok"),
        (Ok(Err(_)), Ok(Err(_))) => None,
    }
}

fn show<TT: AsRef<[u8]>>(r: &R<TT>) -> String {
    match r {
        Err(m) => format!("PANIC({})", m.chars().take(80).collect::<String>()),
        Ok(Ok(k)) => format!("Ok({})", hex::encode(k.as_ref())),
        Ok(Err(e)) => format!("Err({e:?})"),
    }
}

fn show_unit(r: &R<()>) -> String {
    match r {
        Err(m) => format!("PANIC({})", m.chars().take(80).collect::<String>()),
        Ok(Ok(())) => "Ok".into(),
        Ok(Err(e)) => format!("Err({e:?})"),
    }
}

/// Build the state of one case; None if a transformation is inapplicable.
fn build(c: &Consts, key: &[u8; 32], msg: &[u8; 32], ts: &[T]) -> Result<Option<St>, String> {
    let sk = secret(key);
    let m = Message::from_bytes(*msg);
    let sig = guard::catch_any(|| sb::sign(&sk, &m))?;
    let mut st = St {
        sig,
        msg: *msg,
    };
    for t in ts {
        if !apply(*t, &mut st, c) {
            return Ok(None)
        }
    }
    Ok(Some(st))
}

fn case_json(key: &[u8; 32], msg: &[u8; 32], ts: &[T]) -> Value {
    json!({"kind": "sig", "key": hex::encode(key), "msg": hex::encode(msg), "ts": ts})
}

/// The single oracle for signature cases (used by explore and replay).
fn eval_case(c: &Consts, key: &[u8; 32], msg: &[u8; 32], ts: &[T], acc: &mut Acc) {
    let st = match build(c, key, msg, ts) {
        Ok(Some(st)) => st,
        Ok(None) => {
            acc.inapplicable += 1;
            return
        }
        Err(_) => return, // sign panic is reported by the sign comparison
    };
    acc.evals += 1;
    let case = case_json(key, msg, ts);
    let m = Message::from_bytes(st.msg);
    let class = sig_class(&st.sig, c);
    let is_high = class.starts_with("high-s");
    let desc = format!(
        "key={} base_msg={} ts={:?} -> r={} s={} v={} msg={}",
        hex::encode(key),
        hex::encode(msg),
        ts,
        hex::encode(&st.sig[..32]),
        hex::encode(get_s(&st.sig).to_be(32)),
        get_v(&st.sig),
        hex::encode(st.msg)
    );

    // ---- recover
    let ra: R<_> = guard::catch_any(|| sb::recover(st.sig, &m));
    let rb: R<_> = guard::catch_any(|| kb::recover(st.sig, &m));
    let rk = kind_of(&ra, &rb);
    let mut nontrivial = matches!(ra, Ok(Ok(_))) || matches!(rb, Ok(Ok(_)));
    match rk {
        None => {
            if matches!(ra, Ok(Ok(_))) {
                acc.out("recover:both-ok-same-key")
            } else {
                acc.out("recover:both-err")
            }
        }
        Some(k) => {
            acc.out(&format!("recover:DISAGREE:{class}:{k}"));
            acc.viol(
                format!("C16:recover:{class}:{k}"),
                format!("{desc}: secp256k1 recover = {}, k256 recover = {}", show(&ra), show(&rb)),
                case.clone(),
            );
        }
    }
    if is_high {
        acc.high_s_cases += 1;
        match rk {
            Some("secp256k1-ok-k256-err") => {
                acc.high_s_secp_ok_k256_err += 1;
                // informational: the key libsecp256k1 returns is the key both backends
                // return for the normalised twin (r, n-s, !v)
                let mut tw = st.clone();
                if apply(T::Twin, &mut tw, c) {
                    let ta: R<_> = guard::catch_any(|| sb::recover(tw.sig, &m));
                    let tb: R<_> = guard::catch_any(|| kb::recover(tw.sig, &m));
                    let same = match (&ra, &ta, &tb) {
                        (Ok(Ok(a)), Ok(Ok(x)), Ok(Ok(y))) => a == x && x == y,
                        _ => false,
                    };
                    if same {
                        acc.high_s_twin_same_key += 1
                    } else {
                        acc.high_s_twin_mismatch += 1
                    }
                }
            }
            None if matches!(ra, Ok(Err(_))) => acc.high_s_both_err += 1,
            _ => acc.high_s_other += 1,
        }
    } else {
        acc.non_high_cases += 1;
        if rk.is_some() {
            acc.non_high_recover_disagree += 1;
        }
    }

    // ---- verify over public-key variants
    let signer = *sb::public_key(&secret(key));
    let other = *sb::public_key(&secret(&{
        let mut o = [0u8; 32];
        o[31] = 7;
        o
    }));
    let mut variants: Vec<(&str, &str, [u8; 64])> = vec![("signer", "on-curve", signer)];
    if let Ok(Ok(k)) = &ra {
        variants.push(("recovered-by-secp256k1", "on-curve", **k));
    }
    if let Ok(Ok(k)) = &rb {
        if !matches!(&ra, Ok(Ok(a)) if a == k) {
            variants.push(("recovered-by-k256", "on-curve", **k));
        }
    }
    variants.push(("other-signer", "on-curve", other));
    let mut neg = signer;
    let ny = c.p.sub(&Big::from_be(&signer[32..]));
    neg[32..].copy_from_slice(&ny.to_be(32));
    variants.push(("negated-signer", "on-curve", neg));
    let mut off = signer;
    off[63] ^= 1;
    variants.push(("off-curve", "off-curve", off));
    variants.push(("zero", "zero", [0u8; 64]));
    let mut alias = [0u8; 64];
    let ax = Big::from_be(&c.small_pt.0).add(&c.p);
    alias[..32].copy_from_slice(&ax.to_be(32));
    alias[32..].copy_from_slice(&c.small_pt.1);
    variants.push(("x-plus-p", "noncanonical", alias));
    let mut xmax = signer;
    xmax[..32].copy_from_slice(&[0xff; 32]);
    variants.push(("x-all-ones", "noncanonical", xmax));

    for (name, pkclass, pk) in &variants {
        let va: R<()> = guard::catch_any(|| sb::verify(st.sig, *pk, &m));
        let vb: R<()> = guard::catch_any(|| kb::verify(st.sig, *pk, &m));
        let k = kind_of(&va, &vb);
        if is_high {
            acc.verify_calls_high_s += 1;
            if k.is_some() {
                acc.verify_disagree_high_s += 1;
            }
        }
        match k {
            None => {
                if matches!(va, Ok(Ok(()))) {
                    nontrivial = true;
                    acc.out("verify:both-ok")
                } else if let (Ok(Err(ea)), Ok(Err(eb))) = (&va, &vb) {
                    if ea == eb {
                        acc.out("verify:both-err")
                    } else {
                        acc.out("verify:both-err(error-kinds-differ)")
                    }
                }
            }
            Some(k) => {
                acc.out(&format!("verify:DISAGREE:{class}:{pkclass}:{k}"));
                let mut cj = case.clone();
                cj["pk"] = json!(name);
                acc.viol(
                    format!("C16:verify:{class}:{pkclass}:{k}"),
                    format!(
                        "{desc} pk[{name}]={}: secp256k1 verify = {}, k256 verify = {}",
                        hex::encode(pk),
                        show_unit(&va),
                        show_unit(&vb)
                    ),
                    cj,
                );
            }
        }
    }

    if nontrivial {
        acc.fps.insert(hash64(&st));
    }
    // samples: 0 = untouched valid signature, 1 = a high-s case, 2 = rejected by both, 3 = depth-2 accepted
    let slot = if ts.is_empty() {
        Some(0u8)
    } else if is_high && matches!(ra, Ok(Ok(_))) {
        Some(1)
    } else if !nontrivial {
        Some(2)
    } else if ts.len() >= 2 {
        Some(3)
    } else {
        None
    };
    if let Some(slot) = slot {
        if !acc.samples.iter().any(|(s, _)| *s == slot) {
            acc.samples.push((
                slot,
                json!({"case": case, "sig": hex::encode(st.sig), "msg": hex::encode(st.msg), "class": class,
                       "recover_secp256k1": show(&ra), "recover_k256": show(&rb), "verify_variants": variants.len()}),
            ));
        }
    }
}

/// sign / public_key comparison for one (key, message).
fn eval_sign(c: &Consts, key: &[u8; 32], msg: &[u8; 32], acc: &mut Acc) {
    let sk = secret(key);
    let mclass = if Big::from_be(msg) >= c.n { "msg-ge-n" } else { "msg-lt-n" };
    let m = Message::from_bytes(*msg);
    acc.evals += 1;
    let case = json!({"kind": "sign", "key": hex::encode(key), "msg": hex::encode(msg)});
    let pa = guard::catch_any(|| sb::public_key(&sk));
    let pb = guard::catch_any(|| kb::public_key(&sk));
    match (&pa, &pb) {
        (Ok(a), Ok(b)) if a == b => acc.out("public_key:equal"),
        _ => {
            let kind = match (&pa, &pb) {
                (Err(_), _) => "panic-secp256k1",
                (_, Err(_)) => "panic-k256",
                _ => "outputs-differ",
            };
            acc.out(&format!("public_key:DISAGREE:{kind}"));
            acc.viol(
                format!("C16:public_key:{kind}"),
                format!("key={}: secp256k1 {:?} vs k256 {:?}", hex::encode(key), pa, pb),
                case.clone(),
            );
        }
    }
    let sa = guard::catch_any(|| sb::sign(&sk, &m));
    let sbb = guard::catch_any(|| kb::sign(&sk, &m));
    match (&sa, &sbb) {
        (Ok(a), Ok(b)) if a == b => {
            acc.out(&format!("sign:equal:{mclass}"));
            acc.fps.insert(hash64(&(a.to_vec(), msg)));
        }
        _ => {
            let kind = match (&sa, &sbb) {
                (Err(_), _) => "panic-secp256k1",
                (_, Err(_)) => "panic-k256",
                _ => "outputs-differ",
            };
            acc.out(&format!("sign:DISAGREE:{mclass}:{kind}"));
            let f = |r: &Result<[u8; 64], String>| match r {
                Ok(s) => hex::encode(s),
                Err(m) => format!("PANIC({m})"),
            };
            // informational: is each of the two signatures accepted by both backends?
            let cross = |r: &Result<[u8; 64], String>| match (r, &pa) {
                (Ok(s), Ok(pk)) => {
                    let a = guard::catch_any(|| sb::recover(*s, &m).ok() == Some(*pk) && sb::verify(*s, **pk, &m).is_ok());
                    let b = guard::catch_any(|| kb::recover(*s, &m).ok() == Some(*pk) && kb::verify(*s, **pk, &m).is_ok());
                    format!("valid under secp256k1={a:?} k256={b:?}")
                }
                _ => "n/a".to_string(),
            };
            acc.viol(
                format!("C16:sign:{mclass}:{kind}"),
                format!(
                    "key={} msg={}: secp256k1 sign = {} ({}), k256 sign = {} ({})",
                    hex::encode(key),
                    hex::encode(msg),
                    f(&sa),
                    cross(&sa),
                    f(&sbb),
                    cross(&sbb)
                ),
                case,
            );
        }
    }
}

// ------------------------------------------------------------------ driver

fn explore(ctx: &Ctx) {
    let c = Consts::new();
    let quick = ctx.quick();
    let depth: u32 = ctx.pick(2, 3);
    let keys = key_bytes(&c, quick);
    let msgs = msg_bytes(&c, quick);
    let a = ALPHABET.len() as u64;
    let nseq = space::seq_count(a, depth);
    let nbase = (keys.len() * msgs.len()) as u64;

    ctx.rule(
        "every base (key x message, signed by the std backend) x every sequence of <= D transformations; each case \
         runs recover on both backends and verify on both backends for 8-9 public-key variants; non-trivial = at \
         least one backend accepted something (recover Ok or verify Ok); distinct = distinct (signature, message)",
    );
    ctx.assume("the hook module only re-exports the two in-crate backends (fuel_crypto::verif_hooks)");
    ctx.assume("harness 256-bit arithmetic (vcore::oracle::Big) is used only to build inputs and to name classes");
    ctx.set(
        "alphabet",
        json!(ALPHABET.iter().map(|t| format!("{t:?}")).collect::<Vec<_>>()),
    );
    ctx.set("depth", json!(depth));
    ctx.set("keys", json!(keys.iter().map(hex::encode).collect::<Vec<_>>()));
    ctx.set("messages", json!(msgs.iter().map(hex::encode).collect::<Vec<_>>()));
    ctx.set("sequences_per_base", json!(nseq));
    ctx.set(
        "pk_variants",
        json!(["signer", "recovered-by-secp256k1", "recovered-by-k256", "other-signer", "negated-signer", "off-curve", "zero", "x-plus-p", "x-all-ones"]),
    );
    ctx.set("non_x_coordinate_r", json!(hex::encode(c.non_x.to_be(32))));
    ctx.set(
        "dont_care",
        json!(["which fuel_crypto::Error variant a rejecting backend returns (the backends parse key and signature in different orders)"]),
    );

    let mut total = Acc::default();

    // sign / public_key on all bases (keys x messages)
    for k in &keys {
        for m in &msgs {
            eval_sign(&c, k, m, &mut total);
        }
    }

    // signature cases: index = seq * nbase + base, so that short sequences and the
    // simplest bases come first
    let n = nseq * nbase;
    let mut done = 0u64;
    let step = 16 * 64 * 8;
    let mut lo = 0u64;
    let mut capped = false;
    while lo < n {
        if ctx.out_of_time() {
            ctx.cap(format!("time budget: {done} of {n} signature cases evaluated"));
            capped = true;
            break
        }
        let hi = (lo + step).min(n);
        let mut parts: Vec<Acc> = Vec::new();
        space::par_chunks(
            hi - lo,
            64,
            Acc::default,
            |i, acc| {
                let idx = lo + i;
                let (si, bi) = (idx / nbase, idx % nbase);
                let ts: Vec<T> = space::seq_at(a, depth, si).iter().map(|d| ALPHABET[*d as usize]).collect();
                let key = &keys[(bi as usize) / msgs.len()];
                let msg = &msgs[(bi as usize) % msgs.len()];
                eval_case(&c, key, msg, &ts, acc);
            },
            |p| parts.push(p),
        );
        for p in parts {
            merge(&mut total, p);
        }
        done = hi;
        lo = hi;
    }
    let _ = capped;

    ctx.evals(total.evals);
    ctx.fps_merge(total.fps.iter().copied());
    ctx.outcomes_merge(&total.outcomes);
    total.samples.sort_by_key(|(s, _)| *s);
    for (_, s) in &total.samples {
        ctx.sample(s.clone());
    }
    ctx.set("cases_evaluated", json!(done));
    ctx.set("sequences_skipped_inapplicable_n_minus_s", json!(total.inapplicable));
    ctx.set(
        "high_s_characterisation",
        json!({
            "definition": "n/2 < s < 2^255 (the only non-normalised s the 255-bit field can hold)",
            "cases_with_high_s": total.high_s_cases,
            "recover_secp256k1_ok_k256_err": total.high_s_secp_ok_k256_err,
            "recover_both_err (r not recoverable)": total.high_s_both_err,
            "recover_other": total.high_s_other,
            "returned key equals the key both backends recover from the twin (r, n-s, !v)": total.high_s_twin_same_key,
            "twin mismatch": total.high_s_twin_mismatch,
            "verify_calls_on_high_s": total.verify_calls_high_s,
            "verify_disagreements_on_high_s": total.verify_disagree_high_s,
            "cases_without_high_s": total.non_high_cases,
            "recover_disagreements_without_high_s": total.non_high_recover_disagree,
        }),
    );
    total.report(ctx);
}

fn merge(t: &mut Acc, p: Acc) {
    t.evals += p.evals;
    t.fps.extend(p.fps);
    for (k, v) in p.outcomes {
        *t.outcomes.entry(k).or_insert(0) += v;
    }
    for (k, w, c, n) in p.viols {
        t.viol_n(k, w, c, n);
    }
    for (s, v) in p.samples {
        if !t.samples.iter().any(|(x, _)| *x == s) {
            t.samples.push((s, v));
        }
    }
    t.high_s_cases += p.high_s_cases;
    t.high_s_secp_ok_k256_err += p.high_s_secp_ok_k256_err;
    t.high_s_both_err += p.high_s_both_err;
    t.high_s_other += p.high_s_other;
    t.high_s_twin_same_key += p.high_s_twin_same_key;
    t.high_s_twin_mismatch += p.high_s_twin_mismatch;
    t.non_high_cases += p.non_high_cases;
    t.non_high_recover_disagree += p.non_high_recover_disagree;
    t.verify_calls_high_s += p.verify_calls_high_s;
    t.verify_disagree_high_s += p.verify_disagree_high_s;
    t.inapplicable += p.inapplicable;
}

fn hex32(v: &Value) -> [u8; 32] {
    let b = hex::decode(v.as_str().expect("hex string")).expect("hex");
    let mut a = [0u8; 32];
    a.copy_from_slice(&b);
    a
}

fn replay(case: &Value, ctx: &Ctx) {
    let c = Consts::new();
    let key = hex32(&case["key"]);
    let msg = hex32(&case["msg"]);
    let mut acc = Acc::default();
    match case["kind"].as_str() {
        Some("sig") => {
            let ts: Vec<T> = serde_json::from_value(case["ts"].clone()).expect("ts");
            eval_case(&c, &key, &msg, &ts, &mut acc);
        }
        Some("sign") => eval_sign(&c, &key, &msg, &mut acc),
        other => panic!("unknown case kind {other:?}"),
    }
    acc.report(ctx);
}

fn main() {
    run_check("C16", Level::Exploration, explore, replay)
}
