//! C31 — Execution is deterministic and independent of VM instance reuse.
//!
//! STATEMENT: executing a given ready transaction against equal storage yields identical
//! program state, receipts, output transaction and storage changes whether the
//! interpreter and its memory are fresh or were previously used for any other
//! transactions or predicate runs, and whether predicates are checked with fresh
//! memory, reused memory or a memory pool.
//!
//! SPACE (explicit-state BFS, Level::ModelChecking). A state is ONE real VM instance
//! after a history of actions; a transition executes one more action on the SAME
//! instance (same interpreter object, same `MemoryInstance`). The hidden residues are
//! the point, so the state key is the history itself (nothing is merged); the state is
//! rebuilt by replaying its history on a new instance (as C11's stored model does).
//! Alphabet = a pool of transactions chosen to leave different residues:
//!   ret, heap64k (64 KiB heap written), deepstack (60 kB stack written), panic-in-call
//!   (ContractNotInInputs inside contract B: frame left, panic context used),
//!   panic-nested (B calls A, A writes a slot, B panics: frame + uncommitted write),
//!   revert (A writes a slot, script reverts), store (A reads cold, writes, reads hot;
//!   TR), load (A reads the slot cold), logs (200 receipts), flags ($flag/$of/$err/$ret
//!   and registers set; reads them first), ldc (LDC extends the code), predtx (a
//!   transaction with two predicate inputs: predicates checked on the instance's own
//!   memory, then executed), peek (reads above $sp: panics on a clean stack), bad-input
//!   (an input contract that does not exist: `transact` returns an error after init),
//!   small-heap / mem-read (ALOC + CFE and emit the *unwritten* memory: RETD/LOGD of the
//!   region resp. its SHA-256),
//!   list-c (lists contract C as a third input contract and calls it), mixed-owners
//!   (coin inputs of two owners: GM GetOwner panics), and TARGET-ONLY members that read
//!   state derived from the transaction at initialisation (they follow every history
//!   but do not extend one): touch-c-bal|tr|csiz|call (inputs A,B only; touching C must
//!   panic ContractNotInInputs), gtf-cout-0..4 (a transaction WITHOUT contract inputs:
//!   GTF InputContractOutputIndex must panic InputNotFound), gm-owner, tx-meta, nc-meta
//!   (GM/GTF answers of the standard resp. contract-less transaction),
//!   plus (interpreter model only) predicate-only actions: check / estimate /
//!   into_checked_reusable_memory of 6 predicate transactions on the instance's memory.
//! Three models over the same alphabet:
//!   interp     `Interpreter::transact(ready)`; before every transaction the instance is
//!              given a storage equal to the baseline (`*vm.as_mut() = baseline.clone()`).
//!   transactor `Transactor::transact(checked)`; storage is carried along raw (no
//!              commit/revert); the comparison run gets a clone of the storage as it is
//!              just before the target.
//!   client     `MemoryClient::transact(checked)` (its own commit/revert); comparison
//!              run on a new client over a clone of the storage before the target.
//! Bound: all histories of length <= 2 (quick) / <= 3 (thorough), each followed by each
//! target = all transitions of the BFS to depth 3 / 4; thorough adds the interp model
//! over a core of 8 transactions (heap64k, deepstack, panic-in-call, store, load, flags,
//! small-heap, mem-read) to depth 6 (histories <= 5), and a depth-3 run in which the
//! target-only members extend histories too.
//! Predicate pool part: every predicate transaction is checked by
//! `check_predicates_async` with a harness `VmMemoryPool` that hands out memories left
//! behind by every history of length <= 1 (quick) / <= 2 (thorough) (for the
//! two-predicate transaction: all ordered pairs of length-<=1 histories), with the
//! harness executor running the tasks in order and in reverse order.
//!
//! ORACLE (statement only): the observation of the target on the reused instance equals
//! the observation on a new instance over equal storage: `ProgramState` (or the
//! interpreter error), receipts (full equality: gas, pc/is, data, ids), the transaction
//! as left by the VM (outputs, receipts root), the `{:?}` rendering of the
//! `MemoryStorage` afterwards; for predicate checks verdict and gas. The depth-1
//! transitions (empty history) compare two new instances with each other (determinism).
//! Keys: `C31:<target>:state|receipts|tx|storage|verdict|gas`; the history is in the case.

#[path = "../progkit.rs"]
mod progkit;

use std::{
    collections::{
        BTreeMap,
        VecDeque,
    },
    sync::Mutex,
};

use fuel_asm::{
    op,
    GMArgs,
    GTFArgs,
    Instruction,
    PanicReason,
    RegId,
    Word,
};
use fuel_tx::{
    field::{
        Inputs,
        Outputs,
    },
    Finalizable,
    Input,
    Output,
    Receipt,
    Script,
    TransactionBuilder,
    TxPointer,
    UtxoId,
};
use fuel_types::{
    Address,
    BlockHeight,
    Bytes32,
    ContractId,
};
use fuel_vm::{
    checked_transaction::{
        CheckPredicateParams,
        CheckPredicates,
        Checked,
        EstimatePredicates,
        IntoChecked,
        ParallelExecutor,
    },
    error::PredicateVerificationFailed,
    interpreter::{
        predicates,
        Interpreter,
        InterpreterParams,
        MemoryInstance,
        NotSupportedEcal,
    },
    memory_client::MemoryClient,
    pool::VmMemoryPool,
    state::ProgramState,
    storage::{
        predicate::EmptyStorage,
        InterpreterStorage,
        MemoryStorage,
    },
    transactor::Transactor,
};
use progkit::{
    off,
    r,
    World,
    WorldCfg,
    A,
    B,
    C,
    D,
};
use vcore::{
    bfs::{
        self,
        Model,
    },
    guard::catch_any,
    json,
    run::hash64,
    run_check,
    vmkit::Vm,
    Ctx,
    Level,
    Value,
};

type Txr = Transactor<MemoryInstance, MemoryStorage, Script>;
type Client = MemoryClient<MemoryInstance>;

const GAS: u64 = 5_000_000;
const SLOT_KEY: u64 = 7;
const SLOT_BASE: u64 = 0x1234;
const SLOT_NEW: u64 = 0xABCD;
const MEM_SIZE: u64 = fuel_vm::consts::MEM_SIZE as u64;

// extra call structures appended to the world's script data
const X_A_R: u16 = off::END; // A(key 7, no write)
const X_A_W: u16 = off::END + 48; // A(key 7, write 0xABCD)
const X_B_0: u16 = off::END + 96; // B(mode 0): call C -> ContractNotInInputs
const X_B_2: u16 = off::END + 144; // B(mode 2): call A(write), then plain panic

// ------------------------------------------------------------------ programs

/// Contract A: read slot[param1] (cold/hot), log it; if param2 != 0 write param2 to
/// the slot, read it again (hot), log; return the value.
fn code_a() -> Vec<Instruction> {
    vec![
        op::move_(0x30, RegId::SP),
        op::cfei(32),
        op::lw(0x31, RegId::FP, 73), // param1
        op::sw(0x30, 0x31, 0),
        op::srw(0x32, 0x33, 0x30, 0),
        op::log(0x32, 0x33, RegId::ZERO, RegId::ZERO),
        op::lw(0x34, RegId::FP, 74), // param2
        op::jnzf(0x34, RegId::ZERO, 1),
        op::ret(0x32),
        op::sww(0x30, 0x35, 0x34),
        op::srw(0x32, 0x33, 0x30, 0),
        op::log(0x32, 0x33, 0x35, RegId::ONE),
        op::ret(0x32),
    ]
}

/// Contract B: mode 0 = call C (not an input) -> panic with a contract id in the
/// receipt; mode != 0 = call A (write), then panic with MemoryOverflow.
fn code_b() -> Vec<Instruction> {
    vec![
        op::lw(0x30, RegId::FP, 73),
        op::log(0x30, RegId::FP, RegId::ZERO, RegId::ZERO),
        op::jnzf(0x30, RegId::ZERO, 1),
        op::call(r::CALL_C, RegId::ZERO, r::ASSET_BASE, RegId::CGAS),
        op::addi(0x31, r::DATA, X_A_W),
        op::call(0x31, RegId::ZERO, r::ASSET_BASE, RegId::CGAS),
        op::log(RegId::RET, RegId::RETL, RegId::ZERO, RegId::ZERO),
        op::not(0x32, RegId::ZERO),
        op::lw(0x33, 0x32, 0),
        op::ret(RegId::ONE),
    ]
}

fn call_via(offset: u16) -> Vec<Instruction> {
    vec![
        op::addi(0x29, r::DATA, offset),
        op::call(0x29, RegId::ZERO, r::ASSET_BASE, RegId::CGAS),
    ]
}

/// (name, body, expected outcome label of a run on a new instance)
fn script_pool() -> Vec<(&'static str, Vec<Instruction>, String)> {
    let mut v: Vec<(&'static str, Vec<Instruction>, String)> = Vec::new();
    let c_hex = hex::encode(C.as_ref() as &[u8]);

    v.push(("ret", vec![op::ret(RegId::ONE)], "Return(1)".into()));

    // 64 KiB heap, completely written (pattern doubled 10 times), two windows logged
    let mut heap = vec![
        op::movi(0x10, 65536),
        op::aloc(0x10),
        op::mcpi(RegId::HP, r::PATTERN, 64),
        op::movi(0x11, 64),
    ];
    for _ in 0..10 {
        heap.push(op::add(0x12, RegId::HP, 0x11));
        heap.push(op::mcp(0x12, RegId::HP, 0x11));
        heap.push(op::add(0x11, 0x11, 0x11));
    }
    heap.extend([
        op::movi(0x13, 64),
        op::logd(RegId::ZERO, RegId::ZERO, RegId::HP, 0x13),
        op::add(0x14, RegId::HP, 0x10),
        op::subi(0x14, 0x14, 64),
        op::logd(RegId::ZERO, RegId::ONE, 0x14, 0x13),
        op::ret(RegId::ONE),
    ]);
    v.push(("heap64k", heap, "Return(1)".into()));

    // 60 kB of stack, written at both ends and in the middle
    v.push((
        "deepstack",
        vec![
            op::move_(0x10, RegId::SP),
            op::cfei(60_000),
            op::mcpi(0x10, r::PATTERN, 64),
            op::subi(0x12, RegId::SP, 64),
            op::mcpi(0x12, r::PATTERN, 64),
            op::movi(0x13, 30_000),
            op::add(0x13, 0x13, 0x10),
            op::mcpi(0x13, r::PATTERN, 64),
            op::not(0x15, RegId::ZERO),
            op::pshl(0xff_ffff),
            op::log(RegId::SP, RegId::SSP, RegId::HP, RegId::ZERO),
            op::lw(0x14, 0x12, 0),
            op::log(0x14, RegId::ZERO, RegId::ZERO, RegId::ZERO),
            op::ret(RegId::ONE),
        ],
        "Return(1)".into(),
    ));

    let mut p = vec![op::log(RegId::ONE, RegId::ZERO, RegId::ZERO, RegId::ZERO)];
    p.extend(call_via(X_B_0));
    p.push(op::ret(RegId::ONE));
    v.push((
        "panic-in-call",
        p,
        format!("Revert(0)/Panic(ContractNotInInputs,Some({c_hex}))"),
    ));

    let mut p = call_via(X_B_2);
    p.push(op::ret(RegId::ONE));
    v.push(("panic-nested", p, "Revert(0)/Panic(MemoryOverflow,None)".into()));

    let mut p = call_via(X_A_W);
    p.extend([op::movi(0x10, 0x2a), op::rvrt(0x10)]);
    v.push(("revert", p, "Revert(42)".into()));

    let mut p = call_via(X_A_W);
    p.extend([op::movi(0x10, 10), op::tr(r::CALL_A, 0x10, r::ASSET_X)]);
    p.extend(call_via(X_A_R));
    p.push(op::ret(RegId::ONE));
    v.push(("store", p, "Return(1)".into()));

    let mut p = call_via(X_A_R);
    p.push(op::ret(RegId::RET));
    v.push(("load", p, format!("Return({SLOT_BASE})")));

    v.push((
        "logs",
        vec![
            op::movi(0x10, 200),
            op::log(0x10, RegId::ZERO, RegId::ZERO, RegId::ZERO),
            op::subi(0x10, 0x10, 1),
            op::jnzb(0x10, RegId::ZERO, 1),
            op::ret(RegId::ONE),
        ],
        "Return(1)".into(),
    ));

    v.push((
        "flags",
        vec![
            // first read what a previous user might have left behind
            op::log(RegId::OF, RegId::ERR, RegId::FLAG, RegId::RET),
            op::log(RegId::RETL, RegId::BAL, RegId::FP, 0x10),
            op::log(0x11, 0x12, 0x3e, 0x3f),
            op::log(0x30, 0x32, 0x34, 0x29),
            // then leave a lot behind
            op::movi(0x10, 3),
            op::flag(0x10),
            op::not(0x11, RegId::ZERO),
            op::mul(0x12, 0x11, 0x11),
            op::move_(0x3e, RegId::OF),
            op::div(0x13, 0x11, RegId::ZERO),
            op::move_(0x3f, RegId::ERR),
            op::movi(0x30, 0x3ffff),
            op::not(0x32, RegId::ZERO),
            op::not(0x34, RegId::ZERO),
            op::not(0x29, RegId::ZERO),
            op::log(0x3e, 0x3f, RegId::FLAG, 0x12),
            op::mul(0x12, 0x11, 0x11),
            op::div(0x13, 0x11, RegId::ZERO),
            op::ret(0x11),
        ],
        format!("Return({})", u64::MAX),
    ));

    v.push((
        "ldc",
        vec![
            op::csiz(0x11, r::CALL_A),
            op::ldc(r::CALL_A, RegId::ZERO, 0x11, 0),
            op::log(RegId::SSP, RegId::SP, RegId::PC, RegId::IS),
            op::sub(0x12, RegId::SSP, 0x11),
            op::logd(RegId::ZERO, RegId::ZERO, 0x12, 0x11),
            op::ret(RegId::ONE),
        ],
        "Return(1)".into(),
    ));

    // placeholder body; the transaction is built by `pred_defs` (index PREDTX)
    v.push(("predtx", vec![], "Return(1)".into()));

    v.push((
        "peek",
        vec![op::lw(0x10, RegId::SP, 1000), op::ret(0x10)],
        "Revert(0)/Panic(UninitalizedMemoryAccess,None)".into(),
    ));

    // an input contract that does not exist: `transact` fails after initialisation
    // (body only; the input is replaced in `Env::new`)
    v.push((
        "bad-input",
        vec![op::ret(RegId::ONE)],
        "Err(Panic(InputContractDoesNotExist".into(),
    ));

    // three allocations (reallocation / in-place paths), nothing written, all emitted
    v.push((
        "small-heap",
        vec![
            op::movi(0x10, 24),
            op::aloc(0x10),
            op::movi(0x10, 1000),
            op::aloc(0x10),
            op::movi(0x10, 3000),
            op::aloc(0x10),
            op::move_(0x11, RegId::SP),
            op::cfei(512),
            op::movi(0x12, 512),
            op::logd(RegId::ZERO, RegId::ZERO, 0x11, 0x12),
            op::movi(0x12, 4024),
            op::retd(RegId::HP, 0x12),
        ],
        "ReturnData".into(),
    ));

    // 96 KiB heap + 70 kB stack, nothing written; SHA-256 of both regions is returned
    // (one hashing pass instead of emitting 166 kB through receipts)
    v.push((
        "mem-read",
        vec![
            op::move_(0x11, RegId::SP),
            op::movi(0x12, 70_000),
            op::cfe(0x12),
            op::movi(0x10, 98_304),
            op::aloc(0x10),
            op::move_(0x13, RegId::SP),
            op::cfei(64),
            op::s256(0x13, 0x11, 0x12),
            op::addi(0x14, 0x13, 32),
            op::s256(0x14, RegId::HP, 0x10),
            op::movi(0x15, 64),
            op::retd(0x13, 0x15),
        ],
        "ReturnData".into(),
    ));

    // ---- state derived from the transaction at initialisation ----

    // lists C as a third input contract (+ output) and calls it (shaped in `Env::new`)
    v.push((
        "list-c",
        vec![
            op::call(r::CALL_C, RegId::ZERO, r::ASSET_BASE, RegId::CGAS),
            op::ret(RegId::RET),
        ],
        "Return(1)".into(),
    ));

    // the two coin inputs get different owners: the transaction owner is unknown
    v.push((
        "mixed-owners",
        vec![op::gm_args(0x10, GMArgs::GetOwner), op::ret(RegId::ONE)],
        "Revert(0)/Panic(OwnerIsUnknown,None)".into(),
    ));

    // TARGET-ONLY from here (see `TARGET_ONLY`): inputs A,B; each touches the unlisted
    // contract C and must panic whatever the instance ran before
    let unlisted = "Revert(0)/Panic(ContractNotInInputs".to_string();
    v.push((
        "touch-c-bal",
        vec![op::bal(0x10, r::ASSET_BASE, r::CALL_C), op::ret(0x10)],
        unlisted.clone(),
    ));
    v.push((
        "touch-c-tr",
        vec![
            op::movi(0x10, 5),
            op::tr(r::CALL_C, 0x10, r::ASSET_X),
            op::ret(RegId::ONE),
        ],
        unlisted.clone(),
    ));
    v.push((
        "touch-c-csiz",
        vec![op::csiz(0x10, r::CALL_C), op::ret(0x10)],
        unlisted.clone(),
    ));
    v.push((
        "touch-c-call",
        vec![
            op::call(r::CALL_C, RegId::ZERO, r::ASSET_BASE, RegId::CGAS),
            op::ret(RegId::RET),
        ],
        unlisted,
    ));

    // transactions WITHOUT contract inputs/outputs asking for the contract-output index
    // of input i: there is none, whatever the instance ran before
    for (i, name) in ["gtf-cout-0", "gtf-cout-1", "gtf-cout-2", "gtf-cout-3", "gtf-cout-4"]
        .into_iter()
        .enumerate()
    {
        v.push((
            name,
            vec![
                op::movi(0x13, i as u32),
                op::gtf_args(0x10, 0x13, GTFArgs::InputContractOutputIndex),
                op::log(0x10, 0x13, RegId::ZERO, RegId::ZERO),
                op::ret(0x10),
            ],
            "Revert(0)/Panic(InputNotFound,None)".into(),
        ));
    }

    // owner pointer and the owner bytes
    v.push((
        "gm-owner",
        vec![
            op::gm_args(0x10, GMArgs::GetOwner),
            op::movi(0x11, 32),
            op::logd(RegId::ZERO, RegId::ZERO, 0x10, 0x11),
            op::log(0x10, RegId::ZERO, RegId::ZERO, RegId::ZERO),
            op::ret(RegId::ONE),
        ],
        "Return(1)".into(),
    ));

    // metadata answers of the standard transaction (inputs coin,coin,A,B)
    v.push((
        "tx-meta",
        vec![
            op::gm_args(0x10, GMArgs::GetChainId),
            op::gm_args(0x11, GMArgs::TxStart),
            op::gm_args(0x12, GMArgs::BaseAssetId),
            op::log(0x10, 0x11, 0x12, RegId::ZERO),
            op::gtf_args(0x10, RegId::ZERO, GTFArgs::TxInputsCount),
            op::gtf_args(0x11, RegId::ZERO, GTFArgs::TxOutputsCount),
            op::gtf_args(0x12, RegId::ZERO, GTFArgs::PolicyTypes),
            op::log(0x10, 0x11, 0x12, RegId::ONE),
            op::movi(0x13, 2),
            op::gtf_args(0x10, 0x13, GTFArgs::InputContractOutputIndex),
            op::movi(0x13, 3),
            op::gtf_args(0x11, 0x13, GTFArgs::InputContractOutputIndex),
            op::log(0x10, 0x11, RegId::ZERO, RegId::ZERO),
            op::ret(RegId::ONE),
        ],
        "Return(1)".into(),
    ));

    // the same for the transaction without contract inputs
    v.push((
        "nc-meta",
        vec![
            op::gm_args(0x10, GMArgs::GetOwner),
            op::movi(0x11, 32),
            op::logd(RegId::ZERO, RegId::ZERO, 0x10, 0x11),
            op::gtf_args(0x10, RegId::ZERO, GTFArgs::TxInputsCount),
            op::gtf_args(0x11, RegId::ZERO, GTFArgs::TxOutputsCount),
            op::log(0x10, 0x11, RegId::ZERO, RegId::ZERO),
            op::ret(RegId::ONE),
        ],
        "Return(1)".into(),
    ));
    v
}

fn or3_is_zero(base: u8) -> Vec<Instruction> {
    vec![
        op::lw(0x11, base, 0),
        op::lw(0x12, base, 3),
        op::lw(0x13, base, 7),
        op::or(0x11, 0x11, 0x12),
        op::or(0x11, 0x11, 0x13),
        op::eq(0x11, 0x11, RegId::ZERO),
    ]
}

fn p_true() -> Vec<Instruction> {
    vec![op::ret(RegId::ONE)]
}

/// True iff 64 freshly allocated heap bytes and 64 freshly extended stack bytes read 0.
fn p_clean() -> Vec<Instruction> {
    let mut v = vec![op::movi(0x10, 64), op::aloc(0x10), op::move_(0x14, RegId::HP)];
    v.extend(or3_is_zero(0x14));
    v.push(op::move_(0x15, 0x11));
    v.extend([op::move_(0x14, RegId::SP), op::cfei(64)]);
    v.extend(or3_is_zero(0x14));
    v.extend([op::and(0x11, 0x11, 0x15), op::ret(0x11)]);
    v
}

/// Writes ones into 64 heap bytes and 64 stack bytes, returns true.
fn p_dirty() -> Vec<Instruction> {
    vec![
        op::movi(0x10, 64),
        op::aloc(0x10),
        op::not(0x11, RegId::ZERO),
        op::sw(RegId::HP, 0x11, 0),
        op::sw(RegId::HP, 0x11, 3),
        op::sw(RegId::HP, 0x11, 7),
        op::move_(0x12, RegId::SP),
        op::cfei(64),
        op::sw(0x12, 0x11, 0),
        op::sw(0x12, 0x11, 3),
        op::sw(0x12, 0x11, 7),
        op::ret(RegId::ONE),
    ]
}

fn p_peek() -> Vec<Instruction> {
    vec![op::lw(0x10, RegId::SP, 1000), op::ret(RegId::ONE)]
}

fn p_false() -> Vec<Instruction> {
    vec![op::ret(RegId::ZERO)]
}

/// (name, predicates of the transaction, expected verdict class on fresh memory)
fn pred_pool() -> Vec<(&'static str, Vec<Vec<Instruction>>, &'static str)> {
    vec![
        ("p-true", vec![p_true()], "Ok"),
        ("p-clean", vec![p_clean()], "Ok"),
        ("p-dirty", vec![p_dirty()], "Ok"),
        ("p-peek", vec![p_peek()], "Err"),
        ("p-false", vec![p_false()], "Err"),
        ("p-dirty+p-clean", vec![p_dirty(), p_clean()], "Ok"),
    ]
}
const PREDTX: usize = 5; // index in pred_pool used by the script action "predtx"

/// Pool members that only read state derived at initialisation (or panic at once):
/// they are targets after every history but do not extend a history (except in the
/// thorough tier's "all letters" run).
const TARGET_ONLY: [&str; 12] = [
    "touch-c-bal",
    "touch-c-tr",
    "touch-c-csiz",
    "touch-c-call",
    "gtf-cout-0",
    "gtf-cout-1",
    "gtf-cout-2",
    "gtf-cout-3",
    "gtf-cout-4",
    "gm-owner",
    "tx-meta",
    "nc-meta",
];

/// Give the world's standard transaction (inputs coin, coin, A, B) the shape the pool
/// member needs.
fn shape_tx(name: &str, tx: &mut Script) {
    if name == "bad-input" {
        for i in tx.inputs_mut() {
            if let Input::Contract(c) = i {
                if c.contract_id == B {
                    c.contract_id = D;
                }
            }
        }
    }
    if name == "list-c" {
        let idx = tx.inputs().len() as u16;
        tx.inputs_mut().push(Input::contract(
            UtxoId::new(Bytes32::new([0x1c; 32]), 0),
            Bytes32::zeroed(),
            Bytes32::zeroed(),
            TxPointer::default(),
            C,
        ));
        tx.outputs_mut()
            .push(Output::contract(idx, Bytes32::zeroed(), Bytes32::zeroed()));
    }
    if name == "mixed-owners" {
        if let Some(Input::CoinSigned(c)) = tx.inputs_mut().get_mut(1) {
            c.owner = Address::new([0x56; 32]);
        } else {
            panic!("world layout changed: input 1 is not a signed coin");
        }
    }
    if name.starts_with("gtf-cout-") || name.starts_with("nc-") {
        tx.inputs_mut().retain(|i| !i.is_contract());
        tx.outputs_mut().retain(|o| !o.is_contract());
    }
}

// ------------------------------------------------------------------ environment

struct ScriptDef {
    name: &'static str,
    checked: Checked<Script>,
    /// predicate transaction whose predicates are checked on the instance's memory
    /// before the execution (interp model)
    pred: Option<usize>,
    expect: String,
}

struct PredDef {
    name: &'static str,
    /// as built (declared predicate gas = 10_000)
    raw: Script,
    /// with estimated predicate gas
    tx: Script,
    checked: Checked<Script>,
    expect: &'static str,
}

#[derive(Clone, Copy, Debug, PartialEq, Eq, Hash)]
enum Act {
    /// execute script transaction i
    S(usize),
    /// predicate-only action on the instance's memory
    P(usize),
}

#[derive(Clone, Copy, Debug, PartialEq, Eq, Hash)]
enum Mode {
    Interp,
    Transactor,
    Client,
}

impl Mode {
    fn s(self) -> &'static str {
        match self {
            Mode::Interp => "interp",
            Mode::Transactor => "transactor",
            Mode::Client => "client",
        }
    }

    fn parse(s: &str) -> Mode {
        match s {
            "interp" => Mode::Interp,
            "transactor" => Mode::Transactor,
            "client" => Mode::Client,
            o => panic!("unknown mode {o}"),
        }
    }
}

struct Env {
    world: World,
    baseline: MemoryStorage,
    ip: InterpreterParams,
    cpp: CheckPredicateParams,
    scripts: Vec<ScriptDef>,
    preds: Vec<PredDef>,
    /// observation of every action on a new interpreter over the baseline
    fresh: Vec<(Act, Obs)>,
    /// pool members that did not end as designed on a new instance
    unmet: Vec<(Act, String)>,
}

fn slot_key() -> Bytes32 {
    let mut k = [0u8; 32];
    k[..8].copy_from_slice(&SLOT_KEY.to_be_bytes());
    Bytes32::new(k)
}

fn build_pred_tx(world: &World, preds: &[Vec<Instruction>]) -> Script {
    let script: Vec<u8> = vec![
        op::movi(0x10, 64),
        op::aloc(0x10),
        op::logd(RegId::ZERO, RegId::ZERO, RegId::HP, 0x10),
        op::move_(0x11, RegId::SP),
        op::cfei(64),
        op::logd(RegId::ZERO, RegId::ONE, 0x11, 0x10),
        op::ret(RegId::ONE),
    ]
    .into_iter()
    .collect();
    let mut b = TransactionBuilder::script(script, vec![]);
    b.with_params(world.params.clone());
    b.script_gas_limit(100_000);
    b.max_fee_limit(0);
    for (k, code) in preds.iter().enumerate() {
        let bytes: Vec<u8> = code.iter().copied().collect();
        let owner = Input::predicate_owner(&bytes);
        b.add_input(Input::coin_predicate(
            UtxoId::new(Bytes32::new([0x40 + k as u8; 32]), 0),
            owner,
            1_000,
            *world.params.base_asset_id(),
            TxPointer::default(),
            10_000,
            bytes,
            vec![k as u8 + 1; 8],
        ));
    }
    b.add_output(Output::change(
        Address::new([0x55; 32]),
        0,
        *world.params.base_asset_id(),
    ));
    b.finalize()
}

impl Env {
    fn new() -> Env {
        let mut extra = Vec::new();
        extra.extend(progkit::call_struct(&A, SLOT_KEY, 0));
        extra.extend(progkit::call_struct(&A, SLOT_KEY, SLOT_NEW));
        extra.extend(progkit::call_struct(&B, 0, 0));
        extra.extend(progkit::call_struct(&B, 2, 0));
        let cfg = WorldCfg {
            code_a: code_a(),
            code_b: code_b(),
            extra_script_data: extra,
            ..WorldCfg::default()
        };
        let mut world = World::new(cfg);
        let mut v = [0u8; 32];
        v[..8].copy_from_slice(&SLOT_BASE.to_be_bytes());
        world
            .storage
            .contract_state_insert(&A, &slot_key(), &v)
            .expect("slot");
        world.storage.commit();
        world.storage.persist();
        let baseline = world.storage.clone();
        let ip = world.interpreter_params();
        let cpp = CheckPredicateParams::from(&world.params);

        let preds: Vec<PredDef> = pred_pool()
            .into_iter()
            .map(|(name, codes, expect)| {
                let raw = build_pred_tx(&world, &codes);
                let mut tx = raw.clone();
                tx.estimate_predicates(&cpp, MemoryInstance::new(), &EmptyStorage)
                    .expect("estimation never fails on a predicate's own outcome");
                let checked = tx
                    .clone()
                    .into_checked_basic(BlockHeight::new(0), &world.params)
                    .expect("predicate tx passes basic checks");
                PredDef {
                    name,
                    raw,
                    tx,
                    checked,
                    expect,
                }
            })
            .collect();

        let scripts: Vec<ScriptDef> = script_pool()
            .into_iter()
            .map(|(name, body, expect)| {
                if name == "predtx" {
                    ScriptDef {
                        name,
                        checked: preds[PREDTX].checked.clone(),
                        pred: Some(PREDTX),
                        expect,
                    }
                } else {
                    let mut tx = world.tx(world.script_bytes(&body), GAS);
                    shape_tx(name, &mut tx);
                    let checked = tx
                        .into_checked_basic(BlockHeight::new(0), &world.params)
                        .expect("world tx must pass basic checks");
                    ScriptDef {
                        name,
                        checked,
                        pred: None,
                        expect,
                    }
                }
            })
            .collect();

        let mut env = Env {
            world,
            baseline,
            ip,
            cpp,
            scripts,
            preds,
            fresh: vec![],
            unmet: vec![],
        };
        let fresh: Vec<(Act, Obs)> = env
            .alphabet(Mode::Interp)
            .into_iter()
            .map(|a| {
                let mut vm = env.new_vm();
                (a, env.exec_interp(&mut vm, a))
            })
            .collect();
        // The pool must really leave the residues it was designed for: a run on a new
        // instance must end as designed, otherwise the check would be silently weaker.
        for (a, o) in &fresh {
            match a {
                Act::S(i) => {
                    let want = &env.scripts[*i].expect;
                    let got = o.label();
                    if !got.starts_with(want.as_str()) {
                        env.unmet.push((
                            *a,
                            format!(
                                "pool transaction {} ended as {got}, designed as {want}",
                                env.scripts[*i].name
                            ),
                        ));
                    }
                }
                Act::P(j) => {
                    let p = o.pre.as_ref().expect("pred obs");
                    let got = if p.check.is_ok() { "Ok" } else { "Err" };
                    if got != env.preds[*j].expect {
                        env.unmet.push((
                            *a,
                            format!(
                                "pool predicate {} on a new memory: {:?}, designed as {}",
                                env.preds[*j].name, p.check, env.preds[*j].expect
                            ),
                        ));
                    }
                }
            }
        }
        env.fresh = fresh;
        env
    }

    fn alphabet(&self, mode: Mode) -> Vec<Act> {
        let mut v: Vec<Act> = (0..self.scripts.len()).map(Act::S).collect();
        if mode == Mode::Interp {
            v.extend((0..self.preds.len()).map(Act::P));
        }
        v
    }

    fn target_only(&self, a: Act) -> bool {
        matches!(a, Act::S(i) if TARGET_ONLY.contains(&self.scripts[i].name))
    }

    /// Letters that may extend a history.
    fn history_alphabet(&self, mode: Mode) -> Vec<Act> {
        self.alphabet(mode)
            .into_iter()
            .filter(|a| !self.target_only(*a))
            .collect()
    }

    fn name(&self, a: Act) -> String {
        match a {
            Act::S(i) => self.scripts[i].name.to_string(),
            Act::P(j) => format!("pred:{}", self.preds[j].name),
        }
    }

    fn names(&self, h: &[Act]) -> Vec<String> {
        h.iter().map(|a| self.name(*a)).collect()
    }

    fn parse(&self, s: &str) -> Act {
        if let Some(p) = s.strip_prefix("pred:") {
            Act::P(
                self.preds
                    .iter()
                    .position(|d| d.name == p)
                    .unwrap_or_else(|| panic!("unknown predicate {p}")),
            )
        } else {
            Act::S(
                self.scripts
                    .iter()
                    .position(|d| d.name == s)
                    .unwrap_or_else(|| panic!("unknown transaction {s}")),
            )
        }
    }

    fn parse_list(&self, v: &Value) -> Vec<Act> {
        v.as_array()
            .expect("list")
            .iter()
            .map(|x| self.parse(x.as_str().expect("name")))
            .collect()
    }

    fn fresh_of(&self, a: Act) -> &Obs {
        &self.fresh.iter().find(|(x, _)| *x == a).expect("fresh").1
    }

    fn new_vm(&self) -> Vm {
        Interpreter::with_storage(
            MemoryInstance::new(),
            self.baseline.clone(),
            self.ip.clone(),
        )
    }
}

// ------------------------------------------------------------------ observations

#[derive(Clone, Debug, PartialEq)]
struct PredObs {
    /// `predicates::check_predicates`: gas used or the failure
    check: Result<u64, String>,
    /// `into_checked_reusable_memory` (signatures + predicates) verdict
    api: Result<(), String>,
    /// `estimate_predicates` from the un-estimated transaction: gas per predicate input
    est: Result<Vec<u64>, String>,
}

#[derive(Clone, Debug, PartialEq)]
struct Obs {
    pre: Option<PredObs>,
    state: Result<ProgramState, String>,
    receipts: Vec<Receipt>,
    tx: Option<Script>,
    storage: String,
    /// what the wrapper API (Transactor / MemoryClient) reports besides the above
    api: String,
}

impl Obs {
    fn label(&self) -> String {
        let st = match &self.state {
            Ok(ProgramState::Return(w)) => format!("Return({w})"),
            Ok(ProgramState::ReturnData(_)) => "ReturnData".to_string(),
            Ok(ProgramState::Revert(w)) => format!("Revert({w})"),
            Ok(o) => format!("{o:?}"),
            Err(e) => format!("Err({})", e.chars().take(60).collect::<String>()),
        };
        let panic = self.receipts.iter().find_map(|r| match r {
            Receipt::Panic {
                reason,
                contract_id,
                ..
            } => Some(format!(
                "/Panic({:?},{})",
                reason.reason(),
                match contract_id {
                    Some(c) => format!("Some({})", hex::encode(c.as_ref() as &[u8])),
                    None => "None".into(),
                }
            )),
            _ => None,
        });
        format!("{st}{}", panic.unwrap_or_default())
    }

    fn class(&self) -> String {
        if let Some(p) = &self.pre {
            if self.tx.is_none() && self.state.is_err() {
                return match &p.check {
                    Ok(_) => "predicates:Ok".into(),
                    Err(e) => format!(
                        "predicates:{}",
                        e.split(|c: char| !c.is_alphanumeric()).next().unwrap_or("Err")
                    ),
                }
            }
        }
        let l = self.label();
        l.split(',').next().unwrap_or(&l).replace("/Panic(", "/").to_string()
    }
}

fn render(s: &MemoryStorage) -> String {
    format!("{s:?}")
}

fn strip_digits(s: &str) -> String {
    s.chars().filter(|c| !c.is_ascii_digit()).collect()
}

/// The contract id attached to a Panic receipt is left out of `Receipt`'s own `==`
/// (it is not part of the receipts root) but it is part of the receipt handed to the
/// caller, so it is compared as well.
fn panic_meta(r: &Receipt) -> Option<Option<ContractId>> {
    match r {
        Receipt::Panic {
            contract_id, ..
        } => Some(*contract_id),
        _ => None,
    }
}

/// Index of the first differing receipt (or of the first missing one).
fn receipts_differ(a: &[Receipt], b: &[Receipt]) -> Option<usize> {
    let i = a
        .iter()
        .zip(b.iter())
        .position(|(x, y)| x != y || panic_meta(x) != panic_meta(y));
    match i {
        Some(i) => Some(i),
        None if a.len() != b.len() => Some(a.len().min(b.len())),
        None => None,
    }
}

/// First differing observable (in the order the statement lists them) and a detail.
fn diff(fresh: &Obs, reused: &Obs) -> Option<(&'static str, String)> {
    if fresh.pre != reused.pre {
        let (f, u) = (fresh.pre.as_ref(), reused.pre.as_ref());
        let verdict = |p: Option<&PredObs>| {
            p.map(|p| {
                (
                    p.check.as_ref().map(|_| ()).map_err(|e| strip_digits(e)),
                    p.api.clone().map_err(|e| strip_digits(&e)),
                    p.est.as_ref().map(|_| ()).map_err(|e| strip_digits(e)),
                )
            })
        };
        let what = if verdict(f) != verdict(u) { "verdict" } else { "gas" };
        return Some((what, format!("new memory: {f:?}; reused memory: {u:?}")))
    }
    if fresh.state != reused.state || fresh.api != reused.api {
        return Some((
            "state",
            format!(
                "new: {:?} [{}]; reused: {:?} [{}]",
                fresh.state, fresh.api, reused.state, reused.api
            ),
        ))
    }
    if let Some(i) = receipts_differ(&fresh.receipts, &reused.receipts) {
        let show = |r: Option<&Receipt>| {
            format!("{r:?}").chars().take(400).collect::<String>()
        };
        return Some((
            "receipts",
            format!(
                "counts new/reused = {}/{}; first difference at #{i}: new {} ; reused {}",
                fresh.receipts.len(),
                reused.receipts.len(),
                show(fresh.receipts.get(i)),
                show(reused.receipts.get(i))
            ),
        ))
    }
    if fresh.tx != reused.tx {
        return Some((
            "tx",
            format!(
                "transactions left by the VM differ: new {:?} ; reused {:?}",
                fresh.tx.as_ref().map(|t| fuel_tx::field::Outputs::outputs(t).to_vec()),
                reused.tx.as_ref().map(|t| fuel_tx::field::Outputs::outputs(t).to_vec())
            ),
        ))
    }
    if fresh.storage != reused.storage {
        let i = fresh
            .storage
            .bytes()
            .zip(reused.storage.bytes())
            .position(|(a, b)| a != b)
            .unwrap_or(0);
        let lo = i.saturating_sub(80);
        let cut = |s: &str| s.chars().skip(lo).take(200).collect::<String>();
        return Some((
            "storage",
            format!(
                "storage renderings differ near byte {i}: new ..{}.. ; reused ..{}..",
                cut(&fresh.storage),
                cut(&reused.storage)
            ),
        ))
    }
    None
}

// ------------------------------------------------------------------ executing actions

/// What is visible of the instance's hidden state just before the target runs (for
/// the evidence only: shows that the residues were really there).
#[derive(Clone, Debug, Default)]
struct Residue {
    frames: usize,
    receipts: usize,
    cache: usize,
    hp: u64,
    sp: u64,
    flag: u64,
    of: u64,
    err: u64,
    fp: u64,
}

fn residue(vm: &Vm) -> Residue {
    let regs = vm.registers();
    let g = |r: RegId| regs[r.to_u8() as usize];
    let cache: Vec<_> = vm
        .bench_storage_slot_cache()
        .iter()
        .map(|(k, v)| (*k, v.clone()))
        .collect();
    Residue {
        frames: vm.verif_call_stack().len(),
        receipts: vm.receipts().len(),
        cache: cache.len(),
        hp: g(RegId::HP),
        sp: g(RegId::SP),
        flag: g(RegId::FLAG),
        of: g(RegId::OF),
        err: g(RegId::ERR),
        fp: hash64(&(
            regs.to_vec(),
            vm.verif_call_stack().len(),
            vm.receipts().len(),
            cache,
            format!("{:?}", vm.memory()),
            format!("{:?}", vm.context()),
        )),
    }
}

fn pred_on_memory(env: &Env, mem: &mut MemoryInstance, j: usize) -> PredObs {
    let d = &env.preds[j];
    let check = match catch_any(|| {
        predicates::check_predicates(
            &d.checked,
            &env.cpp,
            &mut *mem,
            &EmptyStorage,
            NotSupportedEcal,
        )
    }) {
        Ok(Ok(c)) => Ok(c.gas_used()),
        Ok(Err(e)) => Err(format!("{e:?}")),
        Err(m) => Err(format!("HOST-PANIC {m}")),
    };
    let api = match catch_any(|| {
        d.tx.clone().into_checked_reusable_memory(
            BlockHeight::new(0),
            &env.world.params,
            &mut *mem,
            &EmptyStorage,
        )
    }) {
        Ok(Ok(_)) => Ok(()),
        Ok(Err(e)) => Err(format!("{e:?}")),
        Err(m) => Err(format!("HOST-PANIC {m}")),
    };
    let mut t = d.raw.clone();
    let est = match catch_any(|| t.estimate_predicates(&env.cpp, &mut *mem, &EmptyStorage)) {
        Ok(Ok(())) => Ok(t
            .inputs()
            .iter()
            .filter_map(|i| i.predicate_gas_used())
            .collect()),
        Ok(Err(e)) => Err(format!("{e:?}")),
        Err(m) => Err(format!("HOST-PANIC {m}")),
    };
    PredObs {
        check,
        api,
        est,
    }
}

fn empty_obs(pre: Option<PredObs>, state: Result<ProgramState, String>, storage: String) -> Obs {
    Obs {
        pre,
        state,
        receipts: vec![],
        tx: None,
        storage,
        api: String::new(),
    }
}

impl Env {
    /// One action on an interpreter instance (storage is whatever the instance holds).
    fn exec_interp(&self, vm: &mut Vm, a: Act) -> Obs {
        match a {
            Act::P(j) => {
                let p = pred_on_memory(self, vm.memory_mut(), j);
                empty_obs(
                    Some(p),
                    Err("predicate-only action".into()),
                    String::new(),
                )
            }
            Act::S(i) => {
                let d = &self.scripts[i];
                let mut pre = None;
                let mut checked = d.checked.clone();
                if let Some(j) = d.pred {
                    let p = pred_on_memory(self, vm.memory_mut(), j);
                    // the statement's "ready transaction": predicates verified on this memory
                    let c2 = catch_any(|| {
                        checked.clone().check_predicates(
                            &self.cpp,
                            vm.memory_mut(),
                            &EmptyStorage,
                            NotSupportedEcal,
                        )
                    });
                    pre = Some(p);
                    match c2 {
                        Ok(Ok(c)) => checked = c,
                        Ok(Err(e)) => {
                            return empty_obs(
                                pre,
                                Err(format!("not ready: {e:?}")),
                                render(vm.as_ref()),
                            )
                        }
                        Err(m) => {
                            return empty_obs(
                                pre,
                                Err(format!("HOST-PANIC {m}")),
                                render(vm.as_ref()),
                            )
                        }
                    }
                }
                let ready = checked.test_into_ready();
                let r = catch_any(|| match vm.transact(ready) {
                    Ok(st) => (
                        Ok(*st.state()),
                        st.receipts().to_vec(),
                        Some(st.tx().clone()),
                    ),
                    Err(e) => (Err(format!("{e:?}")), vec![], None),
                });
                let (state, receipts, tx) = match r {
                    Ok(x) => x,
                    Err(m) => (Err(format!("HOST-PANIC {m}")), vec![], None),
                };
                Obs {
                    pre,
                    state,
                    receipts,
                    tx,
                    storage: render(vm.as_ref()),
                    api: String::new(),
                }
            }
        }
    }

    fn checked_of(&self, a: Act) -> Checked<Script> {
        match a {
            Act::S(i) => self.scripts[i].checked.clone(),
            Act::P(_) => panic!("predicate-only actions exist in the interp model only"),
        }
    }

    fn exec_transactor(&self, t: &mut Txr, a: Act) -> Obs {
        let checked = self.checked_of(a);
        let r = catch_any(|| {
            t.transact(checked);
        });
        if let Err(m) = r {
            return empty_obs(
                None,
                Err(format!("HOST-PANIC {m}")),
                render(t.as_ref()),
            )
        }
        let api = format!(
            "is_success={} is_reverted={} error={:?} receipts_some={} transition_some={}",
            t.is_success(),
            t.is_reverted(),
            t.error().map(|e| format!("{e:?}")),
            t.receipts().is_some(),
            t.state_transition().is_some()
        );
        let (state, tx) = match t.result() {
            Ok(st) => (Ok(*st.state()), Some(st.tx().clone())),
            Err(e) => (Err(format!("{e:?}")), None),
        };
        Obs {
            pre: None,
            state,
            receipts: t.receipts().map(|r| r.to_vec()).unwrap_or_default(),
            tx,
            storage: render(t.as_ref()),
            api,
        }
    }

    fn exec_client(&self, c: &mut Client, a: Act) -> Obs {
        let checked = self.checked_of(a);
        let r = catch_any(|| c.transact(checked).to_vec());
        let returned = match r {
            Ok(v) => v,
            Err(m) => {
                return empty_obs(
                    None,
                    Err(format!("HOST-PANIC {m}")),
                    render(c.as_ref()),
                )
            }
        };
        let (state, tx, receipts) = match c.state_transition() {
            Some(st) => (
                Ok(*st.state()),
                Some(st.tx().clone()),
                st.receipts().to_vec(),
            ),
            None => (Err("no state transition".to_string()), None, vec![]),
        };
        let api = format!(
            "returned_receipts_equal_transition={} receipts_some={}",
            returned == receipts,
            c.receipts().is_some()
        );
        Obs {
            pre: None,
            state,
            receipts,
            tx,
            storage: render(c.as_ref()),
            api,
        }
    }

    /// The reused instance after `hist` (interp model: baseline storage before each tx).
    fn interp_after(&self, hist: &[Act]) -> Vm {
        let mut vm = self.new_vm();
        for h in hist {
            *vm.as_mut() = self.baseline.clone();
            let _ = self.exec_interp(&mut vm, *h);
        }
        vm
    }

    /// One transition = (history, target): returns (new-instance obs, reused obs, residue).
    /// For the interp model the new-instance observation is the one computed once in
    /// `Env::new` (`fresh_of`), returned as `None` here to avoid copying it.
    fn transition(&self, mode: Mode, hist: &[Act], target: Act) -> (Option<Obs>, Obs, Option<Residue>) {
        match mode {
            Mode::Interp => {
                let mut vm = self.interp_after(hist);
                *vm.as_mut() = self.baseline.clone();
                let res = residue(&vm);
                let reused = self.exec_interp(&mut vm, target);
                (None, reused, Some(res))
            }
            Mode::Transactor => {
                let mut t = Txr::new(MemoryInstance::new(), self.baseline.clone(), self.ip.clone());
                for h in hist {
                    let _ = self.exec_transactor(&mut t, *h);
                }
                let before: MemoryStorage = AsRef::<MemoryStorage>::as_ref(&t).clone();
                let res = residue(t.interpreter());
                let reused = self.exec_transactor(&mut t, target);
                let mut f = Txr::new(MemoryInstance::new(), before, self.ip.clone());
                let fresh = self.exec_transactor(&mut f, target);
                (Some(fresh), reused, Some(res))
            }
            Mode::Client => {
                let mut c = Client::new(MemoryInstance::new(), self.baseline.clone(), self.ip.clone());
                for h in hist {
                    let _ = self.exec_client(&mut c, *h);
                }
                let before: MemoryStorage = AsRef::<MemoryStorage>::as_ref(&c).clone();
                let reused = self.exec_client(&mut c, target);
                let mut f = Client::new(MemoryInstance::new(), before, self.ip.clone());
                let fresh = self.exec_client(&mut f, target);
                (Some(fresh), reused, None)
            }
        }
    }

    /// The shared oracle for one (history, target) pair. Returns a summary of the run
    /// on the reused instance (outcome class, receipt count, gas used).
    fn judge(&self, ctx: &Ctx, mode: Mode, hist: &[Act], target: Act) -> (Summary, Option<Residue>) {
        let (fresh, reused, res) = self.transition(mode, hist, target);
        let fresh: &Obs = match &fresh {
            Some(f) => f,
            None => self.fresh_of(target),
        };
        let d = diff(fresh, &reused);
        let equal = d.is_none();
        if let Some((what, detail)) = d {
            ctx.violation(
                format!("C31:{}:{what}", self.name(target)),
                format!(
                    "[{}] target {} after history {:?} on the same instance differs from a new instance over equal storage: {detail}",
                    mode.s(),
                    self.name(target),
                    self.names(hist)
                ),
                json!({"mode": mode.s(), "history": self.names(hist), "target": self.name(target)}),
            );
        }
        let gas_used = reused.receipts.iter().find_map(|r| match r {
            Receipt::ScriptResult {
                gas_used, ..
            } => Some(*gas_used),
            _ => None,
        });
        (
            Summary {
                class: reused.class(),
                equal,
                receipts: reused.receipts.len(),
                gas_used,
                predicates: reused.pre.as_ref().map(|p| format!("{:?}", p.check)),
            },
            res,
        )
    }
}

struct Summary {
    class: String,
    equal: bool,
    receipts: usize,
    gas_used: Option<u64>,
    predicates: Option<String>,
}

// ------------------------------------------------------------------ BFS model

#[derive(Default)]
struct Acc {
    outcomes: BTreeMap<String, u64>,
    residues: BTreeMap<String, u64>,
    samples: usize,
}

struct ReuseModel<'a> {
    env: &'a Env,
    mode: Mode,
    alphabet: Vec<Act>,
    /// target-only letters also extend histories (thorough "all letters" run)
    all_extend: bool,
    label: &'static str,
    acc: Mutex<Acc>,
}

impl Model for ReuseModel<'_> {
    type State = Vec<Act>;
    type Action = Act;
    type Key = Vec<Act>;

    fn init(&self) -> Vec<Act> {
        vec![]
    }

    fn actions(&self, s: &Vec<Act>) -> Vec<Act> {
        match s.last() {
            Some(l) if !self.all_extend && self.env.target_only(*l) => vec![],
            _ => self.alphabet.clone(),
        }
    }

    fn step(&self, s: &Vec<Act>, a: &Act, _path: &[Act], ctx: &Ctx) -> Option<Vec<Act>> {
        let (sum, res) = self.env.judge(ctx, self.mode, s, *a);
        let class = sum.class.clone();
        ctx.evals(1);
        if !s.is_empty() {
            match &res {
                Some(r) => ctx.fp(hash64(&(self.mode, r.fp, *a))),
                None => ctx.fp(hash64(&(self.mode, s, *a))),
            }
        }
        {
            let mut acc = self.acc.lock().unwrap();
            *acc
                .outcomes
                .entry(format!("{}:{}:{class}", self.label, self.env.name(*a)))
                .or_insert(0) += 1;
            if let Some(r) = &res {
                let mut bump = |k: &str, on: bool| {
                    if on {
                        *acc.residues.entry(k.to_string()).or_insert(0) += 1;
                    }
                };
                bump("call frames left", r.frames > 0);
                bump("receipts left", r.receipts > 0);
                bump(">=200 receipts left", r.receipts >= 200);
                bump("warm slot cache", r.cache > 0);
                bump("heap >= 64 KiB", MEM_SIZE - r.hp >= 65536);
                bump("stack >= 60 kB above tx", r.sp >= 60_000);
                bump("$flag/$of/$err set", r.flag != 0 || r.of != 0 || r.err != 0);
                bump("any of the above", r.frames > 0 || r.receipts > 0 || r.cache > 0);
                bump("target ran on a used instance", !s.is_empty());
            }
        }
        // a few written-out real cases per model, picked by a deterministic filter
        if s.len() >= 2 && s[0] != s[1] && s[1] != *a && hash64(&(self.mode, s, *a)) % 97 == 0 {
            let take = {
                let mut acc = self.acc.lock().unwrap();
                acc.samples += 1;
                acc.samples <= if self.label.starts_with("interp-") { 1 } else { 2 }
            };
            if take {
                ctx.sample(json!({
                    "model": self.label,
                    "history": self.env.names(s),
                    "target": self.env.name(*a),
                    "on_reused_instance": {"outcome": class, "receipts": sum.receipts, "gas_used": sum.gas_used, "predicates": sum.predicates},
                    "residue_before_target": res.as_ref().map(|r| json!({
                        "call_frames": r.frames, "receipts": r.receipts, "slot_cache_entries": r.cache,
                        "hp": r.hp, "sp": r.sp, "flag": r.flag, "of": r.of, "err": r.err})),
                    "equal_to_new_instance": sum.equal,
                }));
            }
        }
        let mut n = s.clone();
        n.push(*a);
        Some(n)
    }

    fn key(&self, s: &Vec<Act>) -> Vec<Act> {
        s.clone()
    }

    fn check(&self, _s: &Vec<Act>, _path: &[Act], _ctx: &Ctx) {}
}

// ------------------------------------------------------------------ memory pool part

struct DirtyPool {
    q: Mutex<VecDeque<MemoryInstance>>,
    handed: Mutex<usize>,
}

impl VmMemoryPool for DirtyPool {
    type Memory = MemoryInstance;

    fn get_new(&self) -> impl core::future::Future<Output = Self::Memory> + Send {
        let m = self
            .q
            .lock()
            .unwrap()
            .pop_front()
            .unwrap_or_else(MemoryInstance::new);
        *self.handed.lock().unwrap() += 1;
        core::future::ready(m)
    }
}

type TaskOut = (usize, Result<Word, PredicateVerificationFailed>);

struct InOrder;
struct Reversed;

async fn run_tasks(
    futures: Vec<futures::future::BoxFuture<'static, TaskOut>>,
    reversed: bool,
) -> Vec<TaskOut> {
    let n = futures.len();
    let mut futs: Vec<Option<futures::future::BoxFuture<'static, TaskOut>>> =
        futures.into_iter().map(Some).collect();
    let mut out: Vec<Option<TaskOut>> = (0..n).map(|_| None).collect();
    let mut order: Vec<usize> = (0..n).collect();
    if reversed {
        order.reverse();
    }
    for i in order {
        let f = futs[i].take().expect("task");
        out[i] = Some(f.await);
    }
    out.into_iter().map(|x| x.expect("result")).collect()
}

#[async_trait::async_trait]
impl ParallelExecutor for InOrder {
    type Task = futures::future::BoxFuture<'static, TaskOut>;

    fn create_task<F>(func: F) -> Self::Task
    where
        F: FnOnce() -> TaskOut + Send + 'static,
    {
        Box::pin(async move { func() })
    }

    async fn execute_tasks(futures: Vec<Self::Task>) -> Vec<TaskOut> {
        run_tasks(futures, false).await
    }
}

#[async_trait::async_trait]
impl ParallelExecutor for Reversed {
    type Task = futures::future::BoxFuture<'static, TaskOut>;

    fn create_task<F>(func: F) -> Self::Task
    where
        F: FnOnce() -> TaskOut + Send + 'static,
    {
        Box::pin(async move { func() })
    }

    async fn execute_tasks(futures: Vec<Self::Task>) -> Vec<TaskOut> {
        run_tasks(futures, true).await
    }
}

impl Env {
    fn pool_check(&self, j: usize, mems: Vec<MemoryInstance>, reversed: bool) -> (Result<u64, String>, usize) {
        let pool = DirtyPool {
            q: Mutex::new(mems.into_iter().collect()),
            handed: Mutex::new(0),
        };
        let d = &self.preds[j];
        let r = catch_any(|| {
            if reversed {
                futures::executor::block_on(predicates::check_predicates_async::<
                    Script,
                    NotSupportedEcal,
                    Reversed,
                >(
                    &d.checked, &self.cpp, &pool, &EmptyStorage, NotSupportedEcal
                ))
            } else {
                futures::executor::block_on(predicates::check_predicates_async::<
                    Script,
                    NotSupportedEcal,
                    InOrder,
                >(
                    &d.checked, &self.cpp, &pool, &EmptyStorage, NotSupportedEcal
                ))
            }
        });
        let handed = *pool.handed.lock().unwrap();
        let v = match r {
            Ok(Ok(c)) => Ok(c.gas_used()),
            Ok(Err(e)) => Err(format!("{e:?}")),
            Err(m) => Err(format!("HOST-PANIC {m}")),
        };
        (v, handed)
    }

    /// Oracle of the pool part: verdict and gas with pooled dirty memories equal the
    /// verdict and gas with new memories (pool of new memories, and the synchronous
    /// check on one new memory).
    fn judge_pool(&self, ctx: &Ctx, j: usize, slots: &[Vec<Act>], reversed: bool) -> String {
        let mems: Vec<MemoryInstance> = slots
            .iter()
            .map(|h| self.interp_after(h).memory().clone())
            .collect();
        let (dirty, handed) = self.pool_check(j, mems, reversed);
        let (clean, _) = self.pool_check(j, vec![], reversed);
        let sync = self.fresh_of(Act::P(j)).pre.as_ref().expect("pred").check.clone();
        let name = format!("pred:{}", self.preds[j].name);
        let case = json!({"mode": "pool", "pred": self.preds[j].name,
            "slots": slots.iter().map(|h| self.names(h)).collect::<Vec<_>>(), "reversed": reversed});
        for (label, other) in [("a pool of new memories", &clean), ("one new memory (synchronous check)", &sync)] {
            if &dirty != other {
                let what = match (&dirty, other) {
                    (Ok(_), Ok(_)) => "gas",
                    (Err(a), Err(b)) if strip_digits(a) == strip_digits(b) => "gas",
                    _ => "verdict",
                };
                ctx.violation(
                    format!("C31:{name}:{what}"),
                    format!(
                        "check_predicates_async of {name} with pooled memories left by {:?} (reversed={reversed}): {dirty:?}; with {label}: {other:?}",
                        slots.iter().map(|h| self.names(h)).collect::<Vec<_>>()
                    ),
                    case.clone(),
                );
                break
            }
        }
        assert!(handed >= 1, "the pool was never asked for a memory");
        match dirty {
            Ok(_) => "pool:Ok".to_string(),
            Err(e) => format!(
                "pool:{}",
                e.split(|c: char| !c.is_alphanumeric()).next().unwrap_or("Err")
            ),
        }
    }
}

// ------------------------------------------------------------------ driver

fn all_histories(alpha: &[Act], max_len: usize) -> Vec<Vec<Act>> {
    let mut out: Vec<Vec<Act>> = vec![vec![]];
    let mut level: Vec<Vec<Act>> = vec![vec![]];
    for _ in 0..max_len {
        let mut next = Vec::new();
        for h in &level {
            for a in alpha {
                let mut n = h.clone();
                n.push(*a);
                next.push(n);
            }
        }
        out.extend(next.iter().cloned());
        level = next;
    }
    out
}

fn explore(ctx: &Ctx) {
    ctx.rule(
        "explicit-state BFS; state = one real VM instance after a history (key = the history), transition = one more \
         transaction / predicate check on the same instance, compared with a new instance over equal storage. \
         Non-trivial = the target ran on an instance with a non-empty history; distinct = distinct (model, visible \
         residue of the instance before the target [registers, frames, receipts, slot cache, memory rendering, context], \
         target) for interp/transactor and distinct (history, target) for the client model; the pool part adds \
         distinct (predicate, histories of the pooled memories, order).",
    );
    ctx.assume("MemoryStorage (test backend) is a faithful key-value store; its {:?} rendering shows its whole content");
    ctx.assume("the comparison instance is given a clone of the storage the reused instance holds just before the target");
    ctx.assume("debugger configuration (breakpoints, single stepping) is not used: no action touches it");
    ctx.set(
        "dont_care",
        json!([
            "registers and memory of the instance after the execution (not named by the statement)",
            "Rust-level capacity of the memory vectors",
            "which of two new instances is called 'fresh' (both are compared)",
            "order in which the harness executor runs predicate tasks (both orders are run)",
        ]),
    );
    let env = Env::new();
    // A pool member that does not behave as designed on a NEW instance makes the check
    // weaker without anyone noticing: that is a machinery error. Exception: the
    // two-predicate transaction, whose synchronous check already shares one memory
    // between its predicates — for it the pool part below is the judge (synchronous
    // check on one memory versus a pool of new memories).
    for (a, msg) in &env.unmet {
        let shares_memory = matches!(a, Act::P(j) if *j == PREDTX)
            || matches!(a, Act::S(i) if env.scripts[*i].pred.is_some());
        if !shares_memory {
            panic!("{msg}");
        }
    }
    ctx.set(
        "pool_members_not_as_designed",
        json!(env.unmet.iter().map(|(_, m)| m.clone()).collect::<Vec<_>>()),
    );
    ctx.set(
        "alphabet",
        json!({
            "transactions": env.scripts.iter().enumerate().map(|(i, d)| json!({"name": d.name, "on_new_instance": env.fresh_of(Act::S(i)).label()})).collect::<Vec<_>>(),
            "predicate_only_actions(interp model)": env.preds.iter().enumerate().map(|(j, d)| json!({"name": format!("pred:{}", d.name), "on_new_memory": format!("{:?}", env.fresh_of(Act::P(j)).pre.as_ref().unwrap().check)})).collect::<Vec<_>>(),
        }),
    );

    // reuse: BFS to depth (history length + 1)
    let depth = ctx.pick(3usize, 4usize);
    let mut runs: Vec<(Mode, &'static str, Vec<Act>, usize, bool)> = vec![
        (Mode::Interp, "interp", env.alphabet(Mode::Interp), depth, false),
        (Mode::Transactor, "transactor", env.alphabet(Mode::Transactor), depth, false),
        (Mode::Client, "client", env.alphabet(Mode::Client), depth, false),
    ];
    if ctx.thorough() {
        // the target-only letters as history elements too (histories <= 2)
        runs.push((Mode::Interp, "interp-all-letters", env.alphabet(Mode::Interp), 3, true));
        // longer histories (<= 5) over the transactions that leave / reveal the most
        let core: Vec<Act> = ["heap64k", "deepstack", "panic-in-call", "store", "load", "flags", "small-heap", "mem-read"]
            .iter()
            .map(|n| env.parse(n))
            .collect();
        runs.push((Mode::Interp, "interp-core-deep", core, 6, false));
    }
    for (mode, label, alphabet, depth, all_extend) in runs {
        let names = env.names(&alphabet);
        let m = ReuseModel {
            env: &env,
            mode,
            alphabet,
            all_extend,
            label,
            acc: Mutex::new(Acc::default()),
        };
        let st = bfs::bfs(&m, depth, 50_000_000, ctx);
        let acc = m.acc.into_inner().unwrap();
        ctx.outcomes_merge(&acc.outcomes);
        ctx.set(
            label,
            json!({
                "max_history_len": st.completed_depth.saturating_sub(1),
                "depth_completed": st.completed_depth,
                "states(histories)": st.states,
                "transitions(history,target pairs)": st.transitions,
                "per_depth": st.per_depth,
                "alphabet": names,
                "target_only(do not extend a history)": if all_extend { json!([]) } else { json!(TARGET_ONLY) },
                "residues_present_before_target(counts of pairs)": acc.residues,
                "capped": st.capped,
            }),
        );
    }

    // predicate checks with a memory pool handing out used memories
    let alpha = env.history_alphabet(Mode::Interp);
    let single = all_histories(&alpha, ctx.pick(1, 2));
    let short = all_histories(&alpha, 1);
    let mut pool_cases = 0u64;
    let mut pool_out: BTreeMap<String, u64> = BTreeMap::new();
    let mut cases: Vec<(usize, Vec<Vec<Act>>, bool)> = Vec::new();
    for (j, d) in env.preds.iter().enumerate() {
        let n_pred = d.tx.inputs().iter().filter(|i| i.is_coin_predicate()).count();
        for rev in [false, true] {
            if n_pred == 1 {
                for h in &single {
                    cases.push((j, vec![h.clone()], rev));
                }
            } else {
                for h1 in &short {
                    for h2 in &short {
                        cases.push((j, vec![h1.clone(), h2.clone()], rev));
                    }
                }
            }
        }
    }
    use rayon::prelude::*;
    let labels: Vec<String> = cases
        .par_iter()
        .map(|(j, slots, rev)| env.judge_pool(ctx, *j, slots, *rev))
        .collect();
    for ((j, slots, rev), l) in cases.iter().zip(labels) {
        pool_cases += 1;
        *pool_out
            .entry(format!("{}:{}", l, env.preds[*j].name))
            .or_insert(0) += 1;
        if slots.iter().any(|h| !h.is_empty()) {
            ctx.fp(hash64(&("pool", *j, slots, *rev)));
        }
    }
    ctx.evals(pool_cases);
    ctx.outcomes_merge(&pool_out);
    ctx.set(
        "pool",
        json!({"cases": pool_cases, "pooled_memory_histories_max_len": ctx.pick(1, 2),
               "two_predicate_tx": "all ordered pairs of histories of length <= 1", "executor_orders": ["in order", "reversed"]}),
    );
    ctx.sample(json!({
        "model": "pool", "pred": "p-dirty+p-clean", "slots": [["heap64k"], ["pred:p-dirty"]], "reversed": true,
        "result": format!("{:?}", env.pool_check(PREDTX, vec![env.interp_after(&[env.parse("heap64k")]).memory().clone(), env.interp_after(&[env.parse("pred:p-dirty")]).memory().clone()], true).0),
        "with_new_memories": format!("{:?}", env.pool_check(PREDTX, vec![], true).0),
    }));
}

fn replay(case: &Value, ctx: &Ctx) {
    let env = Env::new();
    match case["mode"].as_str().expect("mode") {
        "pool" => {
            let p = case["pred"].as_str().expect("pred");
            let j = env.preds.iter().position(|d| d.name == p).expect("pred name");
            let slots: Vec<Vec<Act>> = case["slots"]
                .as_array()
                .expect("slots")
                .iter()
                .map(|h| env.parse_list(h))
                .collect();
            env.judge_pool(ctx, j, &slots, case["reversed"].as_bool().unwrap_or(false));
        }
        m => {
            let mode = Mode::parse(m);
            let hist = env.parse_list(&case["history"]);
            let target = env.parse(case["target"].as_str().expect("target"));
            env.judge(ctx, mode, &hist, target);
        }
    }
}

fn main() {
    // referenced so that a changed world layout is a compile error, not a silent shift
    let _ = (ContractId::LEN, PanicReason::ContractNotInInputs, X_A_R);
    run_check("C31", Level::ModelChecking, explore, replay)
}
