//! C05 — In-VM transaction introspection returns the executed transaction's data.
//!
//! Space (every element is executed; nothing is sampled):
//!   UNITS = prepared VMs:
//!     * executable Script transactions (each must pass `into_checked_basic`), a star
//!       product around two base points over: input lists (all sequences of length <= 2
//!       over the 7 input kinds + 7 rotations of the all-kinds list; a base-asset fee coin
//!       is appended when the list has no base-asset spendable input), output lists (all
//!       sequences of length <= 2 over Coin/Change/Variable; one Contract output per
//!       contract input is added, first or last, order reversed for odd classes), the 32
//!       subsets of the optional policies (tip, witness limit, maturity, expiration,
//!       owner; max fee always set), 10 (quick) / 90 (thorough) vector-length classes
//!       (predicate 1..9, predicate data 0..9, message data 1..9 bytes, per slot),
//!       same-owner flag, script x script-data lengths from L = 0..9, witness lists of
//!       length <= 2 with lengths from L; plus all (single input kind x output list)
//!       pairs (thorough: all input lists of length <= 2 and the rotations x output lists), each in SCRIPT context
//!       (`init_script`) and once per predicate input in PREDICATE context
//!       (`init_predicate`, instruction executed in predicate mode);
//!     * three call programs paused INSIDE contract A (called by the script) and inside
//!       contract B (called by A): INTERNAL context;
//!     * Create / Upgrade(both purposes) / Upload (proof sets of 0..3 nodes) / Blob
//!       transactions carrying predicate inputs, with and without precomputed metadata,
//!       once per predicate input in PREDICATE context (verification / estimation).
//!     * REUSED INSTANCES: every unit above is additionally prepared on ONE long-lived
//!       interpreter per transaction type that is re-initialised over and over
//!       (`init_script` / `init_predicate` on the same object): each script-typed unit
//!       once right after a "rich" initialisation (call program left paused two calls deep
//!       with contract inputs/outputs, owner policy, frames, receipts; or a predicate
//!       context) and once right after a "poor" one (no contracts, outputs, policies;
//!       unknown owner), polluters rotating; Create/Upgrade/Upload/Blob units in corpus
//!       order and in reverse order. The sweep runs on a snapshot (clone) of the instance.
//!   CASES per unit: EVERY GTF immediate 0..4095 x index register in
//!     {0..=maxlen+1, 65535, 65536, 2^32, u64::MAX} (maxlen = longest list of the tx);
//!     EVERY GM immediate 0..2^18-1 for the first unit of every (tx kind, context) class
//!     (thorough: every 16th unit), a boundary set of ~140 immediates for the others and
//!     for all reused-instance units.
//!   One injected instruction per case on a clone of the prepared VM.
//! Bound: the transaction alphabets above (listed in the evidence); one instruction.
//!
//! Oracle (independent of fuel-vm's metadata.rs and of fuel-tx's offset accessors):
//!   the transaction the VM holds (`vm.transaction()`, i.e. the prepared transaction) is
//!   re-encoded BY HAND from its typed fields following the tx-format tables (one word
//!   per integer, 32-byte ids, length words + zero padded vectors); the hand encoding
//!   must equal the VM memory image at `tx_offset` (checked once per unit, key
//!   `C05:image:*`) and yields the address of every field. Per selector (names and
//!   meanings from the `GTFArgs`/`GMArgs` doc comments, families and accepted panic
//!   reasons from DESIGN.md Appendix B): value selectors must return the field value;
//!   pointer selectors must return `tx_offset + field offset` and VM memory there must
//!   equal the field's canonical bytes; absent indices, foreign input/output variants,
//!   selectors of another transaction kind and undefined immediates must panic with a
//!   reason of the accepted set. GM: chain id, tx start (32 + 32 + max_inputs*40 + 8),
//!   base asset pointer (dereferenced), gas price, owner pointer (dereferenced; owner =
//!   policy owner input's owner, else the unanimous owner of all owned inputs),
//!   verifying predicate index, caller pointer (dereferenced) / is-caller-external.
//!   Don't-cares are listed in the evidence (`dont_care`).

use fuel_asm::{
    op,
    GMArgs,
    GTFArgs,
    Instruction,
    PanicReason,
    RegId,
};
use fuel_tx::{
    field::{
        self,
        BlobId as _,
        BytecodeRoot as _,
        BytecodeWitnessIndex as _,
        Inputs as _,
        ProofSet as _,
        ReceiptsRoot as _,
        Salt as _,
        Script as _,
        ScriptData as _,
        ScriptGasLimit as _,
        StorageSlots as _,
        SubsectionIndex as _,
        SubsectionsNumber as _,
        UpgradePurpose as _,
    },
    policies::{
        Policies,
        PolicyType,
    },
    BlobBody,
    Cacheable,
    ConsensusParameters,
    Input,
    Output,
    Script,
    StorageSlot,
    Transaction,
    TxParameters,
    TxPointer,
    UpgradePurpose,
    UploadBody,
    UtxoId,
    Witness,
};
use fuel_types::{
    Address,
    AssetId,
    BlobId,
    BlockHeight,
    Bytes32,
    ChainId,
    ContractId,
    Nonce,
    Salt,
};
use fuel_vm::{
    checked_transaction::IntoChecked,
    context::Context,
    error::InterpreterError,
    interpreter::{
        ExecutableTransaction,
        Interpreter,
        InterpreterParams,
        MemoryInstance,
    },
    predicate::RuntimePredicate,
    state::ExecuteState,
    storage::{
        InterpreterStorage,
        MemoryStorage,
    },
};
use std::collections::{
    BTreeMap,
    HashSet,
};
use vcore::{
    guard,
    json,
    run::hash64,
    run_check,
    space,
    vmkit::Step,
    Ctx,
    Level,
    Value,
};

// ------------------------------------------------------------------ configuration

/// Deliberately non-default values so that "returns a constant/default" is visible.
const CHAIN_ID: u64 = 0x0000_5afe_c0de_0042;
const GAS_PRICE: u64 = 0x0000_1234_5678_9abc;
const MAX_INPUTS: u16 = 16;
const HEIGHT: u32 = 10;
const GAS: u64 = 1_000_000;

fn base_asset() -> AssetId {
    AssetId::new(pat32(0xB0))
}

fn asset_x() -> AssetId {
    AssetId::new(pat32(0xC7))
}

fn params() -> ConsensusParameters {
    let mut p = ConsensusParameters::standard();
    p.set_chain_id(ChainId::new(CHAIN_ID));
    p.set_base_asset_id(base_asset());
    p.set_tx_params(TxParameters::DEFAULT.with_max_inputs(MAX_INPUTS));
    p
}

/// VM initialisation layout: tx id (32), base asset id (32), max_inputs balance entries
/// (asset id 32 + amount 8), tx size (8), then the transaction.
fn expected_tx_offset() -> usize {
    32 + 32 + MAX_INPUTS as usize * 40 + 8
}

/// Where the base asset id lives (second initialisation item).
const REG_DST: usize = 0x10;
const REG_IDX: usize = 0x11;
const DIRTY: u64 = 0xdead_beef_0bad_f00d;

fn pat32(pos: u8) -> [u8; 32] {
    let mut b = [0u8; 32];
    for (i, x) in b.iter_mut().enumerate() {
        *x = (i as u8).wrapping_add(1).wrapping_add(pos.wrapping_mul(37));
    }
    b
}

fn bytes_of(len: usize, tag: u8) -> Vec<u8> {
    (0..len)
        .map(|i| 0x80 | ((tag as usize).wrapping_mul(7).wrapping_add(i) & 0x7f) as u8)
        .collect()
}

fn word_pattern(pos: u8) -> u64 {
    0x0102_0304_0506_0700 | pos as u64
}

const fn pad8(n: usize) -> usize {
    (n + 7) / 8 * 8
}

// ------------------------------------------------------------------ hand encoder + layout

struct Enc {
    buf: Vec<u8>,
}

impl Enc {
    fn pos(&self) -> usize {
        self.buf.len()
    }

    fn word(&mut self, v: u64) {
        self.buf.extend_from_slice(&v.to_be_bytes());
    }

    fn raw(&mut self, b: &[u8]) {
        self.buf.extend_from_slice(b);
    }

    fn padded(&mut self, b: &[u8]) {
        self.raw(b);
        for _ in b.len()..pad8(b.len()) {
            self.buf.push(0);
        }
    }
}

/// Input families as numbered by `tx.inputs[i].type`.
const FAM_COIN: u8 = 0;
const FAM_CONTRACT: u8 = 1;
const FAM_MESSAGE: u8 = 2;

const INPUT_KINDS: [&str; 7] = [
    "CoinSigned",
    "CoinPredicate",
    "Contract",
    "MessageCoinSigned",
    "MessageCoinPredicate",
    "MessageDataSigned",
    "MessageDataPredicate",
];
const OUTPUT_KINDS: [&str; 5] = ["Coin", "Contract", "Change", "Variable", "ContractCreated"];

#[derive(Clone, Debug, Default)]
struct InLay {
    fam: u8,
    variant: u8,
    off: usize,
    size: usize,
    out_idx: u64,
    amount: u64,
    witness_index: u64,
    gas_used: u64,
    dlen: usize,
    plen: usize,
    pdlen: usize,
    /// the variant carries a predicate (else the predicate fields are empty by construction)
    has_pred: bool,
    /// the variant carries message data
    has_data: bool,
    owner: Option<[u8; 32]>,
}

#[derive(Clone, Debug, Default)]
struct OutLay {
    ty: u8,
    off: usize,
    size: usize,
    amount: u64,
    input_index: u64,
}

#[derive(Clone, Debug, Default)]
struct WitLay {
    off: usize,
    size: usize,
    len: usize,
}

#[derive(Clone, Debug)]
struct ScriptLay {
    gas_limit: u64,
    script: (usize, usize),
    data: (usize, usize),
}

#[derive(Clone, Debug)]
struct CreateLay {
    bwi: u64,
    salt_off: usize,
    slots: Vec<usize>,
}

#[derive(Clone, Debug)]
struct UploadLay {
    root_off: usize,
    wi: u64,
    si: u64,
    sn: u64,
    proofs: Vec<usize>,
}

#[derive(Clone, Debug)]
struct BlobLay {
    id_off: usize,
    wi: u64,
}

#[derive(Clone, Debug)]
struct Lay {
    tx_type: u64,
    kind: &'static str,
    bytes: Vec<u8>,
    policy_bits: u64,
    policy: [Option<u64>; 6],
    inputs: Vec<InLay>,
    outputs: Vec<OutLay>,
    wits: Vec<WitLay>,
    script: Option<ScriptLay>,
    create: Option<CreateLay>,
    upload: Option<UploadLay>,
    blob: Option<BlobLay>,
    upgrade: Option<(usize, usize)>,
    /// expected answer of GM GetOwner
    owner: Option<[u8; 32]>,
}

fn enc_input(e: &mut Enc, i: &Input) -> InLay {
    let off = e.pos();
    let variant = match i {
        Input::CoinSigned(_) => 0,
        Input::CoinPredicate(_) => 1,
        Input::Contract(_) => 2,
        Input::MessageCoinSigned(_) => 3,
        Input::MessageCoinPredicate(_) => 4,
        Input::MessageDataSigned(_) => 5,
        Input::MessageDataPredicate(_) => 6,
    };
    let mut l = InLay {
        variant,
        off,
        ..Default::default()
    };
    let pred: &[u8] = i.input_predicate().unwrap_or(&[]);
    let pdata: &[u8] = i.input_predicate_data().unwrap_or(&[]);
    let data: &[u8] = i.input_data().unwrap_or(&[]);
    l.has_pred = matches!(variant, 1 | 4 | 6);
    l.has_data = matches!(variant, 5 | 6);
    l.plen = pred.len();
    l.pdlen = pdata.len();
    l.dlen = data.len();
    l.witness_index = i.witness_index().unwrap_or(0) as u64;
    l.gas_used = i.predicate_gas_used().unwrap_or(0);
    l.owner = i.input_owner().map(|a| **a);
    match variant {
        0 | 1 => {
            l.fam = FAM_COIN;
            let utxo = i.utxo_id().expect("coin utxo");
            let tp = i.tx_pointer().expect("coin tx pointer");
            l.out_idx = utxo.output_index() as u64;
            l.amount = i.amount().expect("coin amount");
            e.word(0);
            e.raw(utxo.tx_id().as_ref());
            e.word(l.out_idx);
            e.raw(i.input_owner().expect("coin owner").as_ref());
            e.word(l.amount);
            e.raw(i.asset_id(&AssetId::zeroed()).expect("coin asset").as_ref());
            e.word(u32::from(tp.block_height()) as u64);
            e.word(tp.tx_index() as u64);
            e.word(l.witness_index);
            e.word(l.gas_used);
            e.word(l.plen as u64);
            e.word(l.pdlen as u64);
            e.padded(pred);
            e.padded(pdata);
        }
        2 => {
            l.fam = FAM_CONTRACT;
            let utxo = i.utxo_id().expect("contract utxo");
            let tp = i.tx_pointer().expect("contract tx pointer");
            l.out_idx = utxo.output_index() as u64;
            e.word(1);
            e.raw(utxo.tx_id().as_ref());
            e.word(l.out_idx);
            e.raw(i.balance_root().expect("balance root").as_ref());
            e.raw(i.state_root().expect("state root").as_ref());
            e.word(u32::from(tp.block_height()) as u64);
            e.word(tp.tx_index() as u64);
            e.raw(i.contract_id().expect("contract id").as_ref());
        }
        _ => {
            l.fam = FAM_MESSAGE;
            l.amount = i.amount().expect("message amount");
            e.word(2);
            e.raw(i.sender().expect("sender").as_ref());
            e.raw(i.recipient().expect("recipient").as_ref());
            e.word(l.amount);
            e.raw(i.nonce().expect("nonce").as_ref());
            e.word(l.witness_index);
            e.word(l.gas_used);
            e.word(l.dlen as u64);
            e.word(l.plen as u64);
            e.word(l.pdlen as u64);
            e.padded(data);
            e.padded(pred);
            e.padded(pdata);
        }
    }
    l.size = e.pos() - off;
    l
}

fn enc_output(e: &mut Enc, o: &Output) -> OutLay {
    let off = e.pos();
    let mut l = OutLay {
        off,
        ..Default::default()
    };
    match o {
        Output::Coin { to, amount, asset_id }
        | Output::Change { to, amount, asset_id }
        | Output::Variable { to, amount, asset_id } => {
            l.ty = match o {
                Output::Coin { .. } => 0,
                Output::Change { .. } => 2,
                _ => 3,
            };
            l.amount = *amount;
            e.word(l.ty as u64);
            e.raw(to.as_ref());
            e.word(*amount);
            e.raw(asset_id.as_ref());
        }
        Output::Contract(c) => {
            l.ty = 1;
            l.input_index = c.input_index as u64;
            e.word(1);
            e.word(l.input_index);
            e.raw(c.balance_root.as_ref());
            e.raw(c.state_root.as_ref());
        }
        Output::ContractCreated { contract_id, state_root } => {
            l.ty = 4;
            e.word(4);
            e.raw(contract_id.as_ref());
            e.raw(state_root.as_ref());
        }
    }
    l.size = e.pos() - off;
    l
}

fn enc_witness(e: &mut Enc, w: &Witness) -> WitLay {
    let off = e.pos();
    let d = w.as_vec();
    e.word(d.len() as u64);
    e.padded(d);
    WitLay {
        off,
        size: e.pos() - off,
        len: d.len(),
    }
}

const POLICY_ORDER: [PolicyType; 6] = [
    PolicyType::Tip,
    PolicyType::WitnessLimit,
    PolicyType::Maturity,
    PolicyType::MaxFee,
    PolicyType::Expiration,
    PolicyType::Owner,
];

/// Hand-encode `tx` (tx-format tables) and record where everything is.
fn layout(tx: &Transaction) -> Lay {
    fn common_head<T>(e: &mut Enc, t: &T)
    where
        T: field::Policies + field::Inputs + field::Outputs + field::Witnesses,
    {
        e.word(t.policies().bits() as u64);
        e.word(t.inputs().len() as u64);
        e.word(t.outputs().len() as u64);
        e.word(t.witnesses().len() as u64);
    }
    fn common_tail<T>(e: &mut Enc, t: &T, l: &mut Lay)
    where
        T: field::Policies + field::Inputs + field::Outputs + field::Witnesses,
    {
        l.policy_bits = t.policies().bits() as u64;
        for (k, p) in POLICY_ORDER.iter().enumerate() {
            l.policy[k] = t.policies().get(*p);
            if let Some(v) = l.policy[k] {
                e.word(v);
            }
        }
        l.inputs = t.inputs().iter().map(|i| enc_input(e, i)).collect();
        l.outputs = t.outputs().iter().map(|o| enc_output(e, o)).collect();
        l.wits = t.witnesses().iter().map(|w| enc_witness(e, w)).collect();
        // GM GetOwner reference
        l.owner = match l.policy[5] {
            Some(idx) => l.inputs.get(idx as usize).and_then(|i| i.owner),
            None => {
                let owners: Vec<[u8; 32]> = l.inputs.iter().filter_map(|i| i.owner).collect();
                match owners.first() {
                    Some(f) if owners.iter().all(|o| o == f) => Some(*f),
                    _ => None,
                }
            }
        };
    }
    let mut e = Enc { buf: Vec::new() };
    let mut l = Lay {
        tx_type: 0,
        kind: "",
        bytes: vec![],
        policy_bits: 0,
        policy: [None; 6],
        inputs: vec![],
        outputs: vec![],
        wits: vec![],
        script: None,
        create: None,
        upload: None,
        blob: None,
        upgrade: None,
        owner: None,
    };
    match tx {
        Transaction::Script(t) => {
            l.tx_type = 0;
            l.kind = "Script";
            e.word(0);
            e.word(*t.script_gas_limit());
            e.raw(t.receipts_root().as_ref());
            e.word(t.script().len() as u64);
            e.word(t.script_data().len() as u64);
            common_head(&mut e, t);
            let s = (e.pos(), t.script().len());
            e.padded(t.script());
            let d = (e.pos(), t.script_data().len());
            e.padded(t.script_data());
            l.script = Some(ScriptLay {
                gas_limit: *t.script_gas_limit(),
                script: s,
                data: d,
            });
            common_tail(&mut e, t, &mut l);
        }
        Transaction::Create(t) => {
            l.tx_type = 1;
            l.kind = "Create";
            e.word(1);
            e.word(*t.bytecode_witness_index() as u64);
            let salt_off = e.pos();
            e.raw(t.salt().as_ref());
            e.word(t.storage_slots().len() as u64);
            common_head(&mut e, t);
            let mut slots = vec![];
            for s in t.storage_slots() {
                slots.push(e.pos());
                e.raw(s.key().as_ref());
                e.raw(s.value().as_ref());
            }
            l.create = Some(CreateLay {
                bwi: *t.bytecode_witness_index() as u64,
                salt_off,
                slots,
            });
            common_tail(&mut e, t, &mut l);
        }
        Transaction::Upgrade(t) => {
            l.tx_type = 3;
            l.kind = "Upgrade";
            e.word(3);
            let off = e.pos();
            match t.upgrade_purpose() {
                UpgradePurpose::ConsensusParameters { witness_index, checksum } => {
                    e.word(0);
                    e.word(*witness_index as u64);
                    e.raw(checksum.as_ref());
                }
                UpgradePurpose::StateTransition { root } => {
                    e.word(1);
                    e.raw(root.as_ref());
                }
            }
            l.upgrade = Some((off, e.pos() - off));
            common_head(&mut e, t);
            common_tail(&mut e, t, &mut l);
        }
        Transaction::Upload(t) => {
            l.tx_type = 4;
            l.kind = "Upload";
            e.word(4);
            let root_off = e.pos();
            e.raw(t.bytecode_root().as_ref());
            e.word(*t.bytecode_witness_index() as u64);
            e.word(*t.subsection_index() as u64);
            e.word(*t.subsections_number() as u64);
            e.word(t.proof_set().len() as u64);
            common_head(&mut e, t);
            let mut proofs = vec![];
            for p in t.proof_set() {
                proofs.push(e.pos());
                e.raw(p.as_ref());
            }
            l.upload = Some(UploadLay {
                root_off,
                wi: *t.bytecode_witness_index() as u64,
                si: *t.subsection_index() as u64,
                sn: *t.subsections_number() as u64,
                proofs,
            });
            common_tail(&mut e, t, &mut l);
        }
        Transaction::Blob(t) => {
            l.tx_type = 5;
            l.kind = "Blob";
            e.word(5);
            let id_off = e.pos();
            e.raw(t.blob_id().as_ref());
            e.word(*t.bytecode_witness_index() as u64);
            common_head(&mut e, t);
            l.blob = Some(BlobLay {
                id_off,
                wi: *t.bytecode_witness_index() as u64,
            });
            common_tail(&mut e, t, &mut l);
        }
        Transaction::Mint(_) => panic!("Mint is not executable"),
    }
    l.bytes = e.buf;
    l
}

// ------------------------------------------------------------------ selector tables

/// Every defined GTF selector (immediate, name) as documented in fuel-asm `GTFArgs`.
const GTF_TABLE: &[(u16, &str)] = &[
    (0x001, "Type"),
    (0x002, "ScriptGasLimit"),
    (0x003, "ScriptLength"),
    (0x004, "ScriptDataLength"),
    (0x005, "ScriptInputsCount"),
    (0x006, "ScriptOutputsCount"),
    (0x007, "ScriptWitnessesCount"),
    (0x009, "Script"),
    (0x00A, "ScriptData"),
    (0x00B, "ScriptInputAtIndex"),
    (0x00C, "ScriptOutputAtIndex"),
    (0x00D, "ScriptWitnessAtIndex"),
    (0x00E, "TxLength"),
    (0x101, "CreateBytecodeWitnessIndex"),
    (0x102, "CreateStorageSlotsCount"),
    (0x103, "CreateInputsCount"),
    (0x104, "CreateOutputsCount"),
    (0x105, "CreateWitnessesCount"),
    (0x106, "CreateSalt"),
    (0x107, "CreateStorageSlotAtIndex"),
    (0x108, "CreateInputAtIndex"),
    (0x109, "CreateOutputAtIndex"),
    (0x10A, "CreateWitnessAtIndex"),
    (0x200, "InputType"),
    (0x201, "InputCoinTxId"),
    (0x202, "InputCoinOutputIndex"),
    (0x203, "InputCoinOwner"),
    (0x204, "InputCoinAmount"),
    (0x205, "InputCoinAssetId"),
    (0x206, "InputCoinTxPointer"),
    (0x207, "InputCoinWitnessIndex"),
    (0x209, "InputCoinPredicateLength"),
    (0x20A, "InputCoinPredicateDataLength"),
    (0x20B, "InputCoinPredicate"),
    (0x20C, "InputCoinPredicateData"),
    (0x20D, "InputCoinPredicateGasUsed"),
    (0x220, "InputContractTxId"),
    (0x221, "InputContractOutputIndex"),
    (0x225, "InputContractId"),
    (0x240, "InputMessageSender"),
    (0x241, "InputMessageRecipient"),
    (0x242, "InputMessageAmount"),
    (0x243, "InputMessageNonce"),
    (0x244, "InputMessageWitnessIndex"),
    (0x245, "InputMessageDataLength"),
    (0x246, "InputMessagePredicateLength"),
    (0x247, "InputMessagePredicateDataLength"),
    (0x248, "InputMessageData"),
    (0x249, "InputMessagePredicate"),
    (0x24A, "InputMessagePredicateData"),
    (0x24B, "InputMessagePredicateGasUsed"),
    (0x300, "OutputType"),
    (0x301, "OutputCoinTo"),
    (0x302, "OutputCoinAmount"),
    (0x303, "OutputCoinAssetId"),
    (0x304, "OutputContractInputIndex"),
    (0x307, "OutputContractCreatedContractId"),
    (0x308, "OutputContractCreatedStateRoot"),
    (0x400, "WitnessDataLength"),
    (0x401, "WitnessData"),
    (0x500, "PolicyTypes"),
    (0x501, "PolicyTip"),
    (0x502, "PolicyWitnessLimit"),
    (0x503, "PolicyMaturity"),
    (0x504, "PolicyMaxFee"),
    (0x505, "PolicyExpiration"),
    (0x506, "PolicyOwner"),
    (0x600, "UploadRoot"),
    (0x601, "UploadWitnessIndex"),
    (0x602, "UploadSubsectionIndex"),
    (0x603, "UploadSubsectionsCount"),
    (0x604, "UploadProofSetCount"),
    (0x605, "UploadProofSetAtIndex"),
    (0x700, "BlobId"),
    (0x701, "BlobWitnessIndex"),
    (0x800, "UpgradePurpose"),
    (0x900, "TxInputsCount"),
    (0x901, "TxOutputsCount"),
    (0x902, "TxWitnessesCount"),
    (0x903, "TxInputAtIndex"),
    (0x904, "TxOutputAtIndex"),
    (0x905, "TxWitnessAtIndex"),
];

const GM_TABLE: &[(u32, &str)] = &[
    (1, "IsCallerExternal"),
    (2, "GetCaller"),
    (3, "GetVerifyingPredicate"),
    (4, "GetChainId"),
    (5, "TxStart"),
    (6, "BaseAssetId"),
    (7, "GetGasPrice"),
    (8, "GetOwner"),
];

fn gtf_name(imm: u16) -> Option<&'static str> {
    GTF_TABLE.iter().find(|e| e.0 == imm).map(|e| e.1)
}

fn gm_name(imm: u32) -> Option<&'static str> {
    GM_TABLE.iter().find(|e| e.0 == imm).map(|e| e.1)
}

// accepted panic reasons as a bit set
const P_IMI: u32 = 1 << 0; // InvalidMetadataIdentifier
const P_INF: u32 = 1 << 1; // InputNotFound
const P_ONF: u32 = 1 << 2; // OutputNotFound
const P_WNF: u32 = 1 << 3; // WitnessNotFound
const P_PNS: u32 = 1 << 4; // PolicyIsNotSet
const P_SSNF: u32 = 1 << 5; // StorageSlotsNotFound
const P_PIUNF: u32 = 1 << 6; // ProofInUploadNotFound
const P_EIC: u32 = 1 << 7; // ExpectedInternalContext
const P_ENC: u32 = 1 << 8; // ExpectedNestedCaller
const P_TV: u32 = 1 << 9; // TransactionValidity
const P_GPP: u32 = 1 << 10; // CanNotGetGasPriceInPredicate
const P_OIU: u32 = 1 << 11; // OwnerIsUnknown
const P_ANY: u32 = 1 << 31; // any well-formed VM panic

const REASON_BITS: [(PanicReason, u32, &str); 12] = [
    (PanicReason::InvalidMetadataIdentifier, P_IMI, "InvalidMetadataIdentifier"),
    (PanicReason::InputNotFound, P_INF, "InputNotFound"),
    (PanicReason::OutputNotFound, P_ONF, "OutputNotFound"),
    (PanicReason::WitnessNotFound, P_WNF, "WitnessNotFound"),
    (PanicReason::PolicyIsNotSet, P_PNS, "PolicyIsNotSet"),
    (PanicReason::StorageSlotsNotFound, P_SSNF, "StorageSlotsNotFound"),
    (PanicReason::ProofInUploadNotFound, P_PIUNF, "ProofInUploadNotFound"),
    (PanicReason::ExpectedInternalContext, P_EIC, "ExpectedInternalContext"),
    (PanicReason::ExpectedNestedCaller, P_ENC, "ExpectedNestedCaller"),
    (PanicReason::TransactionValidity, P_TV, "TransactionValidity"),
    (PanicReason::CanNotGetGasPriceInPredicate, P_GPP, "CanNotGetGasPriceInPredicate"),
    (PanicReason::OwnerIsUnknown, P_OIU, "OwnerIsUnknown"),
];

fn reason_bit(r: PanicReason) -> u32 {
    REASON_BITS.iter().find(|e| e.0 == r).map(|e| e.1).unwrap_or(0)
}

fn reasons_text(mask: u32) -> String {
    if mask & P_ANY != 0 {
        return "any panic".to_string()
    }
    let v: Vec<&str> = REASON_BITS.iter().filter(|e| e.1 & mask != 0).map(|e| e.2).collect();
    if v.is_empty() { "-".to_string() } else { v.join("|") }
}

// ------------------------------------------------------------------ reference

#[derive(Clone, Debug, PartialEq, Eq)]
enum OkExp {
    Val(u64),
    /// address = tx_offset + rel; memory there == image[rel..rel+len]
    Ptr { rel: usize, len: usize },
    /// documentation and Appendix B disagree on value vs address: either is accepted
    ValOrPtr { val: u64, rel: usize, len: usize },
    /// any address whose bytes equal these (GM pointers outside the tx image)
    Deref([u8; 32]),
}

#[derive(Clone, Debug)]
struct Exp {
    ok: Option<OkExp>,
    panics: u32,
}

fn must(ok: OkExp) -> Exp {
    Exp { ok: Some(ok), panics: 0 }
}

fn fail(panics: u32) -> Exp {
    Exp { ok: None, panics }
}

fn either(ok: OkExp, panics: u32) -> Exp {
    Exp { ok: Some(ok), panics }
}

fn val(v: u64) -> OkExp {
    OkExp::Val(v)
}

fn ptr(rel: usize, len: usize) -> OkExp {
    OkExp::Ptr { rel, len }
}

/// Reference answer of `GTF $dst, $idx(=b), imm` for the transaction described by `l`.
fn gtf_expect(l: &Lay, imm: u16, b: u64) -> Exp {
    let at = |n: usize| -> Option<usize> { if b < n as u64 { Some(b as usize) } else { None } };
    let is_script = l.script.is_some();
    let is_create = l.create.is_some();
    // deprecated kind-prefixed aliases of the generic selectors: must work for their own
    // kind; for other kinds either the generic answer or InvalidMetadataIdentifier
    let alias = |own: bool, e: Exp| -> Exp {
        if own { e } else { Exp { ok: e.ok, panics: e.panics | P_IMI } }
    };
    let input_at = |e: Option<&InLay>| match e {
        Some(i) => must(ptr(i.off, i.size)),
        None => fail(P_INF),
    };
    let output_at = |e: Option<&OutLay>| match e {
        Some(o) => must(ptr(o.off, o.size)),
        None => fail(P_ONF),
    };
    let witness_at = |e: Option<&WitLay>| match e {
        Some(w) => must(ptr(w.off, w.size)),
        None => fail(P_WNF),
    };
    let inp = at(l.inputs.len()).map(|i| &l.inputs[i]);
    let out = at(l.outputs.len()).map(|i| &l.outputs[i]);
    let wit = at(l.wits.len()).map(|i| &l.wits[i]);
    let policy = |k: usize| match l.policy[k] {
        Some(v) => must(val(v)),
        None => fail(P_PNS),
    };
    // input field of family `fam`; `empty` = the variant leaves this field empty (then
    // InputNotFound is accepted as well as the empty value)
    let infield = |fam: u8, f: &dyn Fn(&InLay) -> (OkExp, bool)| -> Exp {
        match inp {
            Some(i) if i.fam == fam => {
                let (ok, empty) = f(i);
                if empty { either(ok, P_INF) } else { must(ok) }
            }
            _ => fail(P_INF),
        }
    };
    const COIN_PRED: usize = 168;
    const MSG_DATA: usize = 152;
    match imm {
        0x001 => must(val(l.tx_type)),
        0x002 => match &l.script {
            Some(s) => must(val(s.gas_limit)),
            None => either(val(0), P_IMI),
        },
        0x003 => l.script.as_ref().map(|s| must(val(s.script.1 as u64))).unwrap_or(fail(P_IMI)),
        0x004 => l.script.as_ref().map(|s| must(val(s.data.1 as u64))).unwrap_or(fail(P_IMI)),
        0x005 => alias(is_script, must(val(l.inputs.len() as u64))),
        0x006 => alias(is_script, must(val(l.outputs.len() as u64))),
        0x007 => alias(is_script, must(val(l.wits.len() as u64))),
        0x009 => l.script.as_ref().map(|s| must(ptr(s.script.0, s.script.1))).unwrap_or(fail(P_IMI)),
        0x00A => l.script.as_ref().map(|s| must(ptr(s.data.0, s.data.1))).unwrap_or(fail(P_IMI)),
        0x00B => alias(is_script, input_at(inp)),
        0x00C => alias(is_script, output_at(out)),
        0x00D => alias(is_script, witness_at(wit)),
        0x00E => must(val(l.bytes.len() as u64)),
        0x101 => l.create.as_ref().map(|c| must(val(c.bwi))).unwrap_or(fail(P_IMI)),
        0x102 => l.create.as_ref().map(|c| must(val(c.slots.len() as u64))).unwrap_or(fail(P_IMI)),
        0x103 => alias(is_create, must(val(l.inputs.len() as u64))),
        0x104 => alias(is_create, must(val(l.outputs.len() as u64))),
        0x105 => alias(is_create, must(val(l.wits.len() as u64))),
        0x106 => l.create.as_ref().map(|c| must(ptr(c.salt_off, 32))).unwrap_or(fail(P_IMI)),
        0x107 => match &l.create {
            Some(c) => match at(c.slots.len()) {
                Some(i) => must(ptr(c.slots[i], 64)),
                None => fail(P_SSNF),
            },
            None => fail(P_IMI),
        },
        0x108 => alias(is_create, input_at(inp)),
        0x109 => alias(is_create, output_at(out)),
        0x10A => alias(is_create, witness_at(wit)),
        0x200 => match inp {
            Some(i) => must(val(i.fam as u64)),
            None => fail(P_INF),
        },
        0x201 => infield(FAM_COIN, &|i| (ptr(i.off + 8, 32), false)),
        0x202 => infield(FAM_COIN, &|i| (val(i.out_idx), false)),
        0x203 => infield(FAM_COIN, &|i| (ptr(i.off + 48, 32), false)),
        0x204 => infield(FAM_COIN, &|i| (val(i.amount), false)),
        0x205 => infield(FAM_COIN, &|i| (ptr(i.off + 88, 32), false)),
        0x206 => infield(FAM_COIN, &|i| (ptr(i.off + 120, 16), false)),
        0x207 => infield(FAM_COIN, &|i| (val(i.witness_index), i.has_pred)),
        0x209 => infield(FAM_COIN, &|i| (val(i.plen as u64), !i.has_pred)),
        0x20A => infield(FAM_COIN, &|i| (val(i.pdlen as u64), !i.has_pred)),
        0x20B => infield(FAM_COIN, &|i| (ptr(i.off + COIN_PRED, i.plen), !i.has_pred)),
        0x20C => infield(FAM_COIN, &|i| (ptr(i.off + COIN_PRED + pad8(i.plen), i.pdlen), !i.has_pred)),
        0x20D => infield(FAM_COIN, &|i| {
            (OkExp::ValOrPtr { val: i.gas_used, rel: i.off + 144, len: 8 }, !i.has_pred)
        }),
        0x220 => infield(FAM_CONTRACT, &|i| (ptr(i.off + 8, 32), false)),
        0x221 => {
            // index of the contract output naming this input
            let naming: Vec<usize> = l
                .outputs
                .iter()
                .enumerate()
                .filter(|(_, o)| o.ty == 1 && o.input_index == b)
                .map(|(j, _)| j)
                .collect();
            if b >= 1 << 16 {
                fail(P_IMI | P_INF)
            } else {
                match (inp, naming.as_slice()) {
                    (Some(i), [j]) if i.fam == FAM_CONTRACT => must(val(*j as u64)),
                    // not a well-formed transaction (several / dangling contract outputs)
                    (_, [j, ..]) => either(val(*j as u64), P_INF),
                    _ => fail(P_INF),
                }
            }
        }
        0x225 => infield(FAM_CONTRACT, &|i| (ptr(i.off + 128, 32), false)),
        0x240 => infield(FAM_MESSAGE, &|i| (ptr(i.off + 8, 32), false)),
        0x241 => infield(FAM_MESSAGE, &|i| (ptr(i.off + 40, 32), false)),
        0x242 => infield(FAM_MESSAGE, &|i| (val(i.amount), false)),
        0x243 => infield(FAM_MESSAGE, &|i| (ptr(i.off + 80, 32), false)),
        0x244 => infield(FAM_MESSAGE, &|i| (val(i.witness_index), i.has_pred)),
        0x245 => infield(FAM_MESSAGE, &|i| (val(i.dlen as u64), !i.has_data)),
        0x246 => infield(FAM_MESSAGE, &|i| (val(i.plen as u64), !i.has_pred)),
        0x247 => infield(FAM_MESSAGE, &|i| (val(i.pdlen as u64), !i.has_pred)),
        0x248 => infield(FAM_MESSAGE, &|i| (ptr(i.off + MSG_DATA, i.dlen), !i.has_data)),
        0x249 => infield(FAM_MESSAGE, &|i| (ptr(i.off + MSG_DATA + pad8(i.dlen), i.plen), !i.has_pred)),
        0x24A => infield(FAM_MESSAGE, &|i| {
            (ptr(i.off + MSG_DATA + pad8(i.dlen) + pad8(i.plen), i.pdlen), !i.has_pred)
        }),
        0x24B => infield(FAM_MESSAGE, &|i| {
            (OkExp::ValOrPtr { val: i.gas_used, rel: i.off + 120, len: 8 }, !i.has_pred)
        }),
        0x300 => match out {
            Some(o) => must(val(o.ty as u64)),
            None => fail(P_ONF),
        },
        0x301 | 0x302 | 0x303 => match out {
            Some(o) if matches!(o.ty, 0 | 2 | 3) => {
                let ok = match imm {
                    0x301 => ptr(o.off + 8, 32),
                    0x302 => val(o.amount),
                    _ => ptr(o.off + 48, 32),
                };
                if o.ty == 0 { must(ok) } else { either(ok, P_ONF) }
            }
            _ => fail(P_ONF),
        },
        0x304 => match out {
            Some(o) if o.ty == 1 => must(val(o.input_index)),
            _ => fail(P_ONF | P_INF),
        },
        0x307 => match out {
            Some(o) if o.ty == 4 => must(ptr(o.off + 8, 32)),
            _ => fail(P_ONF),
        },
        0x308 => match out {
            Some(o) if o.ty == 4 => must(ptr(o.off + 40, 32)),
            _ => fail(P_ONF),
        },
        0x400 => match wit {
            Some(w) => must(val(w.len as u64)),
            None => fail(P_WNF),
        },
        0x401 => match wit {
            Some(w) => must(ptr(w.off + 8, w.len)),
            None => fail(P_WNF),
        },
        0x500 => must(val(l.policy_bits)),
        0x501 => policy(0),
        0x502 => policy(1),
        0x503 => policy(2),
        0x504 => policy(3),
        0x505 => policy(4),
        0x506 => policy(5),
        0x600 => l.upload.as_ref().map(|u| must(ptr(u.root_off, 32))).unwrap_or(fail(P_IMI)),
        0x601 => l.upload.as_ref().map(|u| must(val(u.wi))).unwrap_or(fail(P_IMI)),
        0x602 => l.upload.as_ref().map(|u| must(val(u.si))).unwrap_or(fail(P_IMI)),
        0x603 => l.upload.as_ref().map(|u| must(val(u.sn))).unwrap_or(fail(P_IMI)),
        0x604 => l.upload.as_ref().map(|u| must(val(u.proofs.len() as u64))).unwrap_or(fail(P_IMI)),
        0x605 => match &l.upload {
            Some(u) => match at(u.proofs.len()) {
                Some(i) => must(ptr(u.proofs[i], 32)),
                None => fail(P_PIUNF),
            },
            None => fail(P_IMI),
        },
        0x700 => l.blob.as_ref().map(|x| must(ptr(x.id_off, 32))).unwrap_or(fail(P_IMI)),
        0x701 => l.blob.as_ref().map(|x| must(val(x.wi))).unwrap_or(fail(P_IMI)),
        0x800 => l.upgrade.map(|(o, n)| must(ptr(o, n))).unwrap_or(fail(P_IMI)),
        0x900 => must(val(l.inputs.len() as u64)),
        0x901 => must(val(l.outputs.len() as u64)),
        0x902 => must(val(l.wits.len() as u64)),
        0x903 => input_at(inp),
        0x904 => output_at(out),
        0x905 => witness_at(wit),
        _ => fail(P_IMI),
    }
}

#[derive(Clone, Debug, PartialEq, Eq)]
enum CtxKind {
    Script,
    Predicate { idx: usize },
    /// inside a called contract; `caller` = id of the calling contract (None: the script)
    Internal { caller: Option<[u8; 32]> },
}

impl CtxKind {
    fn name(&self) -> &'static str {
        match self {
            CtxKind::Script => "script",
            CtxKind::Predicate { .. } => "predicate",
            CtxKind::Internal { caller: None } => "internal(caller=script)",
            CtxKind::Internal { caller: Some(_) } => "internal(caller=contract)",
        }
    }
}

/// Reference answer of `GM $dst, imm`.
fn gm_expect(l: &Lay, ctx: &CtxKind, imm: u32) -> Exp {
    match imm {
        1 => match ctx {
            CtxKind::Internal { caller } => must(val(caller.is_none() as u64)),
            _ => fail(P_EIC),
        },
        2 => match ctx {
            CtxKind::Internal { caller: Some(id) } => must(OkExp::Deref(*id)),
            CtxKind::Internal { caller: None } => fail(P_ENC),
            _ => fail(P_EIC),
        },
        3 => match ctx {
            CtxKind::Predicate { idx } => must(val(*idx as u64)),
            _ => fail(P_TV),
        },
        4 => must(val(CHAIN_ID)),
        5 => must(val(expected_tx_offset() as u64)),
        6 => must(OkExp::Deref(*base_asset())),
        7 => match ctx {
            CtxKind::Predicate { .. } => fail(P_GPP),
            _ => must(val(GAS_PRICE)),
        },
        8 => match l.owner {
            Some(o) => must(OkExp::Deref(o)),
            None => fail(P_OIU),
        },
        _ => fail(P_ANY),
    }
}

// ------------------------------------------------------------------ running one instruction

type VmT<Tx> = Interpreter<MemoryInstance, MemoryStorage, Tx>;

fn classify<E: core::fmt::Debug>(r: Result<Result<ExecuteState, InterpreterError<E>>, String>) -> Step {
    match r {
        Err(m) => Step::HostPanic(m),
        Ok(Ok(ExecuteState::Proceed)) => Step::Proceed,
        Ok(Ok(ExecuteState::Return(w))) => Step::Return(w),
        Ok(Ok(ExecuteState::ReturnData(d))) => Step::ReturnData(*d),
        Ok(Ok(ExecuteState::Revert(w))) => Step::Revert(w),
        Ok(Ok(ExecuteState::DebugEvent(_))) => Step::Debug,
        Ok(Err(InterpreterError::PanicInstruction(p))) => Step::Panic(*p.reason()),
        Ok(Err(InterpreterError::Panic(p))) => Step::Panic(p),
        Ok(Err(e)) => Step::Error(format!("{e:?}")),
    }
}

/// A prepared VM of any transaction kind.
trait Runner: Send + Sync {
    /// Clone, `$0x11 = b`, dirty `$0x10`, inject `raw`; returns the step and `$0x10`.
    fn run(&self, raw: u32, b: u64) -> (Step, u64);
    /// `len` bytes of VM memory at `addr` (None: not readable).
    fn read(&self, addr: u64, len: usize) -> Option<Vec<u8>>;
    /// The transaction the VM holds.
    fn tx(&self) -> Transaction;
    fn tx_offset(&self) -> usize;
}

struct Holder<Tx> {
    vm: VmT<Tx>,
    predicate: bool,
}

impl<Tx> Runner for Holder<Tx>
where
    Tx: ExecutableTransaction + Into<Transaction> + Send + Sync,
{
    fn run(&self, raw: u32, b: u64) -> (Step, u64) {
        let mut vm = self.vm.clone();
        vm.registers_mut()[REG_DST] = DIRTY;
        vm.registers_mut()[REG_IDX] = b;
        let pred = self.predicate;
        let r = guard::catch_any(|| {
            if pred {
                vm.instruction::<_, true>(raw)
            } else {
                vm.instruction::<_, false>(raw)
            }
        });
        (classify(r), vm.registers()[REG_DST])
    }

    fn read(&self, addr: u64, len: usize) -> Option<Vec<u8>> {
        self.vm.memory().read(addr, len).ok().map(|s| s.to_vec())
    }

    fn tx(&self) -> Transaction {
        self.vm.transaction().clone().into()
    }

    fn tx_offset(&self) -> usize {
        self.vm.tx_offset()
    }
}

fn gtf_raw(imm: u16) -> u32 {
    0x61 << 24 | (REG_DST as u32) << 18 | (REG_IDX as u32) << 12 | (imm as u32 & 0xfff)
}

fn gm_raw(imm: u32) -> u32 {
    0x71 << 24 | (REG_DST as u32) << 18 | (imm & 0x3ffff)
}

// ------------------------------------------------------------------ judge

fn hex(b: &[u8]) -> String {
    let mut s = String::new();
    for x in b.iter().take(40) {
        s.push_str(&format!("{x:02x}"));
    }
    if b.len() > 40 {
        s.push_str("..");
    }
    s
}

/// First disagreement: (aspect, description).
fn judge(
    exp: &Exp,
    step: &Step,
    dest: u64,
    b: u64,
    lay: &Lay,
    r: &dyn Runner,
) -> Option<(&'static str, String)> {
    let tx_offset = expected_tx_offset() as u64;
    match step {
        Step::Proceed => {
            let Some(ok) = &exp.ok else {
                return Some((
                    "unexpected_success",
                    format!("expected panic {} but the instruction succeeded with {dest:#x}", reasons_text(exp.panics)),
                ))
            };
            let check_ptr = |rel: usize, len: usize| -> Option<(&'static str, String)> {
                let want = tx_offset + rel as u64;
                let size = lay.bytes.len() as u64;
                if len > 0 && dest != want {
                    let there = r.read(dest, len).map(|m| hex(&m)).unwrap_or("unreadable".into());
                    return Some((
                        "pointer",
                        format!(
                            "expected address {want:#x} (tx_offset {tx_offset:#x} + {rel}), observed {dest:#x} (= tx_offset + {}); memory there: {there}; field bytes: {}",
                            dest as i128 - tx_offset as i128,
                            hex(&lay.bytes[rel..rel + len])
                        ),
                    ))
                }
                if dest < tx_offset || dest.saturating_add(len as u64) > tx_offset + size {
                    return Some((
                        "pointer",
                        format!("pointer {dest:#x}+{len} is outside the transaction image [{tx_offset:#x}, {:#x})", tx_offset + size),
                    ))
                }
                match r.read(dest, len) {
                    Some(m) if m[..] == lay.bytes[rel..rel + len] => None,
                    Some(m) => Some((
                        "bytes",
                        format!("memory at {dest:#x} is {} but the field's canonical bytes are {}", hex(&m), hex(&lay.bytes[rel..rel + len])),
                    )),
                    None => Some(("bytes", format!("memory at {dest:#x}+{len} is not readable"))),
                }
            };
            match ok {
                OkExp::Val(v) => (dest != *v).then(|| ("value", format!("expected value {v:#x}, observed {dest:#x}"))),
                OkExp::Ptr { rel, len } => check_ptr(*rel, *len),
                OkExp::ValOrPtr { val, rel, len } => {
                    if dest == *val { None } else { check_ptr(*rel, *len) }
                }
                OkExp::Deref(want) => match r.read(dest, 32) {
                    Some(m) if m[..] == want[..] => None,
                    Some(m) => Some((
                        "bytes",
                        format!("memory at returned pointer {dest:#x} is {} but expected {}", hex(&m), hex(want)),
                    )),
                    None => Some(("bytes", format!("returned pointer {dest:#x} is not readable for 32 bytes"))),
                },
            }
        }
        Step::Panic(reason) => {
            let bit = reason_bit(*reason);
            if exp.panics & P_ANY != 0 || bit & exp.panics != 0 {
                return None
            }
            // hosts with a 32-bit usize reject such an index register up front
            if b > u32::MAX as u64 && *reason == PanicReason::InvalidMetadataIdentifier {
                return None
            }
            if exp.panics == 0 {
                Some(("unexpected_panic", format!("expected success ({:?}) but observed panic {reason:?}", exp.ok)))
            } else {
                Some((
                    "panic_reason",
                    format!(
                        "expected {}panic {} but observed panic {reason:?}",
                        if exp.ok.is_some() { "success or " } else { "" },
                        reasons_text(exp.panics)
                    ),
                ))
            }
        }
        other => Some(("outcome", format!("neither success nor a VM panic: {}", other.label()))),
    }
}

// ------------------------------------------------------------------ transactions

/// Enumerated executable Script transaction (all fields are small indices).
#[derive(Clone, Debug, PartialEq, Eq, Hash)]
struct ScriptSpec {
    /// input kinds (index into INPUT_KINDS)
    inputs: Vec<u8>,
    /// 0 Coin, 1 Change, 2 Variable
    outputs: Vec<u8>,
    /// optional policies: 1 tip, 2 witness limit, 4 maturity, 8 expiration, 16 owner
    pol: u8,
    /// vector-length class (0..90)
    v: u8,
    same_owner: bool,
    slen: usize,
    dlen: usize,
    wit: Vec<usize>,
    /// script = call program (contract A = first contract input, B = second)
    internal: bool,
}

impl ScriptSpec {
    fn to_json(&self) -> Value {
        json!({"inputs": self.inputs, "outputs": self.outputs, "pol": self.pol, "v": self.v,
               "same_owner": self.same_owner, "slen": self.slen, "dlen": self.dlen, "wit": self.wit,
               "internal": self.internal})
    }

    fn from_json(v: &Value) -> ScriptSpec {
        let list = |k: &str| -> Vec<u64> {
            v[k].as_array().expect("list").iter().map(|x| x.as_u64().expect("n")).collect()
        };
        ScriptSpec {
            inputs: list("inputs").iter().map(|x| *x as u8).collect(),
            outputs: list("outputs").iter().map(|x| *x as u8).collect(),
            pol: v["pol"].as_u64().expect("pol") as u8,
            v: v["v"].as_u64().expect("v") as u8,
            same_owner: v["same_owner"].as_bool().expect("same_owner"),
            slen: v["slen"].as_u64().expect("slen") as usize,
            dlen: v["dlen"].as_u64().expect("dlen") as usize,
            wit: list("wit").iter().map(|x| *x as usize).collect(),
            internal: v["internal"].as_bool().expect("internal"),
        }
    }

    fn describe(&self) -> String {
        format!(
            "Script inputs{:?} outputs{:?} policies={:#07b} lenclass={} same_owner={} script={}B data={}B witnesses{:?}{}",
            self.inputs.iter().map(|k| INPUT_KINDS[*k as usize]).collect::<Vec<_>>(),
            self.outputs.iter().map(|k| ["Coin", "Change", "Variable"][*k as usize]).collect::<Vec<_>>(),
            self.pol,
            self.v,
            self.same_owner,
            self.slen,
            self.dlen,
            self.wit,
            if self.internal { " [call program]" } else { "" }
        )
    }
}

fn slot_tag(slot: usize) -> u8 {
    0x40 + 8 * slot as u8
}

fn contract_id_of_slot(slot: usize) -> ContractId {
    ContractId::new(pat32(slot_tag(slot) + 5))
}

/// Vector lengths of input slot `slot` in length class `v`: (predicate, predicate data, message data).
fn lens_of(v: usize, slot: usize) -> (usize, usize, usize) {
    let (a, bb) = (v % 10, v / 10);
    (
        1 + (a + 3 * slot) % 9,
        (3 * a + 5 * slot) % 10,
        1 + (bb + 2 * a + 7 * slot + 4) % 9,
    )
}

fn common_predicate(v: usize) -> Vec<u8> {
    bytes_of(1 + (v % 10) % 9, 0x33)
}

/// Input of `kind` for list position `slot`.
fn mk_input(kind: u8, slot: usize, v: usize, same_owner: bool, asset: AssetId, nwit: usize) -> Input {
    let t = slot_tag(slot);
    let id = |k: u8| pat32(t + k);
    let utxo = UtxoId::new(Bytes32::new(id(0)), 1 + slot as u16);
    let tp = TxPointer::new(BlockHeight::new(7 + slot as u32), (3 + slot as u16).into());
    let amount = word_pattern(slot as u8);
    let gas = 1000 + slot as u64;
    let (plen, pdlen, dlen) = lens_of(v, slot);
    let predicate = if same_owner { common_predicate(v) } else { bytes_of(plen, t) };
    let pred_owner = Input::predicate_owner(&predicate);
    let signed_owner = if same_owner {
        Input::predicate_owner(common_predicate(v))
    } else {
        Address::new(id(1))
    };
    let wi = (slot % nwit.max(1)) as u16;
    let pdata = bytes_of(pdlen, t + 1);
    let data = bytes_of(dlen, t + 2);
    match kind {
        0 => Input::coin_signed(utxo, signed_owner, amount, asset, tp, wi),
        1 => Input::coin_predicate(utxo, pred_owner, amount, asset, tp, gas, predicate, pdata),
        2 => Input::contract(utxo, Bytes32::new(id(3)), Bytes32::new(id(4)), tp, contract_id_of_slot(slot)),
        3 => Input::message_coin_signed(Address::new(id(6)), signed_owner, amount, Nonce::new(id(7)), wi),
        4 => Input::message_coin_predicate(Address::new(id(6)), pred_owner, amount, Nonce::new(id(7)), gas, predicate, pdata),
        5 => Input::message_data_signed(Address::new(id(6)), signed_owner, amount, Nonce::new(id(7)), wi, data),
        6 => Input::message_data_predicate(Address::new(id(6)), pred_owner, amount, Nonce::new(id(7)), gas, data, predicate, pdata),
        _ => panic!("input kind out of range"),
    }
}

fn call_program() -> (Vec<u8>, Vec<Instruction>, Vec<Instruction>) {
    // script data: call struct A (48) | call struct B (48) | asset id (32)
    let script: Vec<Instruction> = vec![
        op::gtf_args(0x10, RegId::ZERO, GTFArgs::ScriptData),
        op::addi(0x11, 0x10, 48),
        op::addi(0x12, 0x10, 96),
        op::call(0x10, RegId::ZERO, 0x12, RegId::CGAS),
        op::ret(RegId::ONE),
    ];
    let code_a = vec![op::call(0x11, RegId::ZERO, 0x12, RegId::CGAS), op::ret(RegId::ONE)];
    let code_b = vec![op::noop(), op::ret(RegId::ONE)];
    (script.into_iter().collect(), code_a, code_b)
}

struct BuiltScript {
    tx: Script,
    /// contract ids of the first two contract inputs
    contracts: Vec<ContractId>,
}

fn build_script_tx(s: &ScriptSpec) -> BuiltScript {
    let (base, x) = (base_asset(), asset_x());
    let v = s.v as usize;
    let odd = (v % 10) % 2 == 1;
    let asset_of = |slot: usize| if slot >= 1 && odd { x } else { base };
    let has_base = s.inputs.iter().enumerate().any(|(slot, k)| match k {
        0 | 1 => asset_of(slot) == base,
        3 | 4 => true,
        _ => false,
    });
    let fee = !has_base;
    let any_signed = fee || s.inputs.iter().any(|k| matches!(k, 0 | 3 | 5));
    let mut wit: Vec<Witness> = s
        .wit
        .iter()
        .enumerate()
        .map(|(i, l)| Witness::from(bytes_of(*l, 0xC0 + i as u8)))
        .collect();
    if any_signed && wit.is_empty() {
        wit.push(Witness::from(bytes_of(64, 0xCF)));
    }
    let nwit = wit.len();
    let mut inputs: Vec<Input> = s
        .inputs
        .iter()
        .enumerate()
        .map(|(slot, k)| mk_input(*k, slot, v, s.same_owner, asset_of(slot), nwit))
        .collect();
    if fee {
        let slot = inputs.len();
        let mut i = mk_input(0, slot, v, s.same_owner, base, nwit);
        if let Input::CoinSigned(c) = &mut i {
            c.amount = 5_000_000;
        }
        inputs.push(i);
    }
    let x_present = s.inputs.iter().enumerate().any(|(slot, k)| matches!(k, 0 | 1) && asset_of(slot) == x);
    let contract_slots: Vec<usize> = s.inputs.iter().enumerate().filter(|(_, k)| **k == 2).map(|(i, _)| i).collect();
    let mut outs: Vec<Output> = vec![];
    let mut changes = 0;
    for (j, k) in s.outputs.iter().enumerate() {
        let to = Address::new(pat32(0x90 + j as u8));
        let second_asset = if j >= 1 && x_present { x } else { base };
        let variable = Output::variable(Address::new(pat32(0x98 + j as u8)), word_pattern(0x99), AssetId::new(pat32(0x9A)));
        outs.push(match k {
            0 => Output::coin(to, 1000 + j as u64, second_asset),
            1 => {
                changes += 1;
                match changes {
                    1 => Output::change(to, word_pattern(0x91), base),
                    2 if x_present => Output::change(to, word_pattern(0x92), x),
                    _ => variable,
                }
            }
            _ => variable,
        });
    }
    let mut couts: Vec<Output> = contract_slots
        .iter()
        .map(|slot| Output::contract(*slot as u16, Bytes32::new(pat32(0xA1)), Bytes32::new(pat32(0xA2))))
        .collect();
    if odd {
        couts.reverse();
    }
    let outputs: Vec<Output> = if (s.inputs.len() + s.outputs.len()) % 2 == 0 {
        outs.into_iter().chain(couts).collect()
    } else {
        couts.into_iter().chain(outs).collect()
    };
    let mut p = Policies::new();
    p.set(PolicyType::MaxFee, Some(1000));
    if s.pol & 1 != 0 {
        p.set(PolicyType::Tip, Some(word_pattern(0xA0)));
    }
    if s.pol & 2 != 0 {
        p.set(PolicyType::WitnessLimit, Some((1 << 20) + 2));
    }
    if s.pol & 4 != 0 {
        p.set(PolicyType::Maturity, Some(3));
    }
    if s.pol & 8 != 0 {
        p.set(PolicyType::Expiration, Some(77));
    }
    if s.pol & 16 != 0 {
        let owned: Vec<usize> = inputs.iter().enumerate().filter(|(_, i)| i.input_owner().is_some()).map(|(i, _)| i).collect();
        let pick = if v % 2 == 0 { owned[0] } else { *owned.last().expect("owned input") };
        p.set(PolicyType::Owner, Some(pick as u64));
    }
    let contracts: Vec<ContractId> = contract_slots.iter().take(2).map(|s| contract_id_of_slot(*s)).collect();
    let (script, data) = if s.internal {
        assert!(contracts.len() >= 2, "call program needs two contract inputs");
        let (script, _, _) = call_program();
        let mut d = contracts[0].to_vec();
        d.extend_from_slice(&[0u8; 16]);
        d.extend_from_slice(contracts[1].as_ref());
        d.extend_from_slice(&[0u8; 16]);
        d.extend_from_slice(base.as_ref());
        (script, d)
    } else {
        (bytes_of(s.slen, 0xE1), bytes_of(s.dlen, 0xE2))
    };
    let tx = Transaction::script(GAS, script, data, p, inputs, outputs, wit);
    BuiltScript { tx, contracts }
}

/// Non-script kinds carrying predicate inputs: 0 Create, 1 Upgrade, 2 Upload, 3 Blob.
const OTHER_KINDS: [&str; 4] = ["Create", "Upgrade", "Upload", "Blob"];
const OTHER_VARIANTS: [usize; 4] = [3, 3, 5, 2];

fn other_parts(variant: usize, extra_out: Option<Output>) -> (Policies, Vec<Input>, Vec<Output>, Vec<Witness>) {
    let base = base_asset();
    let kinds: Vec<u8> = match variant % 3 {
        0 => vec![1],
        1 => vec![0, 4, 1, 6],
        _ => vec![6, 3, 1],
    };
    let v = 3 + 7 * variant;
    let wit: Vec<Witness> = match variant % 3 {
        0 => vec![Witness::from(bytes_of(4, 0xC0))],
        1 => vec![Witness::from(bytes_of(12, 0xC0)), Witness::from(bytes_of(5, 0xC1))],
        _ => vec![Witness::from(bytes_of(0, 0xC0)), Witness::from(bytes_of(9, 0xC1)), Witness::from(bytes_of(16, 0xC2))],
    };
    let inputs: Vec<Input> = kinds.iter().enumerate().map(|(slot, k)| mk_input(*k, slot, v, false, base, wit.len())).collect();
    let mut outputs = match variant % 3 {
        0 => vec![],
        1 => vec![Output::coin(Address::new(pat32(0x90)), 1000, base), Output::change(Address::new(pat32(0x91)), 5, base)],
        _ => vec![Output::change(Address::new(pat32(0x91)), 5, base)],
    };
    if let Some(o) = extra_out {
        let at = outputs.len().min(1);
        outputs.insert(at, o);
    }
    let mut p = Policies::new();
    p.set(PolicyType::MaxFee, Some(1000));
    match variant % 3 {
        0 => {}
        1 => {
            p.set(PolicyType::Tip, Some(word_pattern(0xA0)));
            p.set(PolicyType::WitnessLimit, Some((1 << 20) + 2));
            p.set(PolicyType::Maturity, Some(3));
            p.set(PolicyType::Expiration, Some(77));
            p.set(PolicyType::Owner, Some(1));
        }
        _ => {
            p.set(PolicyType::Expiration, Some(78));
        }
    }
    (p, inputs, outputs, wit)
}

fn build_other(kind: usize, variant: usize) -> Transaction {
    match kind {
        0 => {
            let created = Output::contract_created(ContractId::new(pat32(0xD0)), Bytes32::new(pat32(0xD1)));
            let (p, i, o, w) = other_parts(variant, Some(created));
            let slots: Vec<StorageSlot> = (0..variant)
                .map(|k| StorageSlot::new(Bytes32::new(pat32(0xE4 + 2 * k as u8)), Bytes32::new(pat32(0xE5 + 2 * k as u8))))
                .collect();
            Transaction::create(variant as u16, p, Salt::new(pat32(0xE7)), slots, i, o, w).into()
        }
        1 => {
            let (p, i, o, mut w) = other_parts(variant, None);
            let purpose = if variant % 2 == 0 {
                // metadata precomputation decodes the witness and compares the checksum
                let wi = variant / 2;
                let payload = postcard::to_allocvec(&params()).expect("serialize consensus parameters");
                let checksum = Bytes32::new(vcore::oracle::sha256(&[&payload[..]]));
                w[wi] = Witness::from(payload);
                UpgradePurpose::ConsensusParameters {
                    witness_index: wi as u16,
                    checksum,
                }
            } else {
                UpgradePurpose::StateTransition { root: Bytes32::new(pat32(0xEA)) }
            };
            Transaction::upgrade(purpose, p, i, o, w).into()
        }
        2 => {
            let (p, i, o, w) = other_parts(variant, None);
            // proof sets of 0, 1, 2, 3, 3 nodes
            let n = variant.min(3);
            let body = UploadBody {
                root: Bytes32::new(pat32(0xEB)),
                witness_index: variant as u16 % 2,
                subsection_index: 0x0100 + variant as u16,
                subsections_number: 0x0200 + variant as u16,
                proof_set: (0..n).map(|k| Bytes32::new(pat32(0xF0 + k as u8))).collect(),
            };
            Transaction::upload(body, p, i, o, w).into()
        }
        3 => {
            let (p, i, o, w) = other_parts(variant, None);
            let body = BlobBody {
                id: BlobId::new(pat32(0xF3)),
                witness_index: variant as u16,
            };
            Transaction::blob(body, p, i, o, w).into()
        }
        _ => panic!("other kind out of range"),
    }
}

// ------------------------------------------------------------------ units (prepared VMs)

#[derive(Clone, Debug, PartialEq, Eq, Hash)]
enum SCtx {
    Script,
    Pred(usize),
    InternalA,
    InternalB,
}

#[derive(Clone, Debug, PartialEq, Eq, Hash)]
enum UnitSpec {
    Script { spec: ScriptSpec, ctx: SCtx },
    Other { kind: usize, variant: usize, precompute: bool, pidx: usize },
}

impl UnitSpec {
    fn to_json(&self) -> Value {
        match self {
            UnitSpec::Script { spec, ctx } => {
                let (c, p) = match ctx {
                    SCtx::Script => ("script", 0),
                    SCtx::Pred(i) => ("predicate", *i),
                    SCtx::InternalA => ("internal_a", 0),
                    SCtx::InternalB => ("internal_b", 0),
                };
                json!({"fam": "script", "spec": spec.to_json(), "ctx": c, "pidx": p})
            }
            UnitSpec::Other { kind, variant, precompute, pidx } => {
                json!({"fam": "other", "kind": kind, "variant": variant, "precompute": precompute, "pidx": pidx})
            }
        }
    }

    fn from_json(v: &Value) -> UnitSpec {
        match v["fam"].as_str().expect("fam") {
            "script" => {
                let p = v["pidx"].as_u64().expect("pidx") as usize;
                let ctx = match v["ctx"].as_str().expect("ctx") {
                    "script" => SCtx::Script,
                    "predicate" => SCtx::Pred(p),
                    "internal_a" => SCtx::InternalA,
                    "internal_b" => SCtx::InternalB,
                    other => panic!("unknown ctx {other}"),
                };
                UnitSpec::Script { spec: ScriptSpec::from_json(&v["spec"]), ctx }
            }
            _ => UnitSpec::Other {
                kind: v["kind"].as_u64().expect("kind") as usize,
                variant: v["variant"].as_u64().expect("variant") as usize,
                precompute: v["precompute"].as_bool().expect("precompute"),
                pidx: v["pidx"].as_u64().expect("pidx") as usize,
            },
        }
    }

    fn describe(&self) -> String {
        match self {
            UnitSpec::Script { spec, ctx } => format!("{} / context {:?}", spec.describe(), ctx),
            UnitSpec::Other { kind, variant, precompute, pidx } => format!(
                "{} variant {} (metadata {}) / predicate context of input {}",
                OTHER_KINDS[*kind],
                variant,
                if *precompute { "precomputed" } else { "not precomputed" },
                pidx
            ),
        }
    }
}

/// Position of a unit on a long-lived (re-initialised) interpreter instance: the
/// deterministic chain `chain` of tier `thorough`, event number `pos` (see `ScriptChain`
/// and `other_chain`). Replay re-runs the whole chain prefix on one instance.
#[derive(Clone, Debug, PartialEq, Eq)]
struct Reuse {
    thorough: bool,
    chain: String,
    pos: usize,
    /// what was initialised on the same instance immediately before (for the report)
    after: String,
}

impl Reuse {
    fn to_json(&self) -> Value {
        json!({"thorough": self.thorough, "chain": self.chain, "pos": self.pos, "after": self.after})
    }
}

struct Unit {
    spec: UnitSpec,
    runner: Box<dyn Runner>,
    lay: Lay,
    ctx: CtxKind,
    /// None: prepared on a fresh interpreter
    reuse: Option<Reuse>,
}

impl Unit {
    fn describe(&self) -> String {
        match &self.reuse {
            None => self.spec.describe(),
            Some(r) => format!(
                "{} / REUSED interpreter instance (chain '{}' event {}, previously initialised with: {})",
                self.spec.describe(),
                r.chain,
                r.pos,
                r.after
            ),
        }
    }
}

fn interpreter_params() -> InterpreterParams {
    InterpreterParams::new(GAS_PRICE, &params())
}

/// (Re-)initialise `vm` for the predicate of input `idx` of `tx`.
fn prepare_pred_on<Tx>(vm: &mut VmT<Tx>, tx: Tx, idx: usize, estimation: bool) -> Result<(), String>
where
    Tx: ExecutableTransaction + field::Inputs,
{
    let tx_offset = params().tx_params().tx_offset();
    let program = RuntimePredicate::from_tx(&tx, tx_offset, idx)
        .ok_or_else(|| format!("input {idx} carries no predicate"))?;
    let context = if estimation {
        Context::PredicateEstimation { program }
    } else {
        Context::PredicateVerification { program }
    };
    vm.init_predicate(context, tx, GAS).map_err(|e| format!("init_predicate: {e:?}"))
}

fn new_vm<Tx>(storage: MemoryStorage) -> VmT<Tx>
where
    Tx: ExecutableTransaction,
{
    Interpreter::with_storage(MemoryInstance::new(), storage, interpreter_params())
}

fn predicate_holder<Tx>(tx: Tx, idx: usize, estimation: bool) -> Result<Holder<Tx>, String>
where
    Tx: ExecutableTransaction + field::Inputs,
{
    let mut vm: VmT<Tx> = new_vm(MemoryStorage::default());
    prepare_pred_on(&mut vm, tx, idx, estimation)?;
    Ok(Holder { vm, predicate: true })
}

/// Storage holding the call-program contracts: input slots 0 and 1 carry contract A's
/// code, slot 2 contract B's (matches every spec of `internal_specs`).
fn contract_storage() -> Result<MemoryStorage, String> {
    let mut storage = MemoryStorage::default();
    let (_, code_a, code_b) = call_program();
    for (slot, code) in [(0usize, &code_a), (1, &code_a), (2, &code_b)] {
        let bytes: Vec<u8> = code.iter().copied().collect();
        storage
            .deploy_contract_with_id(&[], &bytes, &contract_id_of_slot(slot))
            .map_err(|e| format!("deploy: {e:?}"))?;
    }
    storage.commit();
    storage.persist();
    Ok(storage)
}

/// (Re-)initialise `vm` with the script transaction `s` in context `ctx` (for the
/// internal contexts the call program is stepped into the contract). Returns the
/// context and whether instructions run in predicate mode.
fn prepare_script_on(vm: &mut VmT<Script>, s: &ScriptSpec, ctx: &SCtx) -> Result<(CtxKind, bool), String> {
    let built = build_script_tx(s);
    let checked = built
        .tx
        .clone()
        .into_checked_basic(BlockHeight::new(HEIGHT), &params())
        .map_err(|e| format!("script transaction fails basic checks: {e:?} ({})", s.describe()))?;
    if let SCtx::Pred(i) = ctx {
        prepare_pred_on(vm, checked.transaction().clone(), *i, false)?;
        return Ok((CtxKind::Predicate { idx: *i }, true))
    }
    vm.init_script(checked.test_into_ready()).map_err(|e| format!("init_script: {e:?}"))?;
    let steps = match ctx {
        SCtx::Script => 0,
        SCtx::InternalA => 4,
        _ => 5,
    };
    for k in 0..steps {
        let st = classify(guard::catch_any(|| vm.execute::<false>()));
        if st != Step::Proceed {
            return Err(format!("call program step {k}: {}", st.label()))
        }
    }
    let depth = vm.verif_call_stack().len();
    let kind = match ctx {
        SCtx::Script => CtxKind::Script,
        SCtx::InternalA => {
            if depth != 1 {
                return Err(format!("expected call depth 1, got {depth}"))
            }
            CtxKind::Internal { caller: None }
        }
        _ => {
            if depth != 2 {
                return Err(format!("expected call depth 2, got {depth}"))
            }
            CtxKind::Internal { caller: Some(*built.contracts[0]) }
        }
    };
    Ok((kind, false))
}

fn predicate_inputs(inputs: &[Input]) -> Vec<usize> {
    inputs
        .iter()
        .enumerate()
        .filter(|(_, i)| i.input_predicate().is_some())
        .map(|(i, _)| i)
        .collect()
}

/// All unit specs belonging to one script transaction.
fn units_of_script(spec: &ScriptSpec) -> Vec<UnitSpec> {
    let built = build_script_tx(spec);
    let mut v = vec![UnitSpec::Script { spec: spec.clone(), ctx: SCtx::Script }];
    for i in predicate_inputs(built.tx.inputs()) {
        v.push(UnitSpec::Script { spec: spec.clone(), ctx: SCtx::Pred(i) });
    }
    if spec.internal {
        v.push(UnitSpec::Script { spec: spec.clone(), ctx: SCtx::InternalA });
        v.push(UnitSpec::Script { spec: spec.clone(), ctx: SCtx::InternalB });
    }
    v
}

fn units_of_other(kind: usize, variant: usize) -> Vec<UnitSpec> {
    let tx = build_other(kind, variant);
    let inputs: Vec<Input> = match &tx {
        Transaction::Create(t) => t.inputs().clone(),
        Transaction::Upgrade(t) => t.inputs().clone(),
        Transaction::Upload(t) => t.inputs().clone(),
        Transaction::Blob(t) => t.inputs().clone(),
        _ => unreachable!(),
    };
    let mut v = vec![];
    for precompute in [true, false] {
        for pidx in predicate_inputs(&inputs) {
            v.push(UnitSpec::Other { kind, variant, precompute, pidx });
        }
    }
    v
}

fn build_unit(spec: &UnitSpec) -> Result<Unit, String> {
    let (runner, ctx): (Box<dyn Runner>, CtxKind) = match spec {
        UnitSpec::Script { spec: s, ctx } => {
            let storage = if s.internal { contract_storage()? } else { MemoryStorage::default() };
            let mut vm: VmT<Script> = new_vm(storage);
            let (kind, predicate) = prepare_script_on(&mut vm, s, ctx)?;
            (Box::new(Holder { vm, predicate }), kind)
        }
        UnitSpec::Other { kind, variant, precompute, pidx } => {
            let chain = ChainId::new(CHAIN_ID);
            let est = !*precompute;
            let holder: Box<dyn Runner> = match build_other(*kind, *variant) {
                Transaction::Create(mut t) => {
                    if *precompute {
                        t.precompute(&chain).map_err(|e| format!("precompute: {e:?}"))?;
                    }
                    Box::new(predicate_holder(t, *pidx, est)?)
                }
                Transaction::Upgrade(mut t) => {
                    if *precompute {
                        t.precompute(&chain).map_err(|e| format!("precompute: {e:?}"))?;
                    }
                    Box::new(predicate_holder(t, *pidx, est)?)
                }
                Transaction::Upload(mut t) => {
                    if *precompute {
                        t.precompute(&chain).map_err(|e| format!("precompute: {e:?}"))?;
                    }
                    Box::new(predicate_holder(t, *pidx, est)?)
                }
                Transaction::Blob(mut t) => {
                    if *precompute {
                        t.precompute(&chain).map_err(|e| format!("precompute: {e:?}"))?;
                    }
                    Box::new(predicate_holder(t, *pidx, est)?)
                }
                _ => unreachable!(),
            };
            (holder, CtxKind::Predicate { idx: *pidx })
        }
    };
    let lay = layout(&runner.tx());
    Ok(Unit { spec: spec.clone(), runner, lay, ctx, reuse: None })
}

// ------------------------------------------------------------------ reused instances

/// All script-typed unit specs of the tier, in corpus order.
fn script_units(thorough: bool) -> Vec<UnitSpec> {
    let (scripts, _) = script_corpus(thorough);
    scripts.iter().flat_map(units_of_script).collect()
}

fn other_units(kind: usize) -> Vec<UnitSpec> {
    (0..OTHER_VARIANTS[kind]).flat_map(|v| units_of_other(kind, v)).collect()
}

/// "Rich" initialisations used to dirty a long-lived instance: call programs left paused
/// two calls deep (contract inputs at indices 1,2 / 0,2, contract outputs, owner policy,
/// frames, receipts, internal context) and a predicate context of the rich base point
/// (contract input at index 3).
fn rich_polluters() -> Vec<(ScriptSpec, SCtx)> {
    let i = internal_specs();
    vec![
        (i[0].clone(), SCtx::InternalB),
        (i[1].clone(), SCtx::InternalB),
        (base_specs()[1].clone(), SCtx::Pred(1)),
    ]
}

/// "Poor" initialisations: no contracts, no outputs, no optional policies, unknown owner
/// (script context) / a lone message-coin predicate (predicate context).
fn poor_polluters() -> Vec<(ScriptSpec, SCtx)> {
    let b0 = base_specs()[0].clone();
    vec![
        (ScriptSpec { inputs: vec![0, 3], ..b0.clone() }, SCtx::Script),
        (ScriptSpec { inputs: vec![4], ..b0 }, SCtx::Pred(0)),
    ]
}

/// ONE interpreter instance that is re-initialised over and over. Event `pos` (k = pos/2):
/// initialise with a rich (pos even) or poor (pos odd) polluter, then with unit k, and
/// hand out a snapshot (clone) of the instance for the sweep. So every unit is observed
/// on the reused instance once right after a transaction WITH contracts / policies /
/// predicates / call frames and once right after one WITHOUT, and the polluters
/// themselves follow every corpus transaction.
struct ScriptChain {
    vm: VmT<Script>,
    units: Vec<UnitSpec>,
    rich: Vec<(ScriptSpec, SCtx)>,
    poor: Vec<(ScriptSpec, SCtx)>,
    thorough: bool,
    pos: usize,
}

impl ScriptChain {
    fn new(thorough: bool) -> Result<ScriptChain, String> {
        Ok(ScriptChain {
            vm: new_vm(contract_storage()?),
            units: script_units(thorough),
            rich: rich_polluters(),
            poor: poor_polluters(),
            thorough,
            pos: 0,
        })
    }

    fn len(&self) -> usize {
        2 * self.units.len()
    }

    fn next(&mut self) -> Option<Result<Unit, String>> {
        if self.pos >= self.len() {
            return None
        }
        let pos = self.pos;
        self.pos += 1;
        let k = pos / 2;
        let (pspec, pctx) = if pos % 2 == 0 {
            self.rich[k % self.rich.len()].clone()
        } else {
            self.poor[k % self.poor.len()].clone()
        };
        let UnitSpec::Script { spec, ctx } = self.units[k].clone() else {
            return Some(Err("script chain holds a non-script unit".into()))
        };
        let r = (|| -> Result<Unit, String> {
            prepare_script_on(&mut self.vm, &pspec, &pctx)?;
            let (kind, predicate) = prepare_script_on(&mut self.vm, &spec, &ctx)?;
            let mut snap = self.vm.clone();
            if !spec.internal {
                // the deployed contracts are irrelevant to GTF/GM; dropping them from the
                // snapshot keeps the per-case clone cheap
                *snap.as_mut() = MemoryStorage::default();
            }
            let runner: Box<dyn Runner> = Box::new(Holder { vm: snap, predicate });
            let lay = layout(&runner.tx());
            Ok(Unit {
                spec: self.units[k].clone(),
                runner,
                lay,
                ctx: kind,
                reuse: Some(Reuse {
                    thorough: self.thorough,
                    chain: "script".into(),
                    pos,
                    after: format!("{} / context {:?}", pspec.describe(), pctx),
                }),
            })
        })();
        Some(r)
    }
}

/// The reused-instance chain of a non-script kind: ONE interpreter of that transaction
/// type, `init_predicate` for every unit of the kind in corpus order and then in reverse
/// order (2n events); a snapshot after every initialisation.
fn other_chain(kind: usize) -> Result<Vec<Unit>, String> {
    fn run<Tx>(kind: usize, pick: fn(Transaction) -> Option<Tx>) -> Result<Vec<Unit>, String>
    where
        Tx: ExecutableTransaction + field::Inputs + Cacheable + Into<Transaction> + Send + Sync + 'static,
    {
        let list = other_units(kind);
        let n = list.len();
        let mut vm: VmT<Tx> = new_vm(MemoryStorage::default());
        let mut out = vec![];
        let mut previous = "nothing (first use)".to_string();
        for pos in 0..2 * n {
            let us = &list[if pos < n { pos } else { 2 * n - 1 - pos }];
            let UnitSpec::Other { kind: k, variant, precompute, pidx } = us else {
                return Err("other chain holds a script unit".into())
            };
            let mut tx = pick(build_other(*k, *variant)).ok_or("transaction kind mismatch")?;
            if *precompute {
                tx.precompute(&ChainId::new(CHAIN_ID)).map_err(|e| format!("precompute: {e:?}"))?;
            }
            prepare_pred_on(&mut vm, tx, *pidx, !*precompute)?;
            let runner: Box<dyn Runner> = Box::new(Holder { vm: vm.clone(), predicate: true });
            let lay = layout(&runner.tx());
            out.push(Unit {
                spec: us.clone(),
                runner,
                lay,
                ctx: CtxKind::Predicate { idx: *pidx },
                reuse: Some(Reuse {
                    thorough: false,
                    chain: OTHER_KINDS[kind].to_string(),
                    pos,
                    after: previous.clone(),
                }),
            });
            previous = us.describe();
        }
        Ok(out)
    }
    match kind {
        0 => run(kind, |t| match t { Transaction::Create(x) => Some(x), _ => None }),
        1 => run(kind, |t| match t { Transaction::Upgrade(x) => Some(x), _ => None }),
        2 => run(kind, |t| match t { Transaction::Upload(x) => Some(x), _ => None }),
        3 => run(kind, |t| match t { Transaction::Blob(x) => Some(x), _ => None }),
        _ => Err("other kind out of range".into()),
    }
}

/// Rebuild the unit a recorded case ran on.
fn unit_for_case(us: &UnitSpec, reuse: &Option<Reuse>) -> Result<Unit, String> {
    let Some(r) = reuse else { return build_unit(us) };
    let u = if r.chain == "script" {
        let mut c = ScriptChain::new(r.thorough)?;
        let mut last = None;
        while c.pos <= r.pos {
            match c.next() {
                Some(x) => last = Some(x?),
                None => break,
            }
        }
        last.ok_or("chain position out of range")?
    } else {
        let kind = OTHER_KINDS.iter().position(|k| *k == r.chain).ok_or("unknown chain")?;
        let mut v = other_chain(kind)?;
        if r.pos >= v.len() {
            return Err("chain position out of range".into())
        }
        v.swap_remove(r.pos)
    };
    if &u.spec != us {
        return Err(format!("chain position {} now holds another unit ({}); the corpus changed", r.pos, u.spec.describe()))
    }
    Ok(u)
}

// ------------------------------------------------------------------ cases

#[derive(Clone, Debug, PartialEq, Eq)]
enum Op {
    Image,
    Gtf { imm: u16, b: u64 },
    Gm { imm: u32 },
}

fn case_json(u: &UnitSpec, reuse: &Option<Reuse>, op: &Op) -> Value {
    let mut v = match op {
        Op::Image => json!({"unit": u.to_json(), "op": "IMAGE"}),
        Op::Gtf { imm, b } => json!({"unit": u.to_json(), "op": "GTF", "imm": imm, "b": b.to_string(),
                                      "selector": gtf_name(*imm).unwrap_or("undefined")}),
        Op::Gm { imm } => json!({"unit": u.to_json(), "op": "GM", "imm": imm,
                                  "selector": gm_name(*imm).unwrap_or("undefined")}),
    };
    if let Some(r) = reuse {
        v["reuse"] = r.to_json();
    }
    v
}

fn case_from_json(v: &Value) -> (UnitSpec, Option<Reuse>, Op) {
    let u = UnitSpec::from_json(&v["unit"]);
    let op = match v["op"].as_str().expect("op") {
        "IMAGE" => Op::Image,
        "GTF" => Op::Gtf {
            imm: v["imm"].as_u64().expect("imm") as u16,
            b: v["b"].as_str().expect("b").parse().expect("b u64"),
        },
        _ => Op::Gm { imm: v["imm"].as_u64().expect("imm") as u32 },
    };
    let reuse = v.get("reuse").filter(|r| !r.is_null()).map(|r| Reuse {
        thorough: r["thorough"].as_bool().expect("thorough"),
        chain: r["chain"].as_str().expect("chain").to_string(),
        pos: r["pos"].as_u64().expect("pos") as usize,
        after: r["after"].as_str().unwrap_or("").to_string(),
    });
    (u, reuse, op)
}

struct Verdict {
    step: Step,
    dest: u64,
    exp: Option<Exp>,
    /// (key, description)
    bad: Option<(String, String)>,
}

/// The image check: hand encoding of `vm.transaction()` == memory at tx_offset, size word below.
fn check_image(u: &Unit) -> Option<(String, String)> {
    let key = format!("C05:image:{}", u.lay.kind);
    let want_off = expected_tx_offset();
    if u.runner.tx_offset() != want_off {
        return Some((key, format!("tx_offset is {} but the initialisation layout gives {want_off}", u.runner.tx_offset())))
    }
    let n = u.lay.bytes.len();
    match u.runner.read(want_off as u64, n) {
        Some(m) if m == u.lay.bytes => {}
        Some(m) => {
            let at = m.iter().zip(u.lay.bytes.iter()).position(|(a, b)| a != b).unwrap_or(0);
            return Some((
                key,
                format!(
                    "VM memory at tx_offset differs from the tx-format encoding of vm.transaction() at byte {at}: memory {} vs expected {}",
                    hex(&m[at..]),
                    hex(&u.lay.bytes[at..])
                ),
            ))
        }
        None => return Some((key, format!("transaction image of {n} bytes at {want_off:#x} is not readable"))),
    }
    match u.runner.read(want_off as u64 - 8, 8) {
        Some(w) if w == (n as u64).to_be_bytes() => None,
        other => Some((key, format!("size word below the image is {other:?}, expected {n}"))),
    }
}

fn run_op(u: &Unit, op: &Op) -> Verdict {
    match op {
        Op::Image => Verdict {
            step: Step::Proceed,
            dest: 0,
            exp: None,
            bad: check_image(u),
        },
        Op::Gtf { imm, b } => {
            let exp = gtf_expect(&u.lay, *imm, *b);
            let (step, dest) = u.runner.run(gtf_raw(*imm), *b);
            let bad = judge(&exp, &step, dest, *b, &u.lay, u.runner.as_ref()).map(|(aspect, what)| {
                let name = gtf_name(*imm).unwrap_or("undefined_imm");
                (
                    format!("C05:GTF:{name}:{aspect}"),
                    format!("GTF imm={imm:#05x} ({name}) index={b}: {what} [{}]", u.describe()),
                )
            });
            Verdict { step, dest, exp: Some(exp), bad }
        }
        Op::Gm { imm } => {
            let exp = gm_expect(&u.lay, &u.ctx, *imm);
            let (step, dest) = u.runner.run(gm_raw(*imm), 0);
            let bad = judge(&exp, &step, dest, 0, &u.lay, u.runner.as_ref()).map(|(aspect, what)| {
                let name = gm_name(*imm).unwrap_or("undefined_imm");
                (
                    format!("C05:GM:{name}:{aspect}"),
                    format!("GM imm={imm:#07x} ({name}): {what} [{}]", u.describe()),
                )
            });
            Verdict { step, dest, exp: Some(exp), bad }
        }
    }
}

fn index_set(l: &Lay) -> Vec<u64> {
    let maxlen = [
        l.inputs.len(),
        l.outputs.len(),
        l.wits.len(),
        l.create.as_ref().map(|c| c.slots.len()).unwrap_or(0),
        l.upload.as_ref().map(|u| u.proofs.len()).unwrap_or(0),
    ]
    .into_iter()
    .max()
    .unwrap_or(0) as u64;
    let mut v: Vec<u64> = (0..=maxlen + 1).collect();
    v.extend([65535, 65536, 1 << 32, u64::MAX]);
    v
}

fn gm_boundary() -> Vec<u32> {
    let mut v: Vec<u32> = (0..=64).collect();
    for k in [0x100u32, 0x200, 0x1000, 0x10000, 0x20000, 0x3ff00] {
        v.extend((0..=9).map(|i| k + i));
    }
    v.extend([0xff, 0xffff, 0x15555, 0x2aaaa, 0x3fffe, 0x3ffff]);
    v
}

// outcome classes: class * OUT_W + code
const OUT_W: usize = 260;
const CLASS_NAMES: [&str; 4] = ["gtf", "gtf(undefined imm)", "gm", "gm(undefined imm)"];

struct Acc {
    n: u64,
    outcomes: Vec<u64>,
    /// per GTF immediate / GM selector: [succeeded, panicked]
    gtf_sel: BTreeMap<u16, [u64; 2]>,
    gm_sel: BTreeMap<(u32, &'static str), [u64; 2]>,
    fps: HashSet<u64>,
    viols: BTreeMap<String, (Value, String, u64)>,
    units: BTreeMap<String, u64>,
    gm_full_units: u64,
    build_errors: Vec<String>,
    dontcare_taken: BTreeMap<String, u64>,
}

impl Acc {
    fn new() -> Self {
        Acc {
            n: 0,
            outcomes: vec![0; 4 * OUT_W],
            gtf_sel: BTreeMap::new(),
            gm_sel: BTreeMap::new(),
            fps: HashSet::new(),
            viols: BTreeMap::new(),
            units: BTreeMap::new(),
            gm_full_units: 0,
            build_errors: vec![],
            dontcare_taken: BTreeMap::new(),
        }
    }

    fn note(&mut self, class: usize, v: &Verdict) {
        self.n += 1;
        let code = match (&v.step, v.exp.as_ref().and_then(|e| e.ok.as_ref())) {
            (Step::Proceed, Some(OkExp::Val(_))) => 0,
            (Step::Proceed, _) => 1,
            (Step::Panic(r), _) => 3 + *r as u8 as usize,
            _ => 2,
        };
        self.outcomes[class * OUT_W + code] += 1;
    }

    fn viol(&mut self, u: &Unit, op: &Op, bad: (String, String)) {
        let e = self.viols.entry(bad.0).or_insert_with(|| (case_json(&u.spec, &u.reuse, op), bad.1, 0));
        e.2 += 1;
    }
}

fn outcome_label(idx: usize) -> String {
    let (class, code) = (idx / OUT_W, idx % OUT_W);
    let what = match code {
        0 => "ok:value".to_string(),
        1 => "ok:pointer".to_string(),
        2 => "other".to_string(),
        c => format!("panic:{:?}", PanicReason::from((c - 3) as u8)),
    };
    format!("{}:{}", CLASS_NAMES[class], what)
}

fn eval_unit(spec: &UnitSpec, gm_full: bool, acc: &mut Acc) {
    let u = match build_unit(spec) {
        Ok(u) => u,
        Err(e) => {
            acc.build_errors.push(format!("{}: {e}", spec.describe()));
            return
        }
    };
    sweep_unit(&u, gm_full, acc);
}

/// Image check + every GTF immediate x index set + the GM sweep on one prepared unit.
fn sweep_unit(u: &Unit, gm_full: bool, acc: &mut Acc) {
    let mode = if u.reuse.is_some() { "reused:" } else { "" };
    *acc.units.entry(format!("{mode}{}:{}", u.lay.kind, u.ctx.name())).or_insert(0) += 1;
    // image
    let v = run_op(u, &Op::Image);
    acc.n += 1;
    if let Some(bad) = v.bad {
        acc.viol(u, &Op::Image, bad);
    }
    // GTF: every immediate x index set
    let idxs = index_set(&u.lay);
    let elem_class = |l: &Lay, b: u64| -> (u8, u8, bool) {
        (
            l.inputs.get(b as usize).map(|i| i.variant + 1).unwrap_or(0),
            l.outputs.get(b as usize).map(|o| o.ty + 1).unwrap_or(0),
            (b as usize) < l.wits.len(),
        )
    };
    for imm in 0u16..4096 {
        let defined = gtf_name(imm).is_some();
        for &b in &idxs {
            let op = Op::Gtf { imm, b };
            let v = run_op(u, &op);
            acc.note(if defined { 0 } else { 1 }, &v);
            if defined {
                let e = acc.gtf_sel.entry(imm).or_insert([0, 0]);
                if v.step == Step::Proceed {
                    e[0] += 1;
                    acc.fps.insert(hash64(&(0u8, imm, u.lay.tx_type, u.ctx.name(), elem_class(&u.lay, b))));
                } else {
                    e[1] += 1;
                }
                if let Some(x) = &v.exp {
                    if x.ok.is_some() && x.panics != 0 {
                        let how = if v.step == Step::Proceed { "answered" } else { "panicked" };
                        *acc.dontcare_taken.entry(format!("{}:{how}", gtf_name(imm).unwrap_or("?"))).or_insert(0) += 1;
                    }
                }
            }
            if let Some(bad) = v.bad {
                acc.viol(u, &op, bad);
            }
        }
    }
    // GM
    let imms: Box<dyn Iterator<Item = u32>> = if gm_full {
        acc.gm_full_units += 1;
        Box::new(0u32..(1 << 18))
    } else {
        Box::new(gm_boundary().into_iter())
    };
    for imm in imms {
        let op = Op::Gm { imm };
        let v = run_op(u, &op);
        let name = gm_name(imm);
        acc.note(if name.is_some() { 2 } else { 3 }, &v);
        if let Some(name) = name {
            let e = acc.gm_sel.entry((imm, u.ctx.name())).or_insert([0, 0]);
            if v.step == Step::Proceed {
                e[0] += 1;
                acc.fps.insert(hash64(&(1u8, imm, u.lay.tx_type, u.ctx.name(), name)));
            } else {
                e[1] += 1;
            }
        }
        if let Some(bad) = v.bad {
            acc.viol(u, &op, bad);
        }
    }
}

// ------------------------------------------------------------------ corpus

const L: [usize; 10] = [0, 1, 2, 3, 4, 5, 6, 7, 8, 9];

fn seqs(alphabet: u64, k: u32) -> Vec<Vec<u8>> {
    (0..space::seq_count(alphabet, k))
        .map(|i| space::seq_at(alphabet, k, i).into_iter().map(|x| x as u8).collect())
        .collect()
}

fn input_lists(thorough: bool) -> Vec<Vec<u8>> {
    let mut v = seqs(7, 2);
    for r in 0..7u8 {
        v.push((0..7u8).map(|k| (k + r) % 7).collect());
    }
    if thorough {
        v.extend(seqs(7, 3).into_iter().filter(|s| s.len() == 3));
    }
    v
}

fn output_lists(thorough: bool) -> Vec<Vec<u8>> {
    seqs(3, if thorough { 3 } else { 2 })
}

fn witness_lists() -> Vec<Vec<usize>> {
    seqs(10, 2).into_iter().map(|s| s.into_iter().map(|i| L[i as usize]).collect()).collect()
}

fn base_specs() -> [ScriptSpec; 2] {
    [
        ScriptSpec {
            inputs: vec![],
            outputs: vec![],
            pol: 0,
            v: 0,
            same_owner: false,
            slen: 0,
            dlen: 0,
            wit: vec![],
            internal: false,
        },
        ScriptSpec {
            inputs: vec![1, 6, 0, 2],
            outputs: vec![0, 1],
            pol: 31,
            v: 4,
            same_owner: false,
            slen: 5,
            dlen: 3,
            wit: vec![3, 8],
            internal: false,
        },
    ]
}

fn internal_specs() -> Vec<ScriptSpec> {
    [vec![0u8, 2, 2], vec![2, 1, 2, 5], vec![4, 2, 2]]
        .into_iter()
        .enumerate()
        .map(|(k, inputs)| ScriptSpec {
            inputs,
            outputs: if k == 1 { vec![1, 2] } else { vec![] },
            pol: [0u8, 31, 16][k],
            v: k as u8 * 3,
            same_owner: k == 2,
            slen: 20,
            dlen: 128,
            wit: if k == 1 { vec![7] } else { vec![] },
            internal: true,
        })
        .collect()
}

/// The script-transaction corpus (ordered simplest first) and its dimension sizes.
fn script_corpus(thorough: bool) -> (Vec<ScriptSpec>, Value) {
    let ils = input_lists(thorough);
    let ols = output_lists(thorough);
    let wls = witness_lists();
    let nv: u8 = if thorough { 90 } else { 10 };
    let mut seen: HashSet<ScriptSpec> = HashSet::new();
    let mut out: Vec<ScriptSpec> = vec![];
    let mut push = |s: ScriptSpec, out: &mut Vec<ScriptSpec>| {
        if seen.insert(s.clone()) {
            out.push(s);
        }
    };
    for base in base_specs() {
        push(base.clone(), &mut out);
        for i in &ils {
            push(ScriptSpec { inputs: i.clone(), ..base.clone() }, &mut out);
        }
        for o in &ols {
            push(ScriptSpec { outputs: o.clone(), ..base.clone() }, &mut out);
        }
        for pol in 0..32u8 {
            push(ScriptSpec { pol, ..base.clone() }, &mut out);
        }
        for v in 0..nv {
            push(ScriptSpec { v, ..base.clone() }, &mut out);
            push(ScriptSpec { v, same_owner: true, ..base.clone() }, &mut out);
        }
        for same_owner in [false, true] {
            for pol in [0u8, 16] {
                push(ScriptSpec { same_owner, pol, ..base.clone() }, &mut out);
            }
        }
        for &slen in &L {
            for &dlen in &L {
                if thorough || slen == base.slen || dlen == base.dlen {
                    push(ScriptSpec { slen, dlen, ..base.clone() }, &mut out);
                }
            }
        }
        for w in &wls {
            push(ScriptSpec { wit: w.clone(), ..base.clone() }, &mut out);
        }
    }
    // (input list x output list) pairs at the rich base point's other coordinates
    let rich = base_specs()[1].clone();
    for i in &ils {
        if (thorough && i.len() != 3) || i.len() == 1 {
            for o in &ols {
                push(ScriptSpec { inputs: i.clone(), outputs: o.clone(), ..rich.clone() }, &mut out);
                push(ScriptSpec { inputs: i.clone(), outputs: o.clone(), same_owner: true, pol: 0, ..rich.clone() }, &mut out);
            }
        }
    }
    for s in internal_specs() {
        push(s, &mut out);
    }
    let dims = json!({
        "input_lists": ils.len(), "output_lists": ols.len(), "optional_policy_subsets": 32,
        "length_classes": nv, "same_owner": 2,
        "script_x_data_lengths": if thorough { "L x L (100)" } else { "star of L x L (19 per base point)" },
        "witness_lists": wls.len(),
        "pairs": if thorough { "all input lists of length <= 2 and the 7 all-kinds rotations x output lists" } else { "single input kind x output lists" },
        "base_points": base_specs().iter().map(|b| b.describe()).collect::<Vec<_>>(),
        "call_programs": internal_specs().len(),
    });
    (out, dims)
}

// ------------------------------------------------------------------ explore

fn sanity() {
    // machinery self-checks: tables against the subject's enum names and encodings
    for imm in 0u16..4096 {
        let theirs = GTFArgs::try_from(imm).ok().map(|a| format!("{a:?}"));
        assert_eq!(theirs.as_deref(), gtf_name(imm), "GTF selector table differs from GTFArgs at {imm:#x}");
    }
    for imm in 0u32..1024 {
        let theirs = GMArgs::try_from(imm).ok().map(|a| format!("{a:?}"));
        assert_eq!(theirs.as_deref(), gm_name(imm), "GM selector table differs from GMArgs at {imm:#x}");
    }
    let a: u32 = op::gtf(REG_DST as u8, REG_IDX as u8, 0x123).into();
    assert_eq!(a, gtf_raw(0x123), "GTF encoding");
    let g: u32 = op::gm(REG_DST as u8, 0x2_1234).into();
    assert_eq!(g, gm_raw(0x2_1234), "GM encoding");
    assert_eq!(params().tx_params().tx_offset(), expected_tx_offset(), "tx offset formula");
    assert_ne!(ChainId::new(CHAIN_ID), ChainId::default());
    assert_ne!(base_asset(), AssetId::default());
    for (r, _, name) in REASON_BITS.iter() {
        assert_eq!(&format!("{r:?}"), name);
    }
}

fn merge_acc(ctx: &Ctx, total: &mut Acc, acc: Acc) {
    total.n += acc.n;
    for (k, v) in acc.outcomes.iter().enumerate() {
        total.outcomes[k] += v;
    }
    for (k, v) in acc.gtf_sel {
        let e = total.gtf_sel.entry(k).or_insert([0, 0]);
        e[0] += v[0];
        e[1] += v[1];
    }
    for (k, v) in acc.gm_sel {
        let e = total.gm_sel.entry(k).or_insert([0, 0]);
        e[0] += v[0];
        e[1] += v[1];
    }
    ctx.fps_merge(acc.fps);
    for (key, (case, what, cnt)) in acc.viols {
        ctx.violation(key.clone(), what.clone(), case.clone());
        total.viols.entry(key).or_insert((case, what, 0)).2 += cnt;
    }
    for (k, v) in acc.units {
        *total.units.entry(k).or_insert(0) += v;
    }
    for (k, v) in acc.dontcare_taken {
        *total.dontcare_taken.entry(k).or_insert(0) += v;
    }
    total.gm_full_units += acc.gm_full_units;
    total.build_errors.extend(acc.build_errors);
}

fn explore(ctx: &Ctx) {
    sanity();
    let thorough = ctx.thorough();
    ctx.rule(
        "units = prepared VMs (script / predicate / internal contexts of every corpus transaction); per unit EVERY GTF \
         immediate 0..4095 x index set and a full or boundary GM immediate sweep, one injected instruction on a clone; \
         non-trivial = the instruction succeeded; distinct = distinct (GTF/GM, selector, tx kind, context, \
         input variant / output type / witness presence at the index)",
    );
    ctx.assume("pointer selectors ('Memory address of <field>') must return tx_offset + the field's offset in the tx-format encoding; for zero-length fields any pointer inside the image is accepted");
    ctx.assume("the reference transaction is vm.transaction() (the prepared transaction); its hand encoding must equal VM memory at tx_offset (key C05:image)");
    ctx.assume("script transactions pass into_checked_basic at height 10 under the configured parameters; Create/Upgrade/Upload/Blob transactions are hand-built and only need to initialise a predicate VM (init_predicate does not validate)");
    ctx.assume("gas (cgas/ggas), $pc and all registers other than the destination are outside this property");
    ctx.set(
        "dont_care",
        json!([
            "ScriptGasLimit on a non-script transaction: 0 or InvalidMetadataIdentifier (Appendix B lists it as a general selector)",
            "deprecated Script*/Create* count and AtIndex aliases on a transaction of another kind: generic answer or InvalidMetadataIdentifier",
            "fields an input variant leaves empty (witness index of predicate inputs; predicate length/data length/pointer/gas used of signed inputs; data length/pointer of message-coin inputs): the empty value or InputNotFound",
            "InputCoin/MessagePredicateGasUsed: the value (Appendix B) or the address of the field (GTFArgs doc)",
            "OutputCoinTo/Amount/AssetId on Change and Variable outputs: correct answer or OutputNotFound",
            "OutputContractInputIndex on a non-contract / absent output: OutputNotFound or InputNotFound",
            "InputContractOutputIndex with index >= 2^16: InvalidMetadataIdentifier or InputNotFound",
            "index register > u32::MAX: InvalidMetadataIdentifier is accepted for every selector (the VM converts indices the way a 32-bit host would), as is the ordinary answer",
            "pointer value for zero-length vectors (only required to lie inside the transaction image)",
            "GM with an undefined immediate: any VM panic",
            "which pointer GM BaseAssetId / GetOwner / GetCaller return, as long as the 32 bytes there are the expected id",
        ]),
    );
    ctx.set(
        "config",
        json!({"chain_id": format!("{CHAIN_ID:#x}"), "gas_price": format!("{GAS_PRICE:#x}"), "base_asset_id": hex(base_asset().as_ref()),
               "max_inputs": MAX_INPUTS, "tx_offset": expected_tx_offset(), "check_height": HEIGHT}),
    );
    ctx.set("gtf_selectors_defined", json!(GTF_TABLE.len()));
    ctx.set("gm_boundary_immediates", json!(gm_boundary().len()));

    // unit list, simplest first
    let (scripts, dims) = script_corpus(thorough);
    ctx.set("script_corpus_dimensions", dims);
    ctx.set("script_transactions", json!(scripts.len()));
    let mut units: Vec<UnitSpec> = vec![];
    for s in &scripts {
        units.extend(units_of_script(s));
    }
    let mut other_txs = 0;
    let mut other_info = vec![];
    for kind in 0..4 {
        for variant in 0..OTHER_VARIANTS[kind] {
            units.extend(units_of_other(kind, variant));
            other_txs += 1;
            let tx = build_other(kind, variant);
            let basic = guard::catch_any(|| match tx.clone() {
                Transaction::Create(t) => t.into_checked_basic(BlockHeight::new(HEIGHT), &params()).map(|_| ()).map_err(|e| format!("{e:?}")),
                Transaction::Upgrade(t) => t.into_checked_basic(BlockHeight::new(HEIGHT), &params()).map(|_| ()).map_err(|e| format!("{e:?}")),
                Transaction::Upload(t) => t.into_checked_basic(BlockHeight::new(HEIGHT), &params()).map(|_| ()).map_err(|e| format!("{e:?}")),
                Transaction::Blob(t) => t.into_checked_basic(BlockHeight::new(HEIGHT), &params()).map(|_| ()).map_err(|e| format!("{e:?}")),
                _ => Ok(()),
            });
            let l = layout(&tx);
            other_info.push(json!({"kind": OTHER_KINDS[kind], "variant": variant, "inputs": l.inputs.iter().map(|i| INPUT_KINDS[i.variant as usize]).collect::<Vec<_>>(),
                "outputs": l.outputs.iter().map(|o| OUTPUT_KINDS[o.ty as usize]).collect::<Vec<_>>(), "witnesses": l.wits.len(),
                "storage_slots": l.create.as_ref().map(|c| c.slots.len()), "proof_set": l.upload.as_ref().map(|u| u.proofs.len()),
                "basic_check(informational)": format!("{basic:?}")}));
        }
    }
    ctx.set("non_script_transactions", json!(other_info));
    ctx.set("non_script_transaction_count", json!(other_txs));

    // GM full sweeps: first unit of every (kind, context class); thorough: also every 16th unit
    let class_of = |u: &UnitSpec| -> String {
        match u {
            UnitSpec::Script { ctx, .. } => format!("Script:{}", match ctx { SCtx::Script => "s", SCtx::Pred(_) => "p", SCtx::InternalA => "a", SCtx::InternalB => "b" }),
            UnitSpec::Other { kind, precompute, .. } => format!("{}:{}", OTHER_KINDS[*kind], precompute),
        }
    };
    let mut seen_class: HashSet<String> = HashSet::new();
    let gm_full: Vec<bool> = units
        .iter()
        .enumerate()
        .map(|(i, u)| seen_class.insert(class_of(u)) || (thorough && i % 16 == 0))
        .collect();
    ctx.set("units_total", json!(units.len()));

    let mut total = Acc::new();
    let mut done_units = 0usize;
    const SLICE: usize = 256;
    // REUSED INSTANCES: the same sweep (all 4096 GTF immediates x index set, image check,
    // boundary GM set) on snapshots of long-lived, repeatedly re-initialised interpreters;
    // interleaved with the fresh-instance slices so that a time cap cuts both alike
    let n_script_units = script_units(thorough).len();
    assert!(units[..n_script_units].iter().all(|u| matches!(u, UnitSpec::Script { .. })), "unit order");
    let mut chain = match ScriptChain::new(thorough) {
        Ok(c) => Some(c),
        Err(e) => {
            total.build_errors.push(format!("reused script chain: {e}"));
            None
        }
    };
    let mut reused_done = 0usize;
    let reused_total = 2 * n_script_units + 2 * (units.len() - n_script_units);
    let sweep_batch = |batch: Vec<Unit>, total: &mut Acc| {
        space::par_chunks(
            batch.len() as u64,
            1,
            Acc::new,
            |i, acc: &mut Acc| sweep_unit(&batch[i as usize], false, acc),
            |acc| merge_acc(ctx, total, acc),
        );
    };
    let mut lo = 0usize;
    while lo < units.len() {
        if lo > 0 && ctx.out_of_time() {
            ctx.cap(format!(
                "time budget used up after {lo} of {} fresh-instance units and {reused_done} of {reused_total} reused-instance units",
                units.len()
            ));
            break
        }
        let hi = (lo + SLICE).min(units.len());
        space::par_chunks(
            (hi - lo) as u64,
            1,
            Acc::new,
            |i, acc: &mut Acc| eval_unit(&units[lo + i as usize], gm_full[lo + i as usize], acc),
            |acc| merge_acc(ctx, &mut total, acc),
        );
        // the reused-instance events of the same script units (two per unit)
        if let Some(c) = chain.as_mut() {
            let upto = 2 * hi.min(n_script_units);
            while c.pos < upto {
                let mut batch = vec![];
                while c.pos < upto && batch.len() < SLICE {
                    match c.next() {
                        Some(Ok(u)) => batch.push(u),
                        Some(Err(e)) => {
                            total.build_errors.push(format!("reused script chain event {}: {e}", c.pos - 1));
                            c.pos = usize::MAX / 2;
                        }
                        None => break,
                    }
                }
                if batch.is_empty() {
                    break
                }
                reused_done += batch.len();
                sweep_batch(batch, &mut total);
            }
        }
        done_units = hi;
        lo = hi;
    }
    if done_units == units.len() {
        for kind in 0..4 {
            match other_chain(kind) {
                Ok(batch) => {
                    reused_done += batch.len();
                    sweep_batch(batch, &mut total);
                }
                Err(e) => total.build_errors.push(format!("reused chain {}: {e}", OTHER_KINDS[kind])),
            }
        }
    }
    ctx.set("reused_instance_units_total", json!(reused_total));
    ctx.set("reused_instance_units_completed", json!(reused_done));
    ctx.set(
        "reused_instance_chains",
        json!({
            "script": "ONE Interpreter<_,_,Script>; event 2k: init rich polluter k%3 then unit k; event 2k+1: init poor polluter k%2 then unit k; snapshot swept after every unit initialisation",
            "rich_polluters": rich_polluters().iter().map(|(s, c)| format!("{} / context {:?}", s.describe(), c)).collect::<Vec<_>>(),
            "poor_polluters": poor_polluters().iter().map(|(s, c)| format!("{} / context {:?}", s.describe(), c)).collect::<Vec<_>>(),
            "Create/Upgrade/Upload/Blob": "ONE interpreter per kind; init_predicate for every unit of the kind in corpus order, then in reverse order; snapshot swept after every initialisation",
            "gm": "boundary immediate set only",
        }),
    );
    if !total.build_errors.is_empty() {
        // a corpus transaction that cannot be prepared is a harness defect, not a verdict
        panic!("{} corpus units could not be prepared, first: {}", total.build_errors.len(), total.build_errors[0]);
    }
    ctx.evals(total.n);
    ctx.set("units_completed", json!(done_units));
    ctx.set("units_by_kind_and_context", json!(total.units));
    ctx.set("gm_full_sweep_units", json!(total.gm_full_units));
    for (k, c) in total.outcomes.iter().enumerate() {
        if *c > 0 {
            ctx.outcome(&outcome_label(k), *c);
        }
    }
    let mut per_sel = serde_json::Map::new();
    let mut never_ok = vec![];
    let mut never_panicked = vec![];
    for (imm, name) in GTF_TABLE {
        let c = total.gtf_sel.get(imm).copied().unwrap_or([0, 0]);
        per_sel.insert(format!("{imm:#05x} {name}"), json!({"ok": c[0], "panic": c[1]}));
        if c[0] == 0 {
            never_ok.push(*name);
        }
        if c[1] == 0 {
            never_panicked.push(*name);
        }
    }
    ctx.set("gtf_per_selector", Value::Object(per_sel));
    ctx.set("gtf_selectors_never_succeeded", json!(never_ok));
    ctx.set("gtf_selectors_never_panicked(no absent case exists)", json!(never_panicked));
    let mut gm_sel = serde_json::Map::new();
    for ((imm, c), n) in &total.gm_sel {
        gm_sel.insert(format!("{} in {c}", gm_name(*imm).unwrap_or("?")), json!({"ok": n[0], "panic": n[1]}));
    }
    ctx.set("gm_per_selector_and_context", Value::Object(gm_sel));
    ctx.set("dont_care_branches_taken", json!(total.dontcare_taken));
    if !total.viols.is_empty() {
        let m: BTreeMap<&String, u64> = total.viols.iter().map(|(k, v)| (k, v.2)).collect();
        ctx.set("violation_case_counts", json!(m));
    }
    if done_units == units.len() && !never_ok.is_empty() {
        panic!("coverage hole: selectors that never succeeded on any unit: {never_ok:?}");
    }

    // written-out samples (members of the space above)
    let rich = base_specs()[1].clone();
    let samples: Vec<(UnitSpec, Op)> = vec![
        (UnitSpec::Script { spec: rich.clone(), ctx: SCtx::Script }, Op::Gtf { imm: 0x24A, b: 1 }),
        (UnitSpec::Script { spec: rich.clone(), ctx: SCtx::Pred(1) }, Op::Gtf { imm: 0x206, b: 2 }),
        (UnitSpec::Script { spec: rich.clone(), ctx: SCtx::Script }, Op::Gtf { imm: 0x221, b: 3 }),
        (UnitSpec::Other { kind: 2, variant: 2, precompute: true, pidx: 2 }, Op::Gtf { imm: 0x605, b: 2 }),
        (UnitSpec::Other { kind: 0, variant: 1, precompute: false, pidx: 1 }, Op::Gtf { imm: 0x003, b: 0 }),
        (UnitSpec::Script { spec: internal_specs()[0].clone(), ctx: SCtx::InternalB }, Op::Gm { imm: 2 }),
        (UnitSpec::Script { spec: rich.clone(), ctx: SCtx::Script }, Op::Gm { imm: 8 }),
        (UnitSpec::Script { spec: rich, ctx: SCtx::Pred(0) }, Op::Gm { imm: 7 }),
    ];
    reused_sample(ctx, thorough);
    for (us, op) in samples {
        let u = build_unit(&us).expect("sample unit");
        let v = run_op(&u, &op);
        ctx.sample(json!({
            "case": case_json(&us, &None, &op),
            "unit": us.describe(),
            "context": u.ctx.name(),
            "observed": {"step": v.step.label(), "dest": format!("{:#x}", v.dest),
                         "memory_at_dest(32)": u.runner.read(v.dest, 32).map(|m| hex(&m))},
            "expected": format!("{:?}", v.exp.as_ref().map(|e| (e.ok.clone(), reasons_text(e.panics)))),
            "tx_size": u.lay.bytes.len(),
            "agrees": v.bad.is_none(),
        }));
    }
}

/// One written-out reused-instance case: the simplest transaction (no contract input)
/// right after a call program with contract inputs at indices 1 and 2.
fn reused_sample(ctx: &Ctx, thorough: bool) {
    let Ok(mut chain) = ScriptChain::new(thorough) else { return };
    let Some(Ok(u)) = chain.next() else { return };
    let op = Op::Gtf { imm: 0x221, b: 1 };
    let v = run_op(&u, &op);
    ctx.sample(json!({
        "case": case_json(&u.spec, &u.reuse, &op),
        "unit": u.describe(),
        "context": u.ctx.name(),
        "observed": {"step": v.step.label(), "dest": format!("{:#x}", v.dest)},
        "expected": format!("{:?}", v.exp.as_ref().map(|e| (e.ok.clone(), reasons_text(e.panics)))),
        "agrees": v.bad.is_none(),
    }));
}

fn replay(case: &Value, ctx: &Ctx) {
    let (us, reuse, op) = case_from_json(case);
    let u = unit_for_case(&us, &reuse).expect("replay unit must build");
    let v = run_op(&u, &op);
    if let Some((key, what)) = v.bad {
        ctx.violation(key, what, case_json(&us, &u.reuse, &op));
    }
}

fn main() {
    run_check("C05", Level::Exploration, explore, replay)
}
