//! C02 — Decoding arbitrary bytes never panics and reaches a fixed point.
//!
//! Space (deviation-bounded exhaustive enumeration around valid encodings, no sampling):
//!  * seeds = canonical encodings, one per wire *shape* (`../txcorpus.rs`): every input
//!    kind × every combination of vector lengths in L (thorough: Lbig), every output and
//!    receipt kind (pattern scalars and all-zero scalars), the whole star transaction
//!    corpus TX(2) (every kind, all 128 policy sets, all input/output/witness lists of
//!    length <= 2, all body shapes) plus Mint;
//!  * deviations of a seed: none; every 8-byte word replaced by each of
//!    {0,1,2,3,7,8,9,2^16,old+1,old-1,2^32-1,2^32,VEC_DECODE_LIMIT,VEC_DECODE_LIMIT+1,
//!    2^63,u64::MAX}; every byte set to 0xFF; every truncation length; extension by 1..8
//!    zero bytes; pairs of word replacements. Per tier (`Plan::dev_plan`, also written to
//!    the evidence): quick — leaf seeds and the 12 base transactions get all single
//!    deviations plus pairs over {0,1,2,8,9,MAX} (leaf: word distance <= 2, base
//!    transactions: any distance); the other star transactions (one per wire shape) get
//!    every word × {0,1,2,8,9,old±1,2^32,LIMIT+1,2^63,MAX}, truncation at every word
//!    boundary and extension by 1 and 8. thorough — every seed (all star transactions,
//!    Lbig input shapes) gets all single deviations; leaf (L) seeds and base transactions
//!    all word pairs over the full alphabet minus {2^16, LIMIT}; star transactions pairs
//!    at distance <= 3 over {0,1,2,8,9,MAX};
//!  * all byte strings of length <= 6 over {00,01,02,7f,ff}, of length 7 and 8 over
//!    {00,01,ff}, and all two-word strings over a 22-value word alphabet, fed to every
//!    decoder.
//!  * length boundary: hand-built images of a Script with one witness (thorough: also a
//!    CoinPredicate predicate_data and a Script script_data) of exactly
//!    VEC_DECODE_LIMIT-1 and VEC_DECODE_LIMIT bytes (VEC_DECODE_LIMIT+1: recorded only),
//!    one at a time.
//!  Decoders: Transaction, Input, Output, Receipt (the four the statement names).
//!
//! Oracle (same function `judge` for exploration, child processes and replay):
//!  decode must not unwind and the process must not die; on Ok(v): `v.to_bytes()` does
//!  not panic, its length equals the number of bytes the decoder consumed, decoding it
//!  again returns Ok, consumes all of it and yields a value equal to v.
//!
//! Machinery: every decode runs in a child process of this same binary (one child per
//! core, each fed whole batches of deviations of one seed over a pipe), under
//! catch_unwind there. An allocation failure aborts a process instead of unwinding and
//! ANY deviation can make the decoder read arbitrary seed bytes as a length prefix, so
//! the parent only orchestrates: when a child dies it bisects the batch down to the single
//! input that kills a fresh child and reports `C02:<Decoder>:abort`. A counting global
//! allocator records the largest single allocation request per decode (information).
//!
//! Keys: `C02:<Decoder>:{panic, abort, re-encode-failed, encoded-length, fixed-point}`.

#[path = "../txcorpus.rs"]
mod txcorpus;

use fuel_tx::{
    Input,
    Output,
    Receipt,
    Transaction,
};
use fuel_types::canonical::{
    Deserialize,
    Serialize,
    VEC_DECODE_LIMIT,
};
use std::{
    alloc::{
        GlobalAlloc,
        Layout,
        System,
    },
    cell::Cell,
    collections::{
        BTreeMap,
        HashMap,
        HashSet,
    },
    io::{
        BufReader,
        Read,
        Write,
    },
    process::{
        Command,
        Stdio,
    },
    sync::{
        atomic::{
            AtomicBool,
            AtomicUsize,
            Ordering,
        },
        Mutex,
    },
};
use txcorpus::{
    CorpusLevel,
    Leaf,
    LeafValue,
    Lens,
    TxPoint,
};
use vcore::{
    guard,
    json,
    run::hash64,
    run_check,
    Ctx,
    Level,
    Value,
};

// ------------------------------------------------------------------ allocation meter

struct Meter;

thread_local! {
    static PEAK: Cell<usize> = const { Cell::new(0) };
}

const NOTE_MIN: usize = 1 << 20;

#[inline]
fn note(n: usize) {
    if n >= NOTE_MIN {
        let _ = PEAK.try_with(|p| {
            if n > p.get() {
                p.set(n)
            }
        });
    }
}

unsafe impl GlobalAlloc for Meter {
    unsafe fn alloc(&self, l: Layout) -> *mut u8 {
        note(l.size());
        System.alloc(l)
    }

    unsafe fn alloc_zeroed(&self, l: Layout) -> *mut u8 {
        note(l.size());
        System.alloc_zeroed(l)
    }

    unsafe fn realloc(&self, p: *mut u8, l: Layout, new: usize) -> *mut u8 {
        note(new);
        System.realloc(p, l, new)
    }

    unsafe fn dealloc(&self, p: *mut u8, l: Layout) {
        System.dealloc(p, l)
    }
}

#[global_allocator]
static GLOBAL: Meter = Meter;

/// Largest single allocation request (>= 1 MiB) on this thread since the last call.
fn take_peak() -> usize {
    PEAK.with(|p| p.replace(0))
}

// ------------------------------------------------------------------ decoders + oracle

#[derive(Clone, Copy, PartialEq, Eq, Debug, Hash)]
enum Dec {
    Transaction,
    Input,
    Output,
    Receipt,
}

impl Dec {
    const ALL: [Dec; 4] = [Dec::Transaction, Dec::Input, Dec::Output, Dec::Receipt];

    fn name(self) -> &'static str {
        match self {
            Dec::Transaction => "Transaction",
            Dec::Input => "Input",
            Dec::Output => "Output",
            Dec::Receipt => "Receipt",
        }
    }

    fn from_name(s: &str) -> Dec {
        *Dec::ALL.iter().find(|d| d.name() == s).expect("decoder name")
    }

    fn code(self) -> u8 {
        self as u8
    }

    fn from_code(c: u8) -> Dec {
        Dec::ALL[c as usize]
    }
}

struct Judged {
    label: String,
    viol: Option<(String, String)>,
    peak: usize,
    fp: Option<u64>,
}

fn short<T: std::fmt::Debug>(t: &T) -> String {
    let s = format!("{t:?}");
    if s.len() > 300 {
        let mut end = 300;
        while !s.is_char_boundary(end) {
            end -= 1;
        }
        format!("{}…", &s[..end])
    } else {
        s
    }
}

fn judge_t<T>(dec: Dec, bytes: &[u8]) -> Judged
where
    T: Serialize + Deserialize + PartialEq + std::fmt::Debug,
{
    let key = |class: &str| format!("C02:{}:{class}", dec.name());
    take_peak();
    let r = guard::catch_any(|| {
        let mut buf = bytes;
        let r = T::decode(&mut buf);
        (r, buf.len())
    });
    let peak = take_peak();
    let mut out = Judged {
        label: String::new(),
        viol: None,
        peak,
        fp: None,
    };
    match r {
        Err(m) => {
            out.label = "decoder_panicked".into();
            out.viol = Some((key("panic"), format!("decoder panicked: {m}")));
        }
        Ok((Err(e), _)) => {
            out.label = format!("err:{e:?}");
        }
        Ok((Ok(v), rest)) => {
            out.label = "ok".into();
            let consumed = bytes.len() - rest;
            match guard::catch_any(|| v.to_bytes()) {
                Err(m) => {
                    out.viol = Some((
                        key("re-encode-failed"),
                        format!("the decoder accepted {consumed} bytes but the value it returned cannot be encoded ({m}): {}", short(&v)),
                    ));
                }
                Ok(enc) => {
                    out.fp = Some(hash64(&(dec.code(), &enc)));
                    if enc.len() != consumed {
                        out.viol = Some((
                            key("encoded-length"),
                            format!(
                                "decoder consumed {consumed} bytes but the value it returned encodes to {} bytes: {}",
                                enc.len(),
                                short(&v)
                            ),
                        ));
                    } else {
                        let r2 = guard::catch_any(|| {
                            let mut b = &enc[..];
                            let r = T::decode(&mut b);
                            (r, b.len())
                        });
                        match r2 {
                            Err(m) => {
                                out.viol = Some((key("panic"), format!("decoding the re-encoded value panicked: {m}")));
                            }
                            Ok((Err(e), _)) => {
                                out.viol = Some((
                                    key("fixed-point"),
                                    format!("re-encoding of the decoded value {} does not decode: {e:?}", short(&v)),
                                ));
                            }
                            Ok((Ok(v2), rest2)) => {
                                if rest2 != 0 {
                                    out.viol = Some((
                                        key("fixed-point"),
                                        format!(
                                            "second decode consumed {} of {} bytes of the re-encoding of {}",
                                            enc.len() - rest2,
                                            enc.len(),
                                            short(&v)
                                        ),
                                    ));
                                } else if v2 != v {
                                    out.viol = Some((
                                        key("fixed-point"),
                                        format!("decode(encode(v)) = {} differs from v = {}", short(&v2), short(&v)),
                                    ));
                                }
                            }
                        }
                    }
                }
            }
            if out.viol.is_some() {
                out.label = "ok_but_violates".into();
            }
        }
    }
    out
}

fn judge(dec: Dec, bytes: &[u8]) -> Judged {
    match dec {
        Dec::Transaction => judge_t::<Transaction>(dec, bytes),
        Dec::Input => judge_t::<Input>(dec, bytes),
        Dec::Output => judge_t::<Output>(dec, bytes),
        Dec::Receipt => judge_t::<Receipt>(dec, bytes),
    }
}

// ------------------------------------------------------------------ deviations

const LIMIT: u64 = VEC_DECODE_LIMIT as u64;

fn word_alphabet(old: u64) -> [u64; 16] {
    [
        0,
        1,
        2,
        3,
        7,
        8,
        9,
        1 << 16,
        old.wrapping_add(1),
        old.wrapping_sub(1),
        (1 << 32) - 1,
        1 << 32,
        LIMIT,
        LIMIT + 1,
        1 << 63,
        u64::MAX,
    ]
}

const A2: [u64; 6] = [0, 1, 2, 8, 9, u64::MAX];

const SHORT_BYTES: [u8; 5] = [0x00, 0x01, 0x02, 0x7f, 0xff];
const SHORT_BYTES_LONG: [u8; 3] = [0x00, 0x01, 0xff];
const SHORT_WORDS: [u64; 22] = [
    0,
    1,
    2,
    3,
    4,
    5,
    6,
    7,
    8,
    9,
    10,
    11,
    12,
    13,
    0x7f,
    0xff,
    1 << 16,
    LIMIT,
    LIMIT + 1,
    1 << 32,
    1 << 63,
    u64::MAX,
];

#[derive(Clone, Copy, Debug, PartialEq)]
enum Dev {
    None,
    Word { pos: u32, val: u64 },
    Byte { pos: u32 },
    Trunc { len: u32 },
    Ext { n: u32 },
    Pair { p1: u32, v1: u64, p2: u32, v2: u64 },
    /// ignore the seed: the first `len` bytes of hi ++ lo (big endian)
    Raw { len: u32, hi: u64, lo: u64 },
}

fn word_at(b: &[u8], pos: u32) -> u64 {
    let o = pos as usize * 8;
    u64::from_be_bytes(b[o..o + 8].try_into().unwrap())
}

fn set_word(b: &mut [u8], pos: u32, v: u64) {
    let o = pos as usize * 8;
    b[o..o + 8].copy_from_slice(&v.to_be_bytes());
}

impl Dev {
    fn apply(&self, seed: &[u8]) -> Vec<u8> {
        let mut b = seed.to_vec();
        match *self {
            Dev::None => {}
            Dev::Word { pos, val } => set_word(&mut b, pos, val),
            Dev::Byte { pos } => b[pos as usize] = 0xff,
            Dev::Trunc { len } => b.truncate(len as usize),
            Dev::Ext { n } => b.extend(std::iter::repeat(0u8).take(n as usize)),
            Dev::Pair { p1, v1, p2, v2 } => {
                set_word(&mut b, p1, v1);
                set_word(&mut b, p2, v2);
            }
            Dev::Raw { len, hi, lo } => {
                b.clear();
                b.extend_from_slice(&hi.to_be_bytes());
                b.extend_from_slice(&lo.to_be_bytes());
                b.truncate(len as usize);
            }
        }
        b
    }

    fn describe(&self) -> String {
        match *self {
            Dev::None => "unchanged".into(),
            Dev::Word { pos, val } => format!("word {pos} := {val:#x}"),
            Dev::Byte { pos } => format!("byte {pos} := 0xff"),
            Dev::Trunc { len } => format!("truncated to {len} bytes"),
            Dev::Ext { n } => format!("extended by {n} zero bytes"),
            Dev::Pair { p1, v1, p2, v2 } => format!("word {p1} := {v1:#x}, word {p2} := {v2:#x}"),
            Dev::Raw { len, .. } => format!("raw string of {len} bytes"),
        }
    }

    fn to_wire(&self) -> [u8; 25] {
        let (t, a, b, c, d) = match *self {
            Dev::None => (0u8, 0u32, 0u64, 0u32, 0u64),
            Dev::Word { pos, val } => (1, pos, val, 0, 0),
            Dev::Byte { pos } => (2, pos, 0, 0, 0),
            Dev::Trunc { len } => (3, len, 0, 0, 0),
            Dev::Ext { n } => (4, n, 0, 0, 0),
            Dev::Pair { p1, v1, p2, v2 } => (5, p1, v1, p2, v2),
            Dev::Raw { len, hi, lo } => (6, len, hi, 0, lo),
        };
        let mut w = [0u8; 25];
        w[0] = t;
        w[1..5].copy_from_slice(&a.to_le_bytes());
        w[5..13].copy_from_slice(&b.to_le_bytes());
        w[13..17].copy_from_slice(&c.to_le_bytes());
        w[17..25].copy_from_slice(&d.to_le_bytes());
        w
    }

    fn from_wire(w: &[u8]) -> Dev {
        let a = u32::from_le_bytes(w[1..5].try_into().unwrap());
        let b = u64::from_le_bytes(w[5..13].try_into().unwrap());
        let c = u32::from_le_bytes(w[13..17].try_into().unwrap());
        let d = u64::from_le_bytes(w[17..25].try_into().unwrap());
        match w[0] {
            0 => Dev::None,
            1 => Dev::Word { pos: a, val: b },
            2 => Dev::Byte { pos: a },
            3 => Dev::Trunc { len: a },
            4 => Dev::Ext { n: a },
            5 => Dev::Pair {
                p1: a,
                v1: b,
                p2: c,
                v2: d,
            },
            6 => Dev::Raw { len: a, hi: b, lo: d },
            t => panic!("bad deviation tag {t}"),
        }
    }
}

#[derive(Clone, Copy, PartialEq, Eq, Debug)]
enum SeedClass {
    Leaf,
    /// leaf shape that exists only with the Lbig length classes (thorough)
    LeafBig,
    BaseTx,
    StarTx,
    /// pseudo seed: carries the short raw strings for one decoder
    Short,
}

struct Seed {
    dec: Dec,
    bytes: Vec<u8>,
    label: String,
    class: SeedClass,
}

#[derive(Clone, Copy)]
struct Plan {
    thorough: bool,
}

/// Index of 2^16 and VEC_DECODE_LIMIT in `word_alphabet`: the two values that make a
/// *successful* multi-megabyte reservation when they land on a count word (milliseconds
/// per case), so they are left out where the same word is already hit from a richer seed.
const IDX_2_16: usize = 7;
const IDX_LIMIT: usize = 12;
/// Indices dropped from the single-word alphabet for the (many) quick-tier star seeds:
/// 3, 7, 2^16, 2^32-1, VEC_DECODE_LIMIT. All of them are applied to every word of the leaf
/// seeds and of the 12 base transactions.
const LEAN_DROPS: [usize; 5] = [3, 4, IDX_2_16, 10, IDX_LIMIT];

/// Which deviations are enumerated for a seed of a given class.
struct DevPlan {
    /// drop the `LEAN_DROPS` values from the single-word alphabet
    lean_alphabet: bool,
    byte_flips: bool,
    /// every truncation length (else: word boundaries only)
    trunc_all: bool,
    /// extension by 1..=8 bytes (else: 1 and 8)
    ext_all: bool,
    /// (max word distance, full alphabet (minus 2^16 and LIMIT) instead of A2)
    pairs: Option<(u32, bool)>,
}

impl Plan {
    fn dev_plan(&self, class: SeedClass) -> DevPlan {
        let full = DevPlan {
            lean_alphabet: false,
            byte_flips: true,
            trunc_all: true,
            ext_all: true,
            pairs: None,
        };
        match (class, self.thorough) {
            (SeedClass::Leaf, false) => DevPlan {
                pairs: Some((2, false)),
                ..full
            },
            (SeedClass::Leaf, true) => DevPlan {
                pairs: Some((u32::MAX, true)),
                ..full
            },
            (SeedClass::LeafBig, _) => full,
            (SeedClass::BaseTx, false) => DevPlan {
                pairs: Some((u32::MAX, false)),
                ..full
            },
            (SeedClass::BaseTx, true) => DevPlan {
                pairs: Some((u32::MAX, true)),
                ..full
            },
            (SeedClass::StarTx, false) => DevPlan {
                lean_alphabet: true,
                byte_flips: false,
                trunc_all: false,
                ext_all: false,
                pairs: None,
            },
            (SeedClass::StarTx, true) => DevPlan {
                pairs: Some((3, false)),
                ..full
            },
            (SeedClass::Short, _) => full,
        }
    }

    fn describe(&self) -> Value {
        if self.thorough {
            json!({
                "Leaf (L shapes)": "all single deviations + all word pairs x full alphabet minus {2^16, LIMIT}",
                "LeafBig (Lbig-only shapes)": "all single deviations",
                "BaseTx (12 base transactions)": "all single deviations + all word pairs x full alphabet minus {2^16, LIMIT}",
                "StarTx (whole star corpus)": "all single deviations + word pairs at distance <= 3 x {0,1,2,8,9,MAX}",
                "Short": "all byte strings of length <= 6 over 5 bytes and of length 7, 8 over 3 bytes, all 2-word strings over 22 words, each decoder",
            })
        } else {
            json!({
                "Leaf (L shapes)": "all single deviations + word pairs at distance <= 2 x {0,1,2,8,9,MAX}",
                "BaseTx (12 base transactions)": "all single deviations + all word pairs x {0,1,2,8,9,MAX}",
                "StarTx (star corpus, one per shape)": "every word x {0,1,2,8,9,old+1,old-1,2^32,LIMIT+1,2^63,MAX}; truncation at every word boundary; extension by 1 and 8",
                "Short": "all byte strings of length <= 6 over 5 bytes and of length 7, 8 over 3 bytes, all 2-word strings over 22 words, each decoder",
            })
        }
    }
}

fn first_occurrence(vals: &[u64], k: usize, old: u64) -> bool {
    vals[k] != old && !vals[..k].contains(&vals[k])
}

/// Enumerate every deviation of `seed` under `plan`, simplest first.
fn for_each_dev(seed: &Seed, plan: Plan, f: &mut dyn FnMut(Dev, bool)) {
    // second argument: is this a pair deviation (coarser fingerprint)
    if seed.class == SeedClass::Short {
        f(Dev::Raw { len: 0, hi: 0, lo: 0 }, false);
        for len in 1..=8u32 {
            // lengths 1..=6 over the 5-byte alphabet, 7 and 8 over {00, 01, ff}
            let alpha: &[u8] = if len <= 6 { &SHORT_BYTES } else { &SHORT_BYTES_LONG };
            let a = alpha.len() as u64;
            for mut idx in 0..a.pow(len) {
                let mut b = [0u8; 8];
                for k in 0..len as usize {
                    b[k] = alpha[(idx % a) as usize];
                    idx /= a;
                }
                f(
                    Dev::Raw {
                        len,
                        hi: u64::from_be_bytes(b),
                        lo: 0,
                    },
                    false,
                );
            }
        }
        for hi in SHORT_WORDS {
            for lo in SHORT_WORDS {
                f(Dev::Raw { len: 16, hi, lo }, false);
            }
        }
        return
    }
    let dp = plan.dev_plan(seed.class);
    let b = &seed.bytes;
    let words = (b.len() / 8) as u32;
    f(Dev::None, false);
    for pos in 0..words {
        let old = word_at(b, pos);
        let alpha = word_alphabet(old);
        for k in 0..alpha.len() {
            if dp.lean_alphabet && LEAN_DROPS.contains(&k) {
                continue
            }
            if first_occurrence(&alpha, k, old) {
                f(Dev::Word { pos, val: alpha[k] }, false);
            }
        }
    }
    if dp.byte_flips {
        for pos in 0..b.len() as u32 {
            if b[pos as usize] != 0xff {
                f(Dev::Byte { pos }, false);
            }
        }
    }
    for len in 0..b.len() as u32 {
        if dp.trunc_all || len % 8 == 0 {
            f(Dev::Trunc { len }, false);
        }
    }
    for n in 1..=8u32 {
        if dp.ext_all || n == 1 || n == 8 {
            f(Dev::Ext { n }, false);
        }
    }
    if let Some((maxdist, full)) = dp.pairs {
        let vals_of = |old: u64| -> Vec<u64> {
            if full {
                let a = word_alphabet(old);
                (0..a.len())
                    .filter(|k| *k != IDX_2_16 && *k != IDX_LIMIT && first_occurrence(&a, *k, old))
                    .map(|k| a[k])
                    .collect()
            } else {
                A2.iter().copied().filter(|v| *v != old).collect()
            }
        };
        for p1 in 0..words {
            let vals1 = vals_of(word_at(b, p1));
            for p2 in p1 + 1..words.min(p1.saturating_add(maxdist).saturating_add(1)) {
                let vals2 = vals_of(word_at(b, p2));
                for v1 in &vals1 {
                    for v2 in &vals2 {
                        f(
                            Dev::Pair {
                                p1,
                                v1: *v1,
                                p2,
                                v2: *v2,
                            },
                            true,
                        );
                    }
                }
            }
        }
    }
}

// ------------------------------------------------------------------ accumulator

#[derive(Default)]
struct Acc {
    evals: u64,
    fps: HashSet<u64>,
    outcomes: HashMap<String, u64>,
    viols: BTreeMap<String, (String, Value, u64)>,
    peak: usize,
    peak_case: String,
    skipped_seeds: u64,
    lost_cases: u64,
    child_restarts: u64,
}

impl Acc {
    fn outcome(&mut self, label: &str, n: u64) {
        if let Some(c) = self.outcomes.get_mut(label) {
            *c += n;
        } else {
            self.outcomes.insert(label.to_string(), n);
        }
    }

    fn viol(&mut self, key: String, what: String, case: Value) {
        match self.viols.get_mut(&key) {
            Some(e) => e.2 += 1,
            None => {
                self.viols.insert(key, (what, case, 1));
            }
        }
    }

    fn flush(self, ctx: &Ctx, total: &mut Totals) {
        ctx.evals(self.evals);
        ctx.fps_merge(self.fps);
        let sorted: BTreeMap<String, u64> = self.outcomes.into_iter().collect();
        ctx.outcomes_merge(&sorted);
        for (key, (what, case, n)) in self.viols {
            ctx.violation(key.clone(), what, case);
            for _ in 1..n {
                ctx.violation(key.clone(), "", Value::Null);
            }
        }
        total.skipped_seeds += self.skipped_seeds;
        total.lost_cases += self.lost_cases;
        total.child_restarts += self.child_restarts;
        if self.peak > total.peak {
            total.peak = self.peak;
            total.peak_case = self.peak_case;
        }
    }
}

#[derive(Default)]
struct Totals {
    skipped_seeds: u64,
    lost_cases: u64,
    child_restarts: u64,
    peak: usize,
    peak_case: String,
}

fn case_json(seed: &Seed, dev: &Dev) -> Value {
    json!({
        "decoder": seed.dec.name(),
        "bytes": hex::encode(dev.apply(&seed.bytes)),
        "seed": seed.label,
        "deviation": dev.describe(),
    })
}

fn fp_coarse(dec: Dec, bytes_len: usize, first_word: u64) -> u64 {
    hash64(&("pair", dec.code(), bytes_len, first_word))
}

// ------------------------------------------------------------------ child processes

const CHILD_ENV: &str = "C02_CHILD";
const MAGIC: u8 = 0xC2;
const BATCH: usize = 4096;
/// after this many inputs have each killed a fresh child the exploration stops (capped)
const MAX_DEATHS: usize = 12;

fn read_exact_or_eof(r: &mut impl Read, buf: &mut [u8]) -> std::io::Result<bool> {
    let mut got = 0;
    while got < buf.len() {
        let n = r.read(&mut buf[got..])?;
        if n == 0 {
            if got == 0 {
                return Ok(false)
            }
            return Err(std::io::Error::new(std::io::ErrorKind::UnexpectedEof, "short read"))
        }
        got += n;
    }
    Ok(true)
}

/// Child side: read batches (decoder, seed, deviations), judge each case with the
/// oracle, answer with one JSON document per batch.
fn child_main() {
    guard::install_quiet_hook();
    let stdin = std::io::stdin();
    let mut r = BufReader::new(stdin.lock());
    let stdout = std::io::stdout();
    let mut w = stdout.lock();
    loop {
        let mut head = [0u8; 6];
        match read_exact_or_eof(&mut r, &mut head) {
            Ok(true) => {}
            _ => return,
        }
        assert_eq!(head[0], MAGIC, "bad batch header");
        let dec = Dec::from_code(head[1]);
        let seed_len = u32::from_le_bytes(head[2..6].try_into().unwrap()) as usize;
        let mut seed = vec![0u8; seed_len];
        r.read_exact(&mut seed).expect("seed");
        let mut nb = [0u8; 4];
        r.read_exact(&mut nb).expect("count");
        let n = u32::from_le_bytes(nb) as usize;
        let mut wire = vec![0u8; n * 25];
        r.read_exact(&mut wire).expect("deviations");
        let mut outcomes: BTreeMap<String, u64> = BTreeMap::new();
        let mut viols: Vec<Value> = Vec::new();
        let mut fps: Vec<u64> = Vec::new();
        let (mut peak, mut peak_i) = (0usize, 0usize);
        for i in 0..n {
            let dev = Dev::from_wire(&wire[i * 25..(i + 1) * 25]);
            let is_pair = matches!(dev, Dev::Pair { .. });
            let b: std::borrow::Cow<[u8]> = match dev {
                Dev::None => std::borrow::Cow::Borrowed(&seed[..]),
                _ => std::borrow::Cow::Owned(dev.apply(&seed)),
            };
            let j = judge(dec, &b);
            *outcomes.entry(j.label).or_insert(0) += 1;
            if let Some(fp) = j.fp {
                fps.push(if is_pair {
                    fp_coarse(dec, b.len(), if b.len() >= 8 { word_at(&b, 0) } else { 0 })
                } else {
                    fp
                });
            }
            if j.peak > peak {
                peak = j.peak;
                peak_i = i;
            }
            if let Some((key, what)) = j.viol {
                viols.push(json!([i, key, what]));
            }
        }
        fps.sort_unstable();
        fps.dedup();
        let reply = serde_json::to_vec(&json!({"outcomes": outcomes, "viols": viols, "fps": fps, "peak": peak, "peak_i": peak_i}))
            .expect("reply");
        w.write_all(&(reply.len() as u32).to_le_bytes()).expect("write");
        w.write_all(&reply).expect("write");
        w.flush().expect("flush");
    }
}

struct Child {
    proc: std::process::Child,
    stdin: std::process::ChildStdin,
    stdout: BufReader<std::process::ChildStdout>,
}

impl Child {
    fn spawn() -> Child {
        let exe = std::env::current_exe().expect("current_exe");
        let mut proc = Command::new(exe)
            .env(CHILD_ENV, "1")
            // an aborting child must die quickly: no backtrace symbolisation
            .env("RUST_BACKTRACE", "0")
            // every request >= 1 MiB goes straight to mmap (no heap growth / memset for large zeroed vectors)
            .env("MALLOC_MMAP_THRESHOLD_", "1048576")
            .stdin(Stdio::piped())
            .stdout(Stdio::piped())
            .stderr(Stdio::piped())
            .spawn()
            .expect("spawn decoder child");
        let stdin = proc.stdin.take().unwrap();
        let stdout = BufReader::new(proc.stdout.take().unwrap());
        Child { proc, stdin, stdout }
    }

    fn run_batch(&mut self, dec: Dec, seed: &[u8], devs: &[Dev]) -> std::io::Result<Value> {
        let mut head = Vec::with_capacity(6);
        head.push(MAGIC);
        head.push(dec.code());
        head.extend_from_slice(&(seed.len() as u32).to_le_bytes());
        let mut tail = Vec::with_capacity(4 + devs.len() * 25);
        tail.extend_from_slice(&(devs.len() as u32).to_le_bytes());
        for d in devs {
            tail.extend_from_slice(&d.to_wire());
        }
        self.stdin.write_all(&head)?;
        self.stdin.write_all(seed)?;
        self.stdin.write_all(&tail)?;
        self.stdin.flush()?;
        let mut lb = [0u8; 4];
        self.stdout.read_exact(&mut lb)?;
        let mut reply = vec![0u8; u32::from_le_bytes(lb) as usize];
        self.stdout.read_exact(&mut reply)?;
        serde_json::from_slice(&reply).map_err(|e| std::io::Error::new(std::io::ErrorKind::InvalidData, e))
    }

    /// The child is dead (or misbehaving): reap it and describe how it died.
    fn obituary(mut self) -> String {
        let _ = self.proc.kill();
        let status = self.proc.wait().map(|s| format!("{s}")).unwrap_or_else(|e| format!("wait failed: {e}"));
        let mut err = String::new();
        if let Some(mut e) = self.proc.stderr.take() {
            let _ = e.read_to_string(&mut err);
        }
        let err: String = err.lines().next().unwrap_or("").chars().take(160).collect();
        format!("{status}; stderr: {err:?}")
    }
}

struct Supervisor<'a> {
    deaths: &'a AtomicUsize,
    stop: &'a AtomicBool,
}

/// Run `devs` of `seed` in the child and merge the verdicts. If the child dies, bisect
/// down to the single case(s) that kill a fresh child.
fn run_batch_supervised(child: &mut Option<Child>, seed: &Seed, devs: &[Dev], acc: &mut Acc, sup: &Supervisor) {
    if devs.is_empty() {
        return
    }
    if sup.stop.load(Ordering::Relaxed) {
        acc.lost_cases += devs.len() as u64;
        return
    }
    let c = child.get_or_insert_with(Child::spawn);
    match c.run_batch(seed.dec, &seed.bytes, devs) {
        Ok(reply) => {
            acc.evals += devs.len() as u64;
            if let Some(o) = reply["outcomes"].as_object() {
                for (k, v) in o {
                    acc.outcome(k, v.as_u64().unwrap_or(0));
                }
            }
            for fp in reply["fps"].as_array().into_iter().flatten() {
                if let Some(h) = fp.as_u64() {
                    acc.fps.insert(h);
                }
            }
            let peak = reply["peak"].as_u64().unwrap_or(0) as usize;
            if peak > acc.peak {
                let d = &devs[reply["peak_i"].as_u64().unwrap_or(0) as usize];
                acc.peak = peak;
                acc.peak_case = format!("{} decoder, seed {}, {}", seed.dec.name(), seed.label, d.describe());
            }
            for v in reply["viols"].as_array().into_iter().flatten() {
                let d = &devs[v[0].as_u64().unwrap_or(0) as usize];
                acc.viol(
                    v[1].as_str().unwrap_or("").to_string(),
                    format!("{} [seed {}, {}]", v[2].as_str().unwrap_or(""), seed.label, d.describe()),
                    case_json(seed, d),
                );
            }
        }
        Err(_) => {
            let obit = child.take().map(|c| c.obituary()).unwrap_or_default();
            acc.child_restarts += 1;
            if devs.len() == 1 {
                let n = sup.deaths.fetch_add(1, Ordering::Relaxed) + 1;
                acc.evals += 1;
                acc.outcome("decoder_process_died", 1);
                acc.viol(
                    format!("C02:{}:abort", seed.dec.name()),
                    format!(
                        "the process died while decoding ({obit}) [seed {}, {}]",
                        seed.label,
                        devs[0].describe()
                    ),
                    case_json(seed, &devs[0]),
                );
                if n >= MAX_DEATHS {
                    sup.stop.store(true, Ordering::Relaxed);
                }
            } else {
                let (a, b) = devs.split_at(devs.len() / 2);
                run_batch_supervised(child, seed, a, acc, sup);
                run_batch_supervised(child, seed, b, acc, sup);
            }
        }
    }
}

// ------------------------------------------------------------------ length boundary
//
// Wire images whose last byte vector has exactly VEC_DECODE_LIMIT-1 / VEC_DECODE_LIMIT
// bytes (the longest the decoder accepts) and, for information only, VEC_DECODE_LIMIT+1.
// Built by hand from the encoding of the same value with that vector empty (the length
// word is patched, the payload appended), so that the harness never needs the subject's
// encoder to produce them. ~100 MiB each: one child, one case at a time.

const BOUNDARY_FAMILIES: [&str; 3] = ["tx-witness", "input-predicate-data", "script-data"];

fn boundary_len_name(n: usize) -> String {
    match n as i128 - VEC_DECODE_LIMIT as i128 {
        0 => "VEC_DECODE_LIMIT".to_string(),
        d if d < 0 => format!("VEC_DECODE_LIMIT{d}"),
        d => format!("VEC_DECODE_LIMIT+{d}"),
    }
}

fn boundary_bytes(family: &str, n: usize) -> (Dec, Vec<u8>) {
    use fuel_tx::{
        policies::Policies,
        Witness,
    };
    let (dec, mut b, len_word) = match family {
        "tx-witness" => {
            // Script with nothing but one empty witness: the witness length word is last
            let tx: Transaction =
                Transaction::script(0, vec![], vec![], Policies::new(), vec![], vec![], vec![Witness::default()]).into();
            let b = tx.to_bytes();
            let w = b.len() / 8 - 1;
            (Dec::Transaction, b, w)
        }
        "input-predicate-data" => {
            // one-byte predicate (one padded word), empty predicate data; words 19/20 of
            // the fixed part are predicateLength / predicateDataLength
            let i = Input::coin_predicate(
                Default::default(),
                Default::default(),
                1,
                Default::default(),
                Default::default(),
                2,
                vec![0x24],
                vec![],
            );
            let b = i.to_bytes();
            assert_eq!(b.len(), 176, "unexpected CoinPredicate layout");
            assert_eq!(word_at(&b, 19), 1, "unexpected CoinPredicate layout");
            (Dec::Input, b, 20)
        }
        "script-data" => {
            // empty script, policies, inputs, outputs, witnesses: script data is the only
            // dynamic part; word 7 is scriptDataLength
            let tx: Transaction = Transaction::script(3, vec![], vec![], Policies::new(), vec![], vec![], vec![]).into();
            let b = tx.to_bytes();
            assert_eq!(b.len(), 96, "unexpected Script layout");
            (Dec::Transaction, b, 7)
        }
        other => panic!("unknown boundary family {other}"),
    };
    assert_eq!(word_at(&b, len_word as u32), 0, "length word of the empty vector");
    set_word(&mut b, len_word as u32, n as u64);
    b.resize(b.len() + n, 0xAB);
    b.resize(b.len() + (8 - n % 8) % 8, 0);
    (dec, b)
}

/// Judge one boundary image in the child. `info_only`: record the outcome, demand nothing.
fn run_boundary(child: &mut Option<Child>, family: &str, n: usize, info_only: bool, acc: &mut Acc) {
    let (dec, bytes) = boundary_bytes(family, n);
    let label = format!("boundary {family} len={}", boundary_len_name(n));
    let case = json!({"decoder": dec.name(), "boundary": family, "len": n});
    acc.evals += 1;
    let c = child.get_or_insert_with(Child::spawn);
    match c.run_batch(dec, &bytes, &[Dev::None]) {
        Ok(reply) => {
            let outcome = reply["outcomes"].as_object().and_then(|o| o.keys().next().cloned()).unwrap_or_default();
            acc.outcome(&format!("{}{label}: {outcome}", if info_only { "info " } else { "" }), 1);
            if info_only {
                return
            }
            for fp in reply["fps"].as_array().into_iter().flatten() {
                if let Some(h) = fp.as_u64() {
                    acc.fps.insert(h);
                }
            }
            for v in reply["viols"].as_array().into_iter().flatten() {
                acc.viol(
                    v[1].as_str().unwrap_or("").to_string(),
                    format!("{} [{label}]", v[2].as_str().unwrap_or("")),
                    case.clone(),
                );
            }
        }
        Err(_) => {
            let obit = child.take().map(|c| c.obituary()).unwrap_or_default();
            acc.child_restarts += 1;
            acc.outcome(&format!("{}{label}: decoder_process_died", if info_only { "info " } else { "" }), 1);
            if !info_only {
                acc.viol(
                    format!("C02:{}:abort", dec.name()),
                    format!("the process died while decoding ({obit}) [{label}]"),
                    case,
                );
            }
        }
    }
}

// ------------------------------------------------------------------ seeds

fn leaf_bytes(v: &LeafValue) -> Option<(Dec, Vec<u8>)> {
    match v {
        LeafValue::Input(i) => Some((Dec::Input, i.to_bytes())),
        LeafValue::Output(o) => Some((Dec::Output, o.to_bytes())),
        LeafValue::Receipt(r) => Some((Dec::Receipt, r.to_bytes())),
        LeafValue::Mint(m) => Some((Dec::Transaction, Transaction::from(m.clone()).to_bytes())),
        _ => None,
    }
}

fn build_seeds(thorough: bool) -> Vec<Seed> {
    let mut seeds: Vec<Seed> = Vec::new();
    let mut seen: HashSet<(Dec, Vec<u8>)> = HashSet::new();
    let mut push = |dec: Dec, bytes: Vec<u8>, label: String, class: SeedClass, seeds: &mut Vec<Seed>| {
        if seen.insert((dec, bytes.clone())) {
            seeds.push(Seed { dec, bytes, label, class });
        }
    };
    // short raw strings, one pseudo seed per decoder
    for dec in Dec::ALL {
        seeds.push(Seed {
            dec,
            bytes: vec![],
            label: "short strings".into(),
            class: SeedClass::Short,
        });
    }
    // leaf shapes: outputs, receipts, inputs (+ Mint), pattern scalars and all-zero scalars
    let mut leaves: Vec<Leaf> = Vec::new();
    leaves.extend((0..txcorpus::OUTPUT_KINDS.len()).map(Leaf::Output));
    leaves.extend((0..txcorpus::RECEIPT_KINDS.len()).map(Leaf::Receipt));
    leaves.extend((0..txcorpus::INPUT_KINDS.len()).map(Leaf::Input));
    leaves.push(Leaf::Mint);
    for leaf in &leaves {
        let leaf = *leaf;
        let n = txcorpus::leaf_count(leaf, Lens::L, true);
        for idx in 0..n {
            if let Some((dec, bytes)) = leaf_bytes(&txcorpus::leaf_at(leaf, Lens::L, true, idx)) {
                push(dec, bytes, format!("{} shape#{idx} (L)", leaf.name()), SeedClass::Leaf, &mut seeds);
            }
        }
        if let Some((dec, bytes)) = leaf_bytes(&txcorpus::leaf_at(leaf, Lens::L, false, 0)) {
            push(dec, bytes, format!("{} all-zero", leaf.name()), SeedClass::Leaf, &mut seeds);
        }
    }
    // extra receipt seeds: every ScriptResult class
    for idx in 0..7 {
        if let Some((dec, bytes)) = leaf_bytes(&txcorpus::leaf_at(Leaf::Receipt(9), Lens::L, false, idx)) {
            push(dec, bytes, format!("Receipt::ScriptResult #{idx}"), SeedClass::Leaf, &mut seeds);
        }
    }
    if thorough {
        // shapes that only exist with the larger length classes
        for leaf in &leaves {
            let n = txcorpus::leaf_count(*leaf, Lens::Lbig, true);
            for idx in 0..n {
                if let Some((dec, bytes)) = leaf_bytes(&txcorpus::leaf_at(*leaf, Lens::Lbig, true, idx)) {
                    push(dec, bytes, format!("{} shape#{idx} (Lbig)", leaf.name()), SeedClass::LeafBig, &mut seeds);
                }
            }
        }
    }
    // star transaction corpus (Mint values share one shape: covered by the leaf seeds).
    // quick: one transaction per wire shape (policy value class and body scalar class do
    // not change the shape); thorough: all of them.
    let star = txcorpus::tx_count(CorpusLevel::Star);
    let mut shapes: HashSet<(usize, u64, u64, u64, u64, u64)> = HashSet::new();
    for idx in 0..star {
        let point = txcorpus::tx_point(CorpusLevel::Star, idx);
        if let TxPoint::Chargeable { kind, ix } = point {
            let base = txcorpus::base_points(kind).contains(&ix);
            let body_shape = match kind {
                0 => ix[4] % 100,
                1 | 4 => ix[4] % 3,
                _ => 0,
            };
            let new_shape = shapes.insert((kind, ix[0] / 2, ix[1], ix[2], ix[3], body_shape));
            if !(base || thorough || new_shape) {
                continue
            }
            let class = if base { SeedClass::BaseTx } else { SeedClass::StarTx };
            push(
                Dec::Transaction,
                point.build().to_bytes(),
                format!("Star#{idx}: {}", point.describe()),
                class,
                &mut seeds,
            );
        }
    }
    seeds
}

// ------------------------------------------------------------------ driver

fn explore(ctx: &Ctx) {
    ctx.rule(
        "seeds = one canonical encoding per wire shape (leaf types over all vector-length combinations, the star \
         transaction corpus); every single deviation (word replacement over a 16-value alphabet, byte := ff, \
         truncations, zero extension) and the stated pairs of word replacements are decoded by the matching decoder; \
         all short strings go to all four decoders; a case is non-trivial when the decoder returned Ok (the fixed-point \
         oracle ran); distinct = distinct re-encodings of the decoded values (single deviations) or distinct \
         (decoder, length, first word) (pairs)",
    );
    ctx.assume("a decoder child process that dies (signal / non-zero exit) while decoding is attributed to the input being decoded; the attribution is confirmed on a fresh child with that single input");
    ctx.assume("seeds come from the C01 generators; their encodings are produced by the subject's own encoder");
    ctx.set(
        "dont_care",
        json!([
            "which error a rejected input produces",
            "how much memory a decode requests before it fails with an ordinary error (recorded under allocation_info)",
            "trailing bytes after the consumed prefix",
            "decoders other than Transaction, Input, Output, Receipt",
        ]),
    );
    let plan = Plan { thorough: ctx.thorough() };
    let seeds = build_seeds(plan.thorough);
    let mut per_class: BTreeMap<String, u64> = BTreeMap::new();
    for s in &seeds {
        *per_class.entry(format!("{:?}/{}", s.class, s.dec.name())).or_insert(0) += 1;
    }
    ctx.set(
        "seeds",
        json!({"total": seeds.len(), "per_class": per_class,
               "length_classes": if plan.thorough { &txcorpus::LBIG[..] } else { &txcorpus::L[..] }}),
    );
    ctx.set(
        "alphabets",
        json!({
            "word": ["0","1","2","3","7","8","9","2^16","old+1","old-1","2^32-1","2^32","VEC_DECODE_LIMIT","VEC_DECODE_LIMIT+1","2^63","u64::MAX"],
            "pair_small": A2.iter().map(|v| format!("{v:#x}")).collect::<Vec<_>>(),
            "short_bytes": SHORT_BYTES, "short_bytes_len7_8": SHORT_BYTES_LONG,
            "short_words": SHORT_WORDS.iter().map(|v| format!("{v:#x}")).collect::<Vec<_>>(),
            "deviations_per_seed_class": plan.describe(),
        }),
    );
    let children = std::thread::available_parallelism().map(|n| n.get()).unwrap_or(8).clamp(2, 16);
    let mut totals = Totals::default();
    let next = AtomicUsize::new(0);
    let deaths = AtomicUsize::new(0);
    let stop = AtomicBool::new(false);
    let results: Mutex<BTreeMap<usize, Acc>> = Mutex::new(BTreeMap::new());
    std::thread::scope(|s| {
        for _ in 0..children {
            s.spawn(|| {
                let sup = Supervisor {
                    deaths: &deaths,
                    stop: &stop,
                };
                let mut child: Option<Child> = None;
                loop {
                    let si = next.fetch_add(1, Ordering::Relaxed);
                    if si >= seeds.len() {
                        break
                    }
                    let seed = &seeds[si];
                    let mut acc = Acc::default();
                    if ctx.out_of_time() || stop.load(Ordering::Relaxed) {
                        acc.skipped_seeds += 1;
                    } else {
                        let mut batch: Vec<Dev> = Vec::with_capacity(BATCH);
                        for_each_dev(seed, plan, &mut |dev, _| {
                            batch.push(dev);
                            if batch.len() == BATCH {
                                run_batch_supervised(&mut child, seed, &batch, &mut acc, &sup);
                                batch.clear();
                            }
                        });
                        run_batch_supervised(&mut child, seed, &batch, &mut acc, &sup);
                    }
                    results.lock().unwrap().insert(si, acc);
                }
            });
        }
    });
    // merge in seed order: deterministic first counterexample per key
    for (_, acc) in results.into_inner().unwrap() {
        acc.flush(ctx, &mut totals);
    }
    // ---- length boundary of byte vectors: ~100 MiB per image, one at a time
    if !stop.load(Ordering::Relaxed) {
        let mut acc = Acc::default();
        let mut child: Option<Child> = None;
        let lens = [VEC_DECODE_LIMIT - 1, VEC_DECODE_LIMIT, VEC_DECODE_LIMIT + 1];
        // touching fresh 100 MiB buffers dominates: quick = witness only, thorough = all
        let families = &BOUNDARY_FAMILIES[..ctx.pick(1, BOUNDARY_FAMILIES.len())];
        for family in families {
            for n in lens {
                run_boundary(&mut child, family, n, n > VEC_DECODE_LIMIT, &mut acc);
            }
        }
        acc.flush(ctx, &mut totals);
        ctx.set(
            "length_boundary",
            json!({"families": families, "lengths": lens.iter().map(|n| boundary_len_name(*n)).collect::<Vec<_>>(),
                   "VEC_DECODE_LIMIT": VEC_DECODE_LIMIT,
                   "oracle": "same oracle for lengths <= VEC_DECODE_LIMIT (accepted by the decoder => re-encodable, same length, fixed point); VEC_DECODE_LIMIT+1 recorded as info outcome only"}),
        );
    }
    if stop.load(Ordering::Relaxed) {
        ctx.cap(format!(
            "stopped after {} inputs had each killed a fresh decoder process ({} cases not run, {} seeds skipped)",
            deaths.load(Ordering::Relaxed),
            totals.lost_cases,
            totals.skipped_seeds
        ));
    } else if totals.skipped_seeds > 0 {
        ctx.cap(format!("time budget: {} of {} seeds skipped", totals.skipped_seeds, seeds.len()));
    }
    ctx.set(
        "processes",
        json!({"decoder_children_at_a_time": children, "inputs_that_killed_a_child": deaths.load(Ordering::Relaxed),
               "child_restarts": totals.child_restarts}),
    );
    ctx.set(
        "allocation_info",
        json!({"largest_single_allocation_request_bytes": totals.peak, "by": totals.peak_case,
               "note": "information, not a violation: requested (address space reserved, untouched) by one decode before it returned an ordinary error; VEC_DECODE_LIMIT bounds the element count, not the bytes"}),
    );

    // ---- samples: real cases, judged by a child like every other case
    let mut want: Vec<(usize, Dev)> = Vec::new();
    if let Some(si) = seeds.iter().position(|s| s.class == SeedClass::BaseTx && s.bytes.len() > 300) {
        want.push((si, Dev::None));
        want.push((si, Dev::Word { pos: 9, val: 3 }));
        want.push((si, Dev::Trunc { len: seeds[si].bytes.len() as u32 - 8 }));
        want.push((si, Dev::Byte { pos: seeds[si].bytes.len() as u32 - 1 }));
    }
    if let Some(si) = seeds.iter().position(|s| s.label.starts_with("Input::MessageDataPredicate shape#555")) {
        want.push((si, Dev::None));
        want.push((si, Dev::Word { pos: 16, val: 0 }));
    }
    if let Some(si) = seeds.iter().position(|s| s.dec == Dec::Receipt && s.class == SeedClass::Leaf) {
        want.push((si, Dev::Word { pos: 0, val: 9 }));
    }
    if !stop.load(Ordering::Relaxed) {
        let mut child = Some(Child::spawn());
        for (si, dev) in want {
            let seed = &seeds[si];
            let Some(c) = child.as_mut() else { break };
            let Ok(reply) = c.run_batch(seed.dec, &seed.bytes, &[dev]) else {
                child = None;
                continue
            };
            let bytes = dev.apply(&seed.bytes);
            let n = bytes.len().min(64);
            let outcome = reply["outcomes"].as_object().and_then(|o| o.keys().next().cloned()).unwrap_or_default();
            ctx.sample(json!({"decoder": seed.dec.name(), "seed": seed.label, "deviation": dev.describe(), "input_len": bytes.len(),
                              "input_head": format!("{}{}", hex::encode(&bytes[..n]), if bytes.len() > n { "…" } else { "" }),
                              "outcome": outcome, "violations": reply["viols"].as_array().map(|v| v.len()).unwrap_or(0)}));
        }
    } else {
        ctx.sample(json!({"note": "exploration stopped on decoder-process deaths; see violations"}));
    }
}

fn replay(case: &Value, ctx: &Ctx) {
    if let Some(family) = case["boundary"].as_str() {
        let mut acc = Acc::default();
        let mut child = None;
        run_boundary(&mut child, family, case["len"].as_u64().expect("len") as usize, false, &mut acc);
        for (key, (what, _, _)) in acc.viols {
            ctx.violation(key, what, case.clone());
        }
        return
    }
    let dec = Dec::from_name(case["decoder"].as_str().expect("decoder"));
    let bytes = hex::decode(case["bytes"].as_str().expect("bytes")).expect("hex");
    let seed = Seed {
        dec,
        bytes,
        label: case["seed"].as_str().unwrap_or("replay").to_string(),
        class: SeedClass::Leaf,
    };
    let mut acc = Acc::default();
    let deaths = AtomicUsize::new(0);
    let stop = AtomicBool::new(false);
    let sup = Supervisor {
        deaths: &deaths,
        stop: &stop,
    };
    let mut child = None;
    run_batch_supervised(&mut child, &seed, &[Dev::None], &mut acc, &sup);
    for (key, (what, _, _)) in acc.viols {
        ctx.violation(key, what, case.clone());
    }
}

fn main() {
    if std::env::var_os(CHILD_ENV).is_some() {
        child_main();
        return
    }
    run_check("C02", Level::Exploration, explore, replay)
}
