//! C07 — DA compression round-trip preserves transaction identity.
//!
//! Level: model checking. The compression context is a stateful object (registry tables
//! with key allocation and reuse, UTXO-id table, coin / message look-up data, latest tx
//! pointer); a transition = "register the referenced data of pool transaction i, compress
//! it with the REAL derive-generated `compress_with`, take the compressed form through
//! postcard, decompress it with the REAL `decompress_with` against the same context".
//! States = distinct context contents (the full context is the state key, nothing is
//! hidden), explored breadth-first from the empty context through ALL 12 pool
//! transactions in every state, depth 5 (quick: every ordered history of length ≤ 5,
//! 271,453 histories) / depth 12 (thorough; the frontier becomes empty around depth 10,
//! i.e. the COMPLETE reachable context set of the pool is explored). Histories that reach
//! the same context are merged (the transition function is deterministic in
//! (context, tx)); states and executed transitions are counted as such.
//!
//! The context is harness-owned and follows the repository's own test context
//! (`fuel-tx/src/tests/da_compression.rs`) callback for callback, except that registry
//! keys are allocated with the REAL `RegistryKey::next()` (per table, starting at
//! `MAX_WRITABLE − {2,1,0,1,2}` so every table wraps around inside the first histories),
//! and that, as `key.rs` documents, `RegistryKey::DEFAULT_VALUE` maps to the table type's
//! default value and is never written.
//!
//! Pool: 12 hand-built transactions — 4 Script, 2 Create, 2 Upgrade (both purposes),
//! Upload, Blob, 2 Mint — covering all 7 input kinds and all 5 output kinds, sharing two
//! addresses, two asset ids (+ the zero ones), one contract id, two predicates and two
//! scripts, so registry keys are reused inside and across transactions. A start-up
//! self-check (`pool_self_check`, machinery error when violated) enumerates every field
//! path of the pool's serde trees — bodies, enum-variant payloads, inputs, outputs, tx
//! pointers, witness / output indices, policies — and demands a NON-default value in at
//! least one pool transaction (witness lists put signatures first, payloads after, so the
//! stored witness indices are non-zero), so no field can be dropped to its default unseen.
//!
//! Oracle per transition (from the statement; chain id fixed):
//!  1. compression, postcard(compressed) round trip (equal value) and decompression succeed;
//!  2. `id(decompressed) == id(original)`;
//!  3. with every deliberately skipped field blanked on both sides the two transactions are
//!     equal (type's `Eq`), i.e. every non-skipped field survived;
//!  4. every deliberately skipped field of the decompressed transaction holds either the
//!     type's default or the original value (= what the context holds).
//!  "Deliberately skipped" is the list in `visit_skipped` (the fields the protocol treats
//!  as malleable or as recoverable from chain data): Script.receipts_root; Coin inputs
//!  owner, amount, asset_id, tx_pointer; Contract input utxo_id, balance_root, state_root,
//!  tx_pointer; Message inputs sender, recipient, amount, data; Contract output roots;
//!  Change amount; Variable to/amount/asset_id; Mint.tx_pointer; cached metadata.
//!
//! Separately, `RegistryKey::next` over ALL 2^24 keys (`key.rs` docs: "The last key (all
//! bits set) is reserved for the default value and cannot be written to"; "Wraps around
//! just below max/default value. Panics for max/default value."): for k ≠ 2^24−1
//! next(k) == (k+1) mod (2^24−1), is never DEFAULT_VALUE, and k's bytes are its big-endian
//! 24-bit representation; next(DEFAULT_VALUE) panics.
//!
//! Keys: `C07:roundtrip:<class>:<component>` with class ∈ {panic, error, postcard, field,
//! skipped-field, id} and component = the tx kind or the first differing input / output
//! variant; `C07:registry:default-key-written`; `C07:RegistryKey::next:<class>`.

#[path = "../txcorpus.rs"]
mod txcorpus;

use fuel_compression::{
    Compressible,
    CompressibleBy,
    ContextError,
    Decompress,
    DecompressibleBy,
    RegistryKey,
};
use fuel_tx::{
    field,
    input::{
        coin::{
            Coin,
            CoinSpecification,
        },
        message::{
            Message,
            MessageSpecification,
        },
        AsField,
        PredicateCode,
    },
    policies::Policies,
    BlobBody,
    CompressedUtxoId,
    Input,
    Mint,
    Output,
    ScriptCode,
    StorageSlot,
    Transaction,
    TxPointer,
    UniqueIdentifier,
    UpgradePurpose,
    UploadBody,
    UtxoId,
    Witness,
};
use fuel_types::{
    bytes::Bytes,
    Address,
    AssetId,
    BlobId,
    Bytes32,
    ChainId,
    ContractId,
    Nonce,
    Salt,
    Word,
};
use std::collections::BTreeMap;
use txcorpus::{
    bytes_of,
    id32,
};
use vcore::{
    bfs::{
        bfs,
        replay_path,
        Model,
    },
    guard,
    json,
    run::hash64,
    run_check,
    space,
    Ctx,
    Level,
    Value,
};

// ------------------------------------------------------------------ the context

#[derive(Debug, Default, Clone, PartialEq, Eq, Hash)]
struct CoinInfo {
    owner: Address,
    amount: u64,
    asset_id: AssetId,
}

#[derive(Debug, Default, Clone, PartialEq, Eq, Hash)]
struct MessageInfo {
    sender: Address,
    recipient: Address,
    amount: Word,
    data: Vec<u8>,
}

/// One registry table: key <-> postcard(value), plus the next key to hand out.
#[derive(Debug, Clone, PartialEq, Eq, Hash)]
struct Table {
    next: u32,
    by_key: BTreeMap<u32, Vec<u8>>,
    by_value: BTreeMap<Vec<u8>, u32>,
}

const TABLES: [&str; 5] = ["Address", "AssetId", "ContractId", "ScriptCode", "PredicateCode"];
/// First key of each table = MAX_WRITABLE − offset.
const START_OFFSETS: [u32; 5] = [2, 1, 0, 1, 2];

#[derive(Debug, Clone, PartialEq, Eq, Hash)]
struct RegCtx {
    tables: BTreeMap<&'static str, Table>,
    utxo_by_key: BTreeMap<CompressedUtxoId, UtxoId>,
    key_by_utxo: BTreeMap<UtxoId, CompressedUtxoId>,
    coins: BTreeMap<UtxoId, CoinInfo>,
    messages: BTreeMap<Nonce, MessageInfo>,
    latest_tx_pointer: Option<TxPointer>,
    /// statistics of the last transition (not part of the behaviour, reset per step)
    stat_allocated: u32,
    stat_reused: u32,
    stat_default_key: u32,
    stat_wrapped: u32,
}

impl RegCtx {
    fn new() -> Self {
        let max = RegistryKey::MAX_WRITABLE.as_u32();
        RegCtx {
            tables: TABLES
                .iter()
                .zip(START_OFFSETS)
                .map(|(n, off)| (*n, Table { next: max - off, by_key: BTreeMap::new(), by_value: BTreeMap::new() }))
                .collect(),
            utxo_by_key: BTreeMap::new(),
            key_by_utxo: BTreeMap::new(),
            coins: BTreeMap::new(),
            messages: BTreeMap::new(),
            latest_tx_pointer: None,
            stat_allocated: 0,
            stat_reused: 0,
            stat_default_key: 0,
            stat_wrapped: 0,
        }
    }

    fn reset_stats(&mut self) {
        self.stat_allocated = 0;
        self.stat_reused = 0;
        self.stat_default_key = 0;
        self.stat_wrapped = 0;
    }

    /// "Holding the same referenced data": what the chain knows about the coins and
    /// messages the transaction spends, and where a Mint sits in its block.
    fn store_tx_info(&mut self, tx: &Transaction) {
        let inputs: &[Input] = match tx {
            Transaction::Script(t) => field::Inputs::inputs(t),
            Transaction::Create(t) => field::Inputs::inputs(t),
            Transaction::Upgrade(t) => field::Inputs::inputs(t),
            Transaction::Upload(t) => field::Inputs::inputs(t),
            Transaction::Blob(t) => field::Inputs::inputs(t),
            Transaction::Mint(t) => {
                self.latest_tx_pointer = Some(*field::TxPointer::tx_pointer(t));
                &[]
            }
        };
        for input in inputs {
            if input.is_coin() {
                self.coins.insert(
                    *input.utxo_id().expect("coin has utxo id"),
                    CoinInfo {
                        owner: *input.input_owner().expect("coin has owner"),
                        amount: input.amount().expect("coin has amount"),
                        asset_id: *input.asset_id(&AssetId::default()).expect("coin has asset"),
                    },
                );
            } else if input.is_message() {
                self.messages.insert(
                    *input.nonce().expect("message has nonce"),
                    MessageInfo {
                        sender: *input.sender().expect("message has sender"),
                        recipient: *input.recipient().expect("message has recipient"),
                        amount: input.amount().expect("message has amount"),
                        data: input.input_data().unwrap_or_default().to_vec(),
                    },
                );
            }
        }
    }

    fn registry_size(&self) -> usize {
        self.tables.values().map(|t| t.by_key.len()).sum()
    }
}

impl ContextError for RegCtx {
    type Error = String;
}

fn key_of(raw: u32) -> Result<RegistryKey, String> {
    RegistryKey::try_from(raw).map_err(|e| format!("RegistryKey::try_from({raw:#x}): {e}"))
}

macro_rules! impl_registry_substitution {
    ($t:ty, $name:literal) => {
        impl CompressibleBy<RegCtx> for $t {
            async fn compress_with(&self, ctx: &mut RegCtx) -> Result<RegistryKey, String> {
                if *self == <$t>::default() {
                    // key.rs: DEFAULT_VALUE is the "key mapping to default value for the table type"
                    ctx.stat_default_key += 1;
                    return Ok(RegistryKey::DEFAULT_VALUE)
                }
                let value = postcard::to_stdvec(self).map_err(|e| e.to_string())?;
                let table = ctx.tables.get_mut($name).expect("table exists");
                if let Some(k) = table.by_value.get(&value) {
                    ctx.stat_reused += 1;
                    return key_of(*k)
                }
                let key = key_of(table.next)?;
                if key == RegistryKey::DEFAULT_VALUE {
                    return Err(format!(
                        "DEFAULT-KEY-WRITTEN: table {} was handed the reserved key {:#x} by RegistryKey::next",
                        $name, table.next
                    ))
                }
                // the REAL successor function decides the next key (wraps below the reserved key)
                let next = key.next().as_u32();
                if next < table.next {
                    ctx.stat_wrapped += 1;
                }
                if let Some(old) = table.by_key.insert(table.next, value.clone()) {
                    // key space exhausted and reused: evict (cannot happen with < 2^24 values)
                    table.by_value.remove(&old);
                }
                table.by_value.insert(value, table.next);
                table.next = next;
                ctx.stat_allocated += 1;
                Ok(key)
            }
        }

        impl DecompressibleBy<RegCtx> for $t {
            async fn decompress_with(key: RegistryKey, ctx: &RegCtx) -> Result<$t, String> {
                if key == RegistryKey::DEFAULT_VALUE {
                    return Ok(<$t>::default())
                }
                let table = ctx.tables.get($name).expect("table exists");
                let value = table
                    .by_key
                    .get(&key.as_u32())
                    .ok_or_else(|| format!("registry table {} has no key {:#x}", $name, key.as_u32()))?;
                postcard::from_bytes(value).map_err(|e| e.to_string())
            }
        }
    };
}

impl_registry_substitution!(Address, "Address");
impl_registry_substitution!(AssetId, "AssetId");
impl_registry_substitution!(ContractId, "ContractId");
impl_registry_substitution!(ScriptCode, "ScriptCode");
impl_registry_substitution!(PredicateCode, "PredicateCode");

impl CompressibleBy<RegCtx> for UtxoId {
    async fn compress_with(&self, ctx: &mut RegCtx) -> Result<CompressedUtxoId, String> {
        if let Some(key) = ctx.key_by_utxo.get(self) {
            return Ok(*key)
        }
        let seed = ctx.key_by_utxo.len() as u32; // a unique integer, as in the repository's test context
        let key = CompressedUtxoId {
            tx_pointer: TxPointer::new((seed + 1).into(), (seed % 7) as u16),
            output_index: (seed % 3) as u16,
        };
        ctx.key_by_utxo.insert(*self, key);
        ctx.utxo_by_key.insert(key, *self);
        Ok(key)
    }
}

impl DecompressibleBy<RegCtx> for UtxoId {
    async fn decompress_with(key: CompressedUtxoId, ctx: &RegCtx) -> Result<UtxoId, String> {
        ctx.utxo_by_key.get(&key).copied().ok_or_else(|| format!("unknown compressed utxo id {key:?}"))
    }
}

impl<Specification> DecompressibleBy<RegCtx> for Coin<Specification>
where
    Specification: CoinSpecification,
    Specification::Predicate: DecompressibleBy<RegCtx>,
    Specification::PredicateData: DecompressibleBy<RegCtx>,
    Specification::PredicateGasUsed: DecompressibleBy<RegCtx>,
    Specification::Witness: DecompressibleBy<RegCtx>,
{
    async fn decompress_with(
        c: <Coin<Specification> as Compressible>::Compressed,
        ctx: &RegCtx,
    ) -> Result<Coin<Specification>, String> {
        let utxo_id = UtxoId::decompress_with(c.utxo_id, ctx).await?;
        let coin_info = ctx.coins.get(&utxo_id).ok_or_else(|| format!("coin {utxo_id:?} not found"))?;
        let witness_index = c.witness_index.decompress(ctx).await?;
        let predicate_gas_used = c.predicate_gas_used.decompress(ctx).await?;
        let predicate = c.predicate.decompress(ctx).await?;
        let predicate_data = c.predicate_data.decompress(ctx).await?;
        Ok(Self {
            utxo_id,
            owner: coin_info.owner,
            amount: coin_info.amount,
            asset_id: coin_info.asset_id,
            tx_pointer: Default::default(),
            witness_index,
            predicate_gas_used,
            predicate,
            predicate_data,
        })
    }
}

impl<Specification> DecompressibleBy<RegCtx> for Message<Specification>
where
    Specification: MessageSpecification,
    Specification::Data: DecompressibleBy<RegCtx> + Default,
    Specification::Predicate: DecompressibleBy<RegCtx>,
    Specification::PredicateData: DecompressibleBy<RegCtx>,
    Specification::PredicateGasUsed: DecompressibleBy<RegCtx>,
    Specification::Witness: DecompressibleBy<RegCtx>,
{
    async fn decompress_with(
        c: <Message<Specification> as Compressible>::Compressed,
        ctx: &RegCtx,
    ) -> Result<Message<Specification>, String> {
        let msg = ctx.messages.get(&c.nonce).ok_or_else(|| format!("message {} not found", c.nonce))?;
        let witness_index = c.witness_index.decompress(ctx).await?;
        let predicate_gas_used = c.predicate_gas_used.decompress(ctx).await?;
        let predicate = c.predicate.decompress(ctx).await?;
        let predicate_data = c.predicate_data.decompress(ctx).await?;
        let mut message: Message<Specification> = Message {
            sender: msg.sender,
            recipient: msg.recipient,
            amount: msg.amount,
            nonce: c.nonce,
            witness_index,
            predicate_gas_used,
            data: Default::default(),
            predicate,
            predicate_data,
        };
        if let Some(data) = message.data.as_mut_field() {
            *data = Bytes::new(msg.data.clone())
        }
        Ok(message)
    }
}

impl DecompressibleBy<RegCtx> for Mint {
    async fn decompress_with(c: Self::Compressed, ctx: &RegCtx) -> Result<Self, String> {
        Ok(Transaction::mint(
            ctx.latest_tx_pointer.ok_or_else(|| "no latest tx pointer".to_string())?,
            c.input_contract.decompress(ctx).await?,
            c.output_contract.decompress(ctx).await?,
            c.mint_amount.decompress(ctx).await?,
            c.mint_asset_id.decompress(ctx).await?,
            c.gas_price.decompress(ctx).await?,
        ))
    }
}

// ------------------------------------------------------------------ the pool

const POOL_NAMES: [&str; 12] = [
    "Script#0 (empty)",
    "Script#1 (S1; Contract C1 + CoinSigned U1 (witness 1); Coin, Contract, Change)",
    "Script#2 (S1; CoinPredicate U2/P1 + MessageCoinSigned; Variable, Change, Coin to zero address/zero asset)",
    "Script#3 (S2; MessageDataPredicate P1 + MessageDataSigned; Coin)",
    "Create#4 (CoinSigned U1; ContractCreated C1, Change)",
    "Create#5 (minimal; ContractCreated zero contract)",
    "Upgrade#6 (ConsensusParameters, payload witness 2; CoinSigned U3 + CoinPredicate U4/P2; Coin)",
    "Upgrade#7 (StateTransition; MessageCoinPredicate P2; Change to zero address)",
    "Upload#8 (payload witness 1; CoinSigned U3 zero asset; Change)",
    "Blob#9 (payload witness 1, all six policies; CoinPredicate U2/P1 + MessageCoinSigned + CoinSigned U1; Change)",
    "Mint#10 (contract C1, asset X1, tx pointer (5,3), output input_index 2)",
    "Mint#11 (all default)",
];

fn pool() -> Vec<Transaction> {
    let a1 = Address::from(id32(1, 1));
    let a2 = Address::from(id32(1, 2));
    let az = Address::default();
    let x1 = AssetId::from(id32(1, 3));
    let x2 = AssetId::from(id32(1, 4));
    let xz = AssetId::default();
    let c1 = ContractId::from(id32(1, 5));
    let p1 = bytes_of(5, 1);
    let p2 = bytes_of(8, 2);
    let s1 = bytes_of(4, 3);
    let s2 = bytes_of(9, 4);
    let b32 = |k: u8| Bytes32::from(id32(1, k));
    let utxo = |k: u8, i: u16| UtxoId::new(b32(k), i);
    let ptr = |h: u32, i: u16| TxPointer::new(h.into(), i);

    // spendable things, each with ONE consistent set of chain data
    let u1 = |wi: u16| Input::coin_signed(utxo(0x10, 1), a1, 100, x1, ptr(9, 1), wi);
    let u2 = |gas: u64, pd: usize| Input::coin_predicate(utxo(0x11, 2), a2, 200, x2, ptr(9, 2), gas, p1.clone(), bytes_of(pd, 6));
    let u3 = |wi: u16| Input::coin_signed(utxo(0x12, 5), a1, 300, xz, ptr(8, 6), wi);
    let u4 = Input::coin_predicate(utxo(0x13, 7), a2, 400, xz, ptr(7, 7), 66, p2.clone(), vec![]);
    let n1 = |wi: u16| Input::message_coin_signed(a1, a2, 11, Nonce::from(id32(1, 0x20)), wi);
    let n2 = Input::message_coin_predicate(a2, a1, 12, Nonce::from(id32(1, 0x21)), 55, p2.clone(), bytes_of(2, 7));
    let n3 = Input::message_data_signed(a1, a1, 13, Nonce::from(id32(1, 0x22)), 1, bytes_of(6, 8));
    let n4 = Input::message_data_predicate(a2, a2, 14, Nonce::from(id32(1, 0x23)), 44, bytes_of(9, 9), p1.clone(), bytes_of(1, 10));
    let in_contract = Input::contract(utxo(0x14, 3), b32(0x30), b32(0x31), ptr(6, 6), c1);
    let sig = |k: u8| Witness::from(bytes_of(64, k));

    // Witness lists: signature witnesses first, payload witnesses after them, so that the
    // witness indices stored in bodies / inputs are non-zero wherever the format has one.
    let mut t1 = Transaction::script(
        1000,
        s1.clone(),
        bytes_of(3, 5),
        Policies::new().with_tip(1).with_max_fee(5),
        vec![in_contract, u1(1)],
        vec![Output::coin(a2, 10, x1), Output::contract(1, b32(0x32), b32(0x33)), Output::change(a1, 7, x1)],
        vec![sig(11), sig(21)],
    );
    *field::ReceiptsRoot::receipts_root_mut(&mut t1) = b32(0x34);
    let mut t2 = Transaction::script(
        2000,
        s1.clone(),
        vec![],
        Policies::new().with_max_fee(9).with_owner(1).with_expiration(100u32.into()),
        vec![u2(33, 3), n1(1)],
        vec![Output::variable(a1, 5, x2), Output::change(a2, 8, x2), Output::coin(az, 1, xz)],
        vec![Witness::from(bytes_of(7, 12)), sig(22)],
    );
    *field::ReceiptsRoot::receipts_root_mut(&mut t2) = b32(0x35);
    let mut t3 = Transaction::script(
        0,
        s2.clone(),
        bytes_of(8, 13),
        Policies::new().with_witness_limit(1 << 20).with_maturity(3u32.into()),
        vec![n4, n3],
        vec![Output::coin(a1, 3, x2)],
        vec![Witness::from(vec![]), Witness::from(bytes_of(9, 14))],
    );
    *field::ReceiptsRoot::receipts_root_mut(&mut t3) = b32(0x47);
    let t4 = Transaction::create(
        1,
        Policies::new().with_max_fee(1).with_maturity(2u32.into()),
        Salt::from(id32(1, 0x36)),
        vec![StorageSlot::new(b32(0x37), b32(0x38)), StorageSlot::new(b32(0x39), b32(0x3a))],
        vec![u1(0)],
        vec![Output::contract_created(c1, b32(0x3b)), Output::change(a1, 9, x1)],
        vec![sig(15), Witness::from(bytes_of(40, 16))],
    );
    let t5 = Transaction::create(
        0,
        Policies::new(),
        Salt::default(),
        vec![],
        vec![],
        vec![Output::contract_created(ContractId::default(), Bytes32::default())],
        vec![],
    );
    let t6 = Transaction::upgrade(
        UpgradePurpose::ConsensusParameters { witness_index: 2, checksum: b32(0x3c) },
        Policies::new().with_max_fee(3).with_owner(1).with_expiration(u32::MAX.into()),
        vec![u3(1), u4],
        vec![Output::coin(a2, 2, xz)],
        vec![Witness::from(bytes_of(3, 23)), sig(24), Witness::from(bytes_of(33, 17))],
    );
    let t7 = Transaction::upgrade(
        UpgradePurpose::StateTransition { root: b32(0x3d) },
        Policies::new().with_tip(2).with_max_fee(4),
        vec![n2],
        vec![Output::change(az, 6, xz)],
        vec![],
    );
    let t8 = Transaction::upload(
        UploadBody {
            root: b32(0x3e),
            witness_index: 1,
            subsection_index: 2,
            subsections_number: 3,
            proof_set: vec![b32(0x3f), b32(0x40)],
        },
        Policies::new().with_max_fee(6),
        vec![u3(0)],
        vec![Output::change(a1, 1, xz)],
        vec![sig(19), Witness::from(bytes_of(17, 18))],
    );
    let t9 = Transaction::blob(
        BlobBody { id: BlobId::from(id32(1, 0x41)), witness_index: 1 },
        // all six policies with pairwise distinct values (maturity != expiration)
        Policies::new()
            .with_tip(11)
            .with_witness_limit(12)
            .with_maturity(13u32.into())
            .with_max_fee(14)
            .with_expiration(15u32.into())
            .with_owner(2),
        vec![u2(34, 0), n1(0), u1(0)],
        vec![Output::change(a2, 4, x2)],
        vec![sig(25), Witness::from(bytes_of(21, 20))],
    );
    let t10 = Transaction::mint(
        ptr(5, 3),
        fuel_tx::input::contract::Contract {
            utxo_id: utxo(0x42, 4),
            balance_root: b32(0x43),
            state_root: b32(0x44),
            tx_pointer: ptr(4, 8),
            contract_id: c1,
        },
        fuel_tx::output::contract::Contract { input_index: 2, balance_root: b32(0x45), state_root: b32(0x46) },
        77,
        x1,
        6,
    );
    let t11 = Transaction::mint(TxPointer::default(), Default::default(), Default::default(), 0, xz, 0);
    vec![
        Transaction::script(0, vec![], vec![], Policies::new(), vec![], vec![], vec![]).into(),
        t1.into(),
        t2.into(),
        t3.into(),
        t4.into(),
        t5.into(),
        t6.into(),
        t7.into(),
        t8.into(),
        t9.into(),
        t10.into(),
        t11.into(),
    ]
}

// ------------------------------------------------------------------ pool self-check

/// Every field path of the pool (taken from the serde_json tree of each transaction, list
/// positions collapsed to `[]`, the kind-independent policies / inputs / outputs / witnesses
/// collapsed over the transaction kinds, so enum-variant payloads, bodies, inputs, outputs, tx
/// pointers, output indices … are all enumerated without naming them) must hold a
/// NON-default value in at least one pool transaction; every transaction kind, input kind,
/// output kind, upgrade purpose and policy type must occur. Otherwise a field silently
/// dropped by (de)compression could come back as its default unnoticed: machinery error.
fn pool_self_check(pool: &[Transaction]) -> Result<usize, String> {
    fn walk(v: &Value, path: &str, seen: &mut BTreeMap<String, bool>) {
        let mut mark = |p: &str, non_default: bool| {
            let e = seen.entry(p.to_string()).or_insert(false);
            *e |= non_default;
        };
        match v {
            Value::Null => {}
            Value::Bool(b) => mark(path, *b),
            Value::Number(n) => mark(path, n.as_u64() != Some(0)),
            Value::String(s) => mark(path, !(s.is_empty() || s.bytes().all(|c| c == b'0'))),
            Value::Array(a) => {
                mark(path, !a.is_empty());
                for c in a {
                    walk(c, &format!("{path}/[]"), seen);
                }
            }
            Value::Object(m) => {
                for (k, c) in m {
                    walk(c, &format!("{path}/{k}"), seen);
                }
            }
        }
    }
    let mut seen = BTreeMap::new();
    for tx in pool {
        let j = serde_json::to_value(tx).map_err(|e| format!("pool transaction does not serialize: {e}"))?;
        // externally tagged: {"<Kind>": {body, policies, inputs, outputs, witnesses}}; the
        // input / output / witness / policy types do not depend on the transaction kind
        match &j {
            Value::Object(m) if m.len() == 1 => {
                let (kind, inner) = m.iter().next().expect("one variant");
                match inner {
                    Value::Object(fields) => {
                        for (k, c) in fields {
                            let shared = ["policies", "inputs", "outputs", "witnesses"].contains(&k.as_str());
                            let prefix = if shared { format!("/*/{k}") } else { format!("/{kind}/{k}") };
                            walk(c, &prefix, &mut seen);
                        }
                    }
                    other => walk(other, &format!("/{kind}"), &mut seen),
                }
            }
            other => walk(other, "", &mut seen),
        }
    }
    let mut problems: Vec<String> = seen.iter().filter(|(_, nd)| !**nd).map(|(p, _)| format!("always default: {p}")).collect();
    let mut required: Vec<String> = ["Script", "Create", "Mint", "Upgrade", "Upload", "Blob"].iter().map(|k| format!("/{k}/")).collect();
    required.extend(txcorpus::INPUT_KINDS.iter().map(|k| format!("/inputs/[]/{k}/")));
    required.extend(txcorpus::OUTPUT_KINDS.iter().map(|k| format!("/outputs/[]/{k}")));
    required.extend(txcorpus::UPGRADE_PURPOSE_KINDS.iter().map(|k| format!("/purpose/{k}/")));
    for r in required {
        if !seen.keys().any(|p| p.contains(&r)) {
            problems.push(format!("never occurs: {r}"));
        }
    }
    for t in txcorpus::POLICY_TYPES {
        let ok = pool.iter().any(|tx| {
            let p = match tx {
                Transaction::Script(x) => Some(*field::Policies::policies(x)),
                Transaction::Create(x) => Some(*field::Policies::policies(x)),
                Transaction::Upgrade(x) => Some(*field::Policies::policies(x)),
                Transaction::Upload(x) => Some(*field::Policies::policies(x)),
                Transaction::Blob(x) => Some(*field::Policies::policies(x)),
                Transaction::Mint(_) => None,
            };
            p.and_then(|p| p.get(t)).map(|v| v != 0).unwrap_or(false)
        });
        if !ok {
            problems.push(format!("policy {t:?} is never set to a non-zero value"));
        }
    }
    if problems.is_empty() {
        Ok(seen.len())
    } else {
        Err(problems.join("; "))
    }
}

// ------------------------------------------------------------------ deliberately skipped fields

trait Skippable {
    fn show(&self) -> String;
    fn is_default(&self) -> bool;
    fn blank(&mut self);
}

impl<T: Default + PartialEq + std::fmt::Debug> Skippable for T {
    fn show(&self) -> String {
        format!("{self:?}")
    }

    fn is_default(&self) -> bool {
        *self == T::default()
    }

    fn blank(&mut self) {
        *self = T::default();
    }
}

fn visit_input(i: &mut Input, idx: usize, f: &mut dyn FnMut(String, &mut dyn Skippable)) {
    let p = |name: &str| format!("inputs[{idx}].{name}");
    macro_rules! coin {
        ($c:expr) => {{
            f(p("owner"), &mut $c.owner);
            f(p("amount"), &mut $c.amount);
            f(p("asset_id"), &mut $c.asset_id);
            f(p("tx_pointer"), &mut $c.tx_pointer);
        }};
    }
    macro_rules! message {
        ($m:expr) => {{
            f(p("sender"), &mut $m.sender);
            f(p("recipient"), &mut $m.recipient);
            f(p("amount"), &mut $m.amount);
        }};
    }
    match i {
        Input::CoinSigned(c) => coin!(c),
        Input::CoinPredicate(c) => coin!(c),
        Input::Contract(c) => {
            f(p("utxo_id"), &mut c.utxo_id);
            f(p("balance_root"), &mut c.balance_root);
            f(p("state_root"), &mut c.state_root);
            f(p("tx_pointer"), &mut c.tx_pointer);
        }
        Input::MessageCoinSigned(m) => message!(m),
        Input::MessageCoinPredicate(m) => message!(m),
        Input::MessageDataSigned(m) => {
            message!(m);
            f(p("data"), &mut m.data);
        }
        Input::MessageDataPredicate(m) => {
            message!(m);
            f(p("data"), &mut m.data);
        }
    }
}

fn visit_output(o: &mut Output, idx: usize, f: &mut dyn FnMut(String, &mut dyn Skippable)) {
    let p = |name: &str| format!("outputs[{idx}].{name}");
    match o {
        Output::Contract(c) => {
            f(p("balance_root"), &mut c.balance_root);
            f(p("state_root"), &mut c.state_root);
        }
        Output::Change { amount, .. } => f(p("amount"), amount),
        Output::Variable { to, amount, asset_id } => {
            f(p("to"), to);
            f(p("amount"), amount);
            f(p("asset_id"), asset_id);
        }
        Output::Coin { .. } | Output::ContractCreated { .. } => {}
    }
}

/// Visit every deliberately skipped field of `tx` (see the header).
fn visit_skipped(tx: &mut Transaction, f: &mut dyn FnMut(String, &mut dyn Skippable)) {
    fn io<T: field::Inputs + field::Outputs>(t: &mut T, f: &mut dyn FnMut(String, &mut dyn Skippable)) {
        for (i, input) in t.inputs_mut().iter_mut().enumerate() {
            visit_input(input, i, f);
        }
        for (i, output) in t.outputs_mut().iter_mut().enumerate() {
            visit_output(output, i, f);
        }
    }
    match tx {
        Transaction::Script(t) => {
            f("receipts_root".into(), field::ReceiptsRoot::receipts_root_mut(t));
            io(t, f);
        }
        Transaction::Create(t) => io(t, f),
        Transaction::Upgrade(t) => io(t, f),
        Transaction::Upload(t) => io(t, f),
        Transaction::Blob(t) => io(t, f),
        Transaction::Mint(t) => {
            f("tx_pointer".into(), field::TxPointer::tx_pointer_mut(t));
            let c = field::InputContract::input_contract_mut(t);
            f("input_contract.utxo_id".into(), &mut c.utxo_id);
            f("input_contract.balance_root".into(), &mut c.balance_root);
            f("input_contract.state_root".into(), &mut c.state_root);
            f("input_contract.tx_pointer".into(), &mut c.tx_pointer);
            let o = field::OutputContract::output_contract_mut(t);
            f("output_contract.balance_root".into(), &mut o.balance_root);
            f("output_contract.state_root".into(), &mut o.state_root);
        }
    }
}

fn skipped_values(tx: &Transaction) -> Vec<(String, String, bool)> {
    let mut t = tx.clone();
    let mut out = Vec::new();
    visit_skipped(&mut t, &mut |path, v| out.push((path, v.show(), v.is_default())));
    out
}

fn blanked(tx: &Transaction) -> Transaction {
    let mut t = tx.clone();
    visit_skipped(&mut t, &mut |_, v| v.blank());
    t
}

fn kind_name(tx: &Transaction) -> &'static str {
    match tx {
        Transaction::Script(_) => "Script",
        Transaction::Create(_) => "Create",
        Transaction::Mint(_) => "Mint",
        Transaction::Upgrade(_) => "Upgrade",
        Transaction::Upload(_) => "Upload",
        Transaction::Blob(_) => "Blob",
    }
}

fn tx_inputs(tx: &Transaction) -> &[Input] {
    match tx {
        Transaction::Script(t) => field::Inputs::inputs(t),
        Transaction::Create(t) => field::Inputs::inputs(t),
        Transaction::Upgrade(t) => field::Inputs::inputs(t),
        Transaction::Upload(t) => field::Inputs::inputs(t),
        Transaction::Blob(t) => field::Inputs::inputs(t),
        Transaction::Mint(_) => &[],
    }
}

fn tx_outputs(tx: &Transaction) -> &[Output] {
    match tx {
        Transaction::Script(t) => field::Outputs::outputs(t),
        Transaction::Create(t) => field::Outputs::outputs(t),
        Transaction::Upgrade(t) => field::Outputs::outputs(t),
        Transaction::Upload(t) => field::Outputs::outputs(t),
        Transaction::Blob(t) => field::Outputs::outputs(t),
        Transaction::Mint(_) => &[],
    }
}

fn output_variant(o: &Output) -> &'static str {
    match o {
        Output::Coin { .. } => "Coin",
        Output::Contract(_) => "Contract",
        Output::Change { .. } => "Change",
        Output::Variable { .. } => "Variable",
        Output::ContractCreated { .. } => "ContractCreated",
    }
}

/// Name the first component in which two (blanked) transactions differ.
fn first_difference(a: &Transaction, b: &Transaction) -> (String, String) {
    if kind_name(a) != kind_name(b) {
        return (kind_name(a).to_string(), format!("kind changed to {}", kind_name(b)))
    }
    let (ia, ib) = (tx_inputs(a), tx_inputs(b));
    for (k, (x, y)) in ia.iter().zip(ib.iter()).enumerate() {
        if x != y {
            return (
                format!("Input::{}", txcorpus::input_variant_name(x)),
                format!("inputs[{k}]: {x:?} became {y:?}"),
            )
        }
    }
    let (oa, ob) = (tx_outputs(a), tx_outputs(b));
    for (k, (x, y)) in oa.iter().zip(ob.iter()).enumerate() {
        if x != y {
            return (format!("Output::{}", output_variant(x)), format!("outputs[{k}]: {x:?} became {y:?}"))
        }
    }
    (
        kind_name(a).to_string(),
        format!(
            "body / policies / witnesses / list lengths differ: {} became {}",
            short(a),
            short(b)
        ),
    )
}

fn short<T: std::fmt::Debug>(t: &T) -> String {
    let s = format!("{t:?}");
    if s.len() > 500 {
        let mut n = 500;
        while !s.is_char_boundary(n) {
            n -= 1;
        }
        format!("{}…", &s[..n])
    } else {
        s
    }
}

// ------------------------------------------------------------------ one transition + oracle

struct StepOk {
    ctx: RegCtx,
    compressed_postcard: Vec<u8>,
    compressed_debug: String,
    id: Bytes32,
}

struct StepFail {
    key: String,
    what: String,
}

type Compressed = <Transaction as Compressible>::Compressed;

fn chain_id() -> ChainId {
    ChainId::new(0x07C0)
}

fn transition(before: &RegCtx, tx: &Transaction) -> Result<StepOk, StepFail> {
    let kind = kind_name(tx);
    let fail = |class: &str, component: &str, what: String| StepFail { key: format!("C07:roundtrip:{class}:{component}"), what };
    let mut ctx = before.clone();
    ctx.reset_stats();
    ctx.store_tx_info(tx);

    // compress (may allocate registry keys)
    let compressed: Compressed = {
        let r = guard::catch_any(|| {
            let mut c = ctx.clone();
            let r = futures::executor::block_on(tx.compress_with(&mut c));
            (r, c)
        });
        match r {
            Err(m) => return Err(fail("panic", kind, format!("compress_with panicked: {m}"))),
            Ok((Err(e), _)) if e.starts_with("DEFAULT-KEY-WRITTEN") => {
                return Err(StepFail { key: "C07:registry:default-key-written".into(), what: e })
            }
            Ok((Err(e), _)) => return Err(fail("error", kind, format!("compress_with failed: {e}"))),
            Ok((Ok(c), after)) => {
                ctx = after;
                c
            }
        }
    };

    // compressed form through postcard
    let bytes = match guard::catch_any(|| postcard::to_stdvec(&compressed)) {
        Ok(Ok(b)) => b,
        other => return Err(fail("postcard", kind, format!("postcard serialization of the compressed form failed: {other:?}"))),
    };
    let back: Compressed = match guard::catch_any(|| postcard::from_bytes::<Compressed>(&bytes)) {
        Ok(Ok(c)) => c,
        other => {
            return Err(fail(
                "postcard",
                kind,
                format!("postcard deserialization of the compressed form failed: {:?}", other.map(|r| r.map(|_| ()))),
            ))
        }
    };
    if back != compressed {
        return Err(fail("postcard", kind, format!("compressed form changed through postcard: {} became {}", short(&compressed), short(&back))))
    }

    // decompress against the same context
    let decompressed: Transaction = {
        let r = guard::catch_any(|| {
            futures::executor::block_on(<Transaction as DecompressibleBy<RegCtx>>::decompress_with(back, &ctx))
        });
        match r {
            Err(m) => return Err(fail("panic", kind, format!("decompression panicked: {m}"))),
            Ok(Err(e)) => return Err(fail("error", kind, format!("decompression failed: {e}"))),
            Ok(Ok(t)) => t,
        }
    };

    // 3. every non-skipped field
    let (bt, bd) = (blanked(tx), blanked(&decompressed));
    let chain = chain_id();
    let ids = guard::catch_any(|| (tx.id(&chain), decompressed.id(&chain)));
    if bt != bd {
        let (component, diff) = first_difference(&bt, &bd);
        let id_note = match &ids {
            Ok((a, b)) if a != b => format!("; the transaction id changed from {a:x} to {b:x}"),
            Ok(_) => "; the transaction id is unchanged".to_string(),
            Err(_) => String::new(),
        };
        return Err(fail("field", &component, format!("a field that is not deliberately skipped did not survive: {diff}{id_note}")))
    }
    // 4. skipped fields: default or the original (context-held) value
    let (so, sd) = (skipped_values(tx), skipped_values(&decompressed));
    for ((path, orig, _), (_, got, got_default)) in so.iter().zip(sd.iter()) {
        if got != orig && !got_default {
            return Err(fail(
                "skipped-field",
                kind,
                format!("{kind}.{path} came back as {got}: neither its default nor the original {orig}"),
            ))
        }
    }
    // 2. identity
    match ids {
        Ok((a, b)) if a == b => Ok(StepOk { ctx, compressed_postcard: bytes, compressed_debug: short(&compressed), id: a }),
        Ok((a, b)) => Err(fail(
            "id",
            kind,
            format!("decompressed transaction has id {b:x}, the original {a:x} (decompressed: {})", short(&decompressed)),
        )),
        Err(m) => Err(fail("panic", kind, format!("id computation panicked: {m}"))),
    }
}

// ------------------------------------------------------------------ the model

struct Compression {
    pool: Vec<Transaction>,
}

impl Model for Compression {
    type Action = usize;
    type Key = RegCtx;
    type State = RegCtx;

    fn init(&self) -> RegCtx {
        RegCtx::new()
    }

    fn actions(&self, _: &RegCtx) -> Vec<usize> {
        (0..self.pool.len()).collect()
    }

    fn step(&self, s: &RegCtx, a: &usize, path: &[usize], ctx: &Ctx) -> Option<RegCtx> {
        ctx.evals(1);
        match transition(s, &self.pool[*a]) {
            Ok(ok) => {
                ctx.outcome("roundtrip_ok_id_preserved", 1);
                ctx.outcome(&format!("roundtrip_ok_{}", kind_name(&self.pool[*a])), 1);
                if ok.ctx.stat_allocated > 0 {
                    ctx.outcome("transition_allocated_new_registry_keys", 1);
                }
                if ok.ctx.stat_reused > 0 {
                    ctx.outcome("transition_reused_registry_keys", 1);
                }
                if ok.ctx.stat_wrapped > 0 {
                    ctx.outcome("transition_wrapped_past_MAX_WRITABLE", 1);
                }
                if ok.ctx.stat_default_key > 0 {
                    ctx.outcome("transition_used_DEFAULT_VALUE_key", 1);
                }
                let mut n = ok.ctx.clone();
                n.reset_stats();
                if n == *s {
                    ctx.outcome("transition_left_context_unchanged", 1);
                }
                ctx.fp(hash64(&(self.key(s), *a)));
                if path.len() + 1 <= 2 && ctx.want_sample() && ok.ctx.stat_wrapped > 0 {
                    let mut h = path.to_vec();
                    h.push(*a);
                    ctx.sample(json!({"history": h, "last": POOL_NAMES[*a], "id": format!("{:x}", ok.id),
                        "compressed_postcard_len": ok.compressed_postcard.len(), "compressed": ok.compressed_debug,
                        "keys_allocated": ok.ctx.stat_allocated, "keys_reused": ok.ctx.stat_reused,
                        "default_key_uses": ok.ctx.stat_default_key, "tables_wrapped": ok.ctx.stat_wrapped,
                        "next_keys_after": ok.ctx.tables.iter().map(|(k, t)| (k.to_string(), format!("{:#08x}", t.next))).collect::<BTreeMap<_, _>>(),
                        "verdict": "id and all non-skipped fields preserved"}));
                }
                Some(n)
            }
            Err(f) => {
                let mut h = path.to_vec();
                h.push(*a);
                ctx.outcome("roundtrip_failed", 1);
                ctx.violation(
                    f.key,
                    format!("history {:?} (last: {}): {}", h, POOL_NAMES[*a], f.what),
                    json!({"part": "history", "history": h}),
                );
                None
            }
        }
    }

    fn key(&self, s: &RegCtx) -> RegCtx {
        s.clone()
    }

    fn check(&self, s: &RegCtx, path: &[usize], ctx: &Ctx) {
        // "cannot be written to": the reserved key never appears in a table
        let reserved = RegistryKey::DEFAULT_VALUE.as_u32();
        for (name, t) in &s.tables {
            if t.by_key.contains_key(&reserved) || t.next == reserved {
                ctx.violation(
                    "C07:registry:default-key-written",
                    format!("after history {path:?} table {name} holds / is about to hand out the reserved key {reserved:#x}"),
                    json!({"part": "history", "history": path}),
                );
            }
        }
    }
}

// ------------------------------------------------------------------ RegistryKey::next over all keys

const KEYS: u64 = 1 << 24;

#[derive(Default)]
struct KeyAcc {
    ok: u64,
    wrapped: u64,
    default_panicked: u64,
    viols: Vec<(String, String, u64)>,
}

fn check_key(k: u64, acc: &mut KeyAcc) {
    let raw = k as u32;
    let reserved = (KEYS - 1) as u32;
    let mut push = |class: &str, what: String| {
        if acc.viols.len() < 4 {
            acc.viols.push((format!("C07:RegistryKey::next:{class}"), what, k));
        }
    };
    let key = match RegistryKey::try_from(raw) {
        Ok(key) => key,
        Err(e) => return push("construct", format!("RegistryKey::try_from({raw:#x}) failed: {e}")),
    };
    let be = raw.to_be_bytes();
    if key.as_ref() != &be[1..] || key.as_u32() != raw {
        return push("representation", format!("key {raw:#x} has bytes {:?} / as_u32 {:#x}", key.as_ref(), key.as_u32()))
    }
    let r = guard::catch_any(|| key.next());
    if raw == reserved {
        match r {
            Err(_) => acc.default_panicked += 1,
            Ok(n) => push("default-has-successor", format!("next(DEFAULT_VALUE) returned {:#x}; the documentation says it panics", n.as_u32())),
        }
        return
    }
    let expect = ((k + 1) % (KEYS - 1)) as u32;
    match r {
        Err(m) => push("panic", format!("next({raw:#x}) panicked: {m}")),
        Ok(n) if n == RegistryKey::DEFAULT_VALUE || n.as_u32() == reserved => {
            push("default-yielded", format!("next({raw:#x}) yields the reserved default key"))
        }
        Ok(n) if n.as_u32() != expect => push(
            if expect == 0 { "wrap" } else { "successor" },
            format!("next({raw:#x}) = {:#x}, expected {expect:#x} = (k+1) mod (2^24-1)", n.as_u32()),
        ),
        Ok(_) => {
            acc.ok += 1;
            if expect == 0 {
                acc.wrapped += 1;
            }
        }
    }
}

fn explore_keys(ctx: &Ctx) {
    space::par_chunks(
        KEYS,
        1 << 16,
        KeyAcc::default,
        |k, acc| check_key(k, acc),
        |acc| {
            ctx.evals(acc.ok + acc.default_panicked + acc.viols.len() as u64);
            ctx.outcome("next_is_successor_mod_2^24-1", acc.ok);
            ctx.outcome("next_wrapped_to_ZERO", acc.wrapped);
            ctx.outcome("next_of_DEFAULT_VALUE_panics", acc.default_panicked);
            for (key, what, k) in acc.viols {
                ctx.violation(key, what, json!({"part": "key", "k": k}));
            }
        },
    );
    ctx.fp(hash64(&"RegistryKey::next ordinary"));
    ctx.fp(hash64(&"RegistryKey::next wrap"));
    ctx.fp(hash64(&"RegistryKey::next reserved"));
    ctx.sample(json!({"part": "RegistryKey::next", "next(0xfffffd)": format!("{:#x}", RegistryKey::try_from(0xfffffdu32).unwrap().next().as_u32()),
        "next(MAX_WRITABLE=0xfffffe)": format!("{:#x}", RegistryKey::MAX_WRITABLE.next().as_u32()),
        "next(DEFAULT_VALUE=0xffffff)": "panics", "verdict": "matches (k+1) mod (2^24-1)"}));
}

// ------------------------------------------------------------------ driver

fn explore(ctx: &Ctx) {
    ctx.rule(
        "breadth-first exploration of the compression context: from every distinct context reached, each of the 12 \
         pool transactions is registered, compressed, postcard-round-tripped and decompressed against that context \
         (depth 5 quick / up to 12 = until no new context appears, thorough; contexts reached by several histories are merged, the transition is a \
         deterministic function of (context, transaction)); plus RegistryKey::next on all 2^24 keys. A transition \
         is non-trivial when compression, the postcard round trip and decompression all succeeded and produced a \
         transaction; distinct = distinct (context, transaction) pairs (+3 key classes)",
    );
    ctx.assume("the harness context returns for a coin / message exactly the chain data registered for it (the statement's \"context holding the same referenced data\"); pool transactions give each UTXO id / nonce one consistent set of chain data");
    ctx.assume("RegistryKey::DEFAULT_VALUE stands for the table type's default value and is never written (key.rs docs); the harness registry maps default values to it");
    ctx.assume("the list of deliberately skipped fields in visit_skipped (malleable or chain-recoverable fields) is the intended one");
    ctx.set(
        "dont_care",
        json!([
            "which of {default, original value} a deliberately skipped field comes back as (the statement allows both; the id clause decides where it matters)",
            "whether re-compressing a known transaction leaves the context unchanged (reported as transition_left_context_unchanged)",
            "cached metadata of the decompressed transaction (ignored by Eq)",
            "validity of the pool transactions (compression is defined on all values)",
            "the concrete compressed layout / its size",
        ]),
    );
    let pool = pool();
    match pool_self_check(&pool) {
        Ok(n) => ctx.set("pool_self_check", json!({"field_paths": n, "result": "every field path, kind, variant and policy is non-default in at least one pool transaction"})),
        Err(e) => panic!("C07 pool self-check failed (machinery error, fix the pool): {e}"),
    }
    let chain = chain_id();
    ctx.set(
        "pool",
        json!(pool.iter().enumerate().map(|(i, t)| json!({"idx": i, "tx": POOL_NAMES[i], "id": format!("{:x}", t.id(&chain)),
            "skipped_fields": skipped_values(t).len(), "skipped_fields_non_default": skipped_values(t).iter().filter(|s| !s.2).count()})).collect::<Vec<_>>()),
    );
    ctx.set(
        "registry",
        json!({"tables": TABLES, "first_key_per_table": TABLES.iter().zip(START_OFFSETS).map(|(t, o)| (t.to_string(), format!("{:#x}", RegistryKey::MAX_WRITABLE.as_u32() - o))).collect::<BTreeMap<_, _>>(),
               "MAX_WRITABLE": format!("{:#x}", RegistryKey::MAX_WRITABLE.as_u32()), "DEFAULT_VALUE": format!("{:#x}", RegistryKey::DEFAULT_VALUE.as_u32())}),
    );
    let depth = ctx.pick(5usize, 12usize);
    let model = Compression { pool };
    let stats = bfs(&model, depth, u64::MAX, ctx);
    let bfs_wall = ctx.elapsed();
    // histories of length <= completed depth (all lengths once the frontier is empty)
    let histories: u64 = (0..=stats.completed_depth.min(depth) as u32).map(|d| 12u64.pow(d)).sum();
    ctx.set(
        "bfs",
        json!({"depth": depth, "completed_depth": stats.completed_depth, "distinct_contexts": stats.states, "transitions": stats.transitions,
               "contexts_per_depth": stats.per_depth, "ordered_histories_covered": histories, "capped": stats.capped, "wall_s": bfs_wall,
               "reachable_context_set_complete": stats.per_depth.last() == Some(&0)}),
    );
    if ctx.sample_count() == 0 {
        // always leave at least one written-out transition
        if let Ok(ok) = transition(&RegCtx::new(), &model.pool[1]) {
            ctx.sample(json!({"history": [1], "last": POOL_NAMES[1], "id": format!("{:x}", ok.id), "compressed": ok.compressed_debug,
                "registry_entries": ok.ctx.registry_size(), "verdict": "id and all non-skipped fields preserved"}));
        }
    }

    explore_keys(ctx);
    ctx.set("registry_key_next", json!({"keys": KEYS, "oracle": "next(k) == (k+1) mod (2^24-1) for k != 2^24-1; never DEFAULT_VALUE; next(DEFAULT_VALUE) panics"}));
}

fn replay(case: &Value, ctx: &Ctx) {
    match case["part"].as_str() {
        Some("key") => {
            let mut acc = KeyAcc::default();
            check_key(case["k"].as_u64().expect("k"), &mut acc);
            for (key, what, k) in acc.viols {
                ctx.violation(key, what, json!({"part": "key", "k": k}));
            }
        }
        _ => {
            let history: Vec<usize> = case["history"]
                .as_array()
                .expect("history")
                .iter()
                .map(|v| v.as_u64().expect("index") as usize)
                .collect();
            let model = Compression { pool: pool() };
            replay_path(&model, &history, ctx);
        }
    }
}

fn main() {
    run_check("C07", Level::ModelChecking, explore, replay)
}
