//! C23 — VM memory behaves like a zero-initialised array with two regions.
//!
//! Explicit-state model check. Every transition is a call into the real
//! `fuel_vm::interpreter::MemoryInstance` (cloned per successor); next to it runs a
//! flat reference {sparse bytes, stack extent, hp}. The `$sp`/`$hp` register values
//! are driver-held state (the VM lowers `$sp` without shrinking the stack buffer and
//! `grow_heap_by` is bounded by `$sp`).
//!
//! Space
//!   Model "small" (vcore::bfs, deduplicated by the canonical key): all action
//!     sequences up to depth D over
//!       GrowStack(to)   to in STACK ∪ {hp+1, MEM+1}            (the last two are refused)
//!       SetSp(to)       to in {0, 8, extent}, to <= extent
//!       GrowHeap(by)    by in HEAP ∪ {hp-sp+1, hp+1}           (the last two are refused)
//!       Write(a,len,p)  a in {0, ext-len, ext-len+1, hp-1, hp, MEM-len, MEM-len+1}, len in {1,8}
//!       Memcopy(d,s,l)  d,s in {0, 8, ext-l, hp-1, hp, hp+8}, l in {0,1,8,9}   (every overlap shape)
//!       Reset, Snapshot (clone of instance + registers + reference), Rollback
//!       (collect_rollback_data(snapshot) then rollback).
//!   Model "huge": base states = all distinct states up to depth B over a reduced
//!     alphabet built around `$sp` lowering and snapshots (GrowStack{8,100}, SetSp,
//!     Snapshot, Rollback, Write(ext-8,8), GrowHeap(8), Write(hp,8)); from every base
//!     state whose `$sp`+42 lies below the stack extent (and from the initial state)
//!     ONE allocation that brings hp down to `$sp`+42, i.e. below an earlier stack
//!     extent, and from every base of depth <= 1 (thorough: 2) one allocation down to
//!     `$sp` itself; after it every sequence of <= T actions from a tail alphabet
//!     (rollback, growth at the new boundaries, writes/copies across the stack/heap
//!     seam, reset; 9 letters quick, 17 thorough).
//!     States with a 64 MiB buffer are never stored, merged or snapshotted; HUGE_PAR
//!     tails run at once; 64 MiB blocks are recycled by a pooling allocator.
//! Bounds: quick   small D=4, huge B=3 T=1, small D=5 (same alphabet);
//!         thorough small D=6, huge B=4 T=2 (T=1 for bases of depth 4), small D=5 over
//!         the wider alphabet (stack {8,100,255,256,257}, heap +4096, two patterns).
//! Oracle (written from the statement, not from the code): memory is a flat array of
//!   MEM zero bytes; [a,a+len) is accessible iff a+len <= MEM and (a+len <= extent or
//!   a >= hp); extent = highest stack growth since reset, cut down to hp when the heap
//!   passes it; heap growth zeroes [new hp, old hp); a copy is performed iff both
//!   ranges are accessible and share no byte, otherwise refused and memory unchanged;
//!   reset = all zero, extent 0, hp MEM; rollback = the snapshot's reference.
//!   On every distinct state: full content of both regions equals the reference, and
//!   for a probe set (all region boundaries {0,sp,extent,hp,MEM,buffer offset, snapshot
//!   extent/hp} +-1 x lens {0,1,8} plus out-of-range values) verify/read succeed
//!   exactly when the reference says accessible and return the reference bytes.
//! Scope: a snapshot is discarded by Reset (rollback across a reset violates a
//!   documented precondition of the rollback API).

use fuel_asm::PanicReason;
use fuel_vm::{
    constraints::reg_key::{
        Reg,
        RegMut,
    },
    consts::{
        MEM_SIZE,
        VM_MAX_RAM,
    },
    interpreter::{
        MemoryInstance,
        OwnershipRegisters,
    },
};
use rayon::prelude::*;
use serde::{
    Deserialize,
    Serialize,
};
use std::{
    alloc::{
        GlobalAlloc,
        Layout,
        System,
    },
    collections::{
        BTreeMap,
        BTreeSet,
        HashSet,
    },
    sync::{
        atomic::{
            AtomicBool,
            AtomicU64,
            Ordering,
        },
        Arc,
        Mutex,
    },
};
use vcore::{
    bfs::{
        self,
        Model,
    },
    guard,
    json,
    run::hash64,
    run_check,
    Ctx,
    Level,
    Value,
};

// ------------------------------------------------------------------ allocator
// The huge tails clone 64 MiB buffers thousands of times. With the system allocator
// every such clone is a fresh mmap (first-touch page faults dominate, seconds per
// clone on a loaded VM). Blocks of >= 16 MiB are therefore recycled through a small
// pool; everything else goes straight to the system allocator.

struct PoolAlloc;
const BIG: usize = 16 << 20;
const POOL_SLOTS: usize = 44;
static POOL: Mutex<[(usize, usize, usize); POOL_SLOTS]> = Mutex::new([(0, 0, 0); POOL_SLOTS]);

impl PoolAlloc {
    fn take(l: Layout) -> Option<*mut u8> {
        let mut g = POOL.lock().unwrap_or_else(|e| e.into_inner());
        for slot in g.iter_mut() {
            if slot.0 != 0 && slot.1 == l.size() && slot.2 == l.align() {
                let p = slot.0 as *mut u8;
                *slot = (0, 0, 0);
                return Some(p)
            }
        }
        None
    }

    fn put(p: *mut u8, l: Layout) -> bool {
        let mut g = POOL.lock().unwrap_or_else(|e| e.into_inner());
        for slot in g.iter_mut() {
            if slot.0 == 0 {
                *slot = (p as usize, l.size(), l.align());
                return true
            }
        }
        false
    }
}

unsafe impl GlobalAlloc for PoolAlloc {
    unsafe fn alloc(&self, l: Layout) -> *mut u8 {
        if l.size() >= BIG {
            if let Some(p) = Self::take(l) {
                return p
            }
        }
        unsafe { System.alloc(l) }
    }

    unsafe fn dealloc(&self, p: *mut u8, l: Layout) {
        if l.size() >= BIG && Self::put(p, l) {
            return
        }
        unsafe { System.dealloc(p, l) }
    }

    unsafe fn alloc_zeroed(&self, l: Layout) -> *mut u8 {
        if l.size() >= BIG {
            if let Some(p) = Self::take(l) {
                unsafe { std::ptr::write_bytes(p, 0, l.size()) };
                return p
            }
        }
        unsafe { System.alloc_zeroed(l) }
    }

    unsafe fn realloc(&self, p: *mut u8, l: Layout, new_size: usize) -> *mut u8 {
        if l.size() >= BIG || new_size >= BIG {
            unsafe {
                let nl = Layout::from_size_align_unchecked(new_size, l.align());
                let np = self.alloc(nl);
                if !np.is_null() {
                    std::ptr::copy_nonoverlapping(p, np, l.size().min(new_size));
                    self.dealloc(p, l);
                }
                np
            }
        } else {
            unsafe { System.realloc(p, l, new_size) }
        }
    }
}

#[global_allocator]
static GLOBAL: PoolAlloc = PoolAlloc;

const MEM: usize = MEM_SIZE;
const MEMW: u64 = VM_MAX_RAM;
/// A buffer longer than this makes a state "huge" (never stored / snapshotted).
const HUGE_LEN: usize = 1 << 22;
/// Threads running huge tails (each holds one or two 64 MiB copies, plus the shared parents).
const HUGE_PAR: usize = 10;

#[derive(Debug, Clone, Serialize, Deserialize, PartialEq, Eq, Hash)]
enum Act {
    GrowStack(u64),
    SetSp(u64),
    GrowHeap(u64),
    Write { addr: u64, len: u64, pat: u8 },
    Memcopy { dst: u64, src: u64, len: u64 },
    Reset,
    Snapshot,
    Rollback,
}

const KINDS: [&str; 8] = [
    "growstack",
    "setsp",
    "growheap",
    "write",
    "memcopy",
    "reset",
    "snapshot",
    "rollback",
];

fn kind(a: &Act) -> usize {
    match a {
        Act::GrowStack(_) => 0,
        Act::SetSp(_) => 1,
        Act::GrowHeap(_) => 2,
        Act::Write { .. } => 3,
        Act::Memcopy { .. } => 4,
        Act::Reset => 5,
        Act::Snapshot => 6,
        Act::Rollback => 7,
    }
}

// ------------------------------------------------------------------ outcome counters

const RES: [&str; 8] = [
    "Ok",
    "Err(MemoryOverflow)",
    "Err(MemoryGrowthOverlap)",
    "Err(UninitalizedMemoryAccess)",
    "Err(MemoryWriteOverlap)",
    "Err(MemoryOwnership)",
    "Err(other)",
    "nothing-to-roll-back",
];
const SHARDS: usize = 17;
#[allow(clippy::declare_interior_mutable_const)]
const Z: AtomicU64 = AtomicU64::new(0);
#[allow(clippy::declare_interior_mutable_const)]
const ZR: [AtomicU64; 8] = [Z; 8];
#[allow(clippy::declare_interior_mutable_const)]
const ZK: [[AtomicU64; 8]; 8] = [ZR; 8];
static CNT: [[[AtomicU64; 8]; 8]; SHARDS] = [ZK; SHARDS];
/// probe outcomes: accessible-ok, refused-ok, dont-care(accepted), dont-care(refused)
static PROBES: [AtomicU64; 4] = [Z; 4];
static HUGE_STATES: AtomicU64 = AtomicU64::new(0);
static HUGE_BASES: AtomicU64 = AtomicU64::new(0);
static OVERTAKES: AtomicU64 = AtomicU64::new(0);

fn res_idx(r: &Result<(), PanicReason>) -> usize {
    match r {
        Ok(()) => 0,
        Err(PanicReason::MemoryOverflow) => 1,
        Err(PanicReason::MemoryGrowthOverlap) => 2,
        Err(PanicReason::UninitalizedMemoryAccess) => 3,
        Err(PanicReason::MemoryWriteOverlap) => 4,
        Err(PanicReason::MemoryOwnership) => 5,
        Err(_) => 6,
    }
}

fn count(k: usize, r: usize) {
    let shard = rayon::current_thread_index().map(|i| i % (SHARDS - 1)).unwrap_or(SHARDS - 1);
    CNT[shard][k][r].fetch_add(1, Ordering::Relaxed);
}

// ------------------------------------------------------------------ reference model

/// Flat zero-initialised array (only non-zero bytes stored) with two regions.
#[derive(Clone, Hash, PartialEq, Eq)]
struct RefMem {
    bytes: BTreeMap<usize, u8>,
    /// highest stack extent not yet overtaken by the heap
    ext: usize,
    hp: usize,
}

#[derive(Clone, Copy, PartialEq, Eq, Debug)]
enum Acc {
    Yes,
    No,
    /// empty range strictly between the regions: the statement does not say
    DontCare,
}

impl RefMem {
    fn new() -> Self {
        RefMem {
            bytes: BTreeMap::new(),
            ext: 0,
            hp: MEM,
        }
    }

    fn acc(&self, a: u64, len: u64) -> Acc {
        let end = match a.checked_add(len) {
            Some(e) if e <= MEMW => e as usize,
            _ => return Acc::No,
        };
        let a = a as usize;
        if len == 0 {
            if a <= self.ext || a >= self.hp {
                Acc::Yes
            } else {
                Acc::DontCare
            }
        } else if end <= self.ext || a >= self.hp {
            Acc::Yes
        } else {
            Acc::No
        }
    }

    fn get(&self, a: usize) -> u8 {
        self.bytes.get(&a).copied().unwrap_or(0)
    }

    fn set(&mut self, a: usize, v: u8) {
        if v == 0 {
            self.bytes.remove(&a);
        } else {
            self.bytes.insert(a, v);
        }
    }

    fn zero(&mut self, lo: usize, hi: usize) {
        let ks: Vec<usize> = self.bytes.range(lo..hi).map(|(k, _)| *k).collect();
        for k in ks {
            self.bytes.remove(&k);
        }
    }
}

fn pat_byte(addr: usize, pat: u8) -> u8 {
    ((addr.wrapping_mul(7).wrapping_add(pat as usize * 101)) % 255) as u8 + 1
}

// ------------------------------------------------------------------ state

struct Snap {
    mem: MemoryInstance,
    sp: u64,
    hp_reg: u64,
    refm: RefMem,
    id: u64,
}

struct St {
    mem: MemoryInstance,
    sp: u64,
    hp_reg: u64,
    refm: RefMem,
    snap: Option<Arc<Snap>>,
    /// set by `check` after a reported violation: the state is not expanded further
    bad: AtomicBool,
}

impl St {
    fn fork(&self) -> St {
        St {
            mem: self.mem.clone(),
            sp: self.sp,
            hp_reg: self.hp_reg,
            refm: self.refm.clone(),
            snap: self.snap.clone(),
            bad: AtomicBool::new(false),
        }
    }

    fn is_huge(&self) -> bool {
        self.mem.heap_raw().len() > HUGE_LEN || self.mem.stack_raw().len() > HUGE_LEN
    }
}

/// The heap pointer held inside the instance is private; its Debug output ends with
/// it. Used only for the canonical key (hidden state), never for a verdict.
fn hidden_hp(m: &MemoryInstance) -> u64 {
    let Ok(s) = guard::catch_any(|| format!("{m:?}")) else {
        return u64::MAX - 1
    };
    s.rsplit("hp: ")
        .next()
        .and_then(|t| t.trim_end_matches([' ', '}']).parse::<u64>().ok())
        .unwrap_or(u64::MAX)
}

fn real_hash(m: &MemoryInstance) -> u64 {
    hash64(&(m.stack_raw(), m.heap_raw(), hidden_hp(m)))
}

/// An owner that owns every address, so that accessibility (not ownership, which is
/// C24) decides the outcome of write/memcopy.
fn all_owner(hp: u64) -> OwnershipRegisters {
    OwnershipRegisters::verif_new(MEMW, 0, hp, MEMW)
}

// ------------------------------------------------------------------ model

struct Cfg {
    name: &'static str,
    stack_sizes: Vec<u64>,
    heap_sizes: Vec<u64>,
    write_lens: Vec<u64>,
    pats: Vec<u8>,
    mc_lens: Vec<u64>,
    /// false: reduced base alphabet of model "huge"
    full: bool,
    /// model "huge": remember every distinct state as a base for the huge tails
    collect_bases: bool,
    /// model "huge": full tail alphabet (thorough) or its 9-letter core (quick)
    wide_tail: bool,
    /// model "huge": allocation down to `$sp` itself from bases up to this depth
    plan_b_depth: usize,
}

type Key = (u64, u64, u64, u64, u64);

struct Mem {
    cfg: Cfg,
    bases: Mutex<Vec<(St, Vec<Act>)>>,
    early_merge: bool,
    seen: Vec<Mutex<HashSet<Key>>>,
    merged: AtomicU64,
}

fn viol(ctx: &Ctx, model: &str, class: &str, path: &[Act], what: String) {
    ctx.violation(
        format!("C23:{class}"),
        format!("after {path:?}: {what}"),
        json!({"model": model, "actions": path}),
    );
}

fn with(path: &[Act], a: &Act) -> Vec<Act> {
    let mut p = path.to_vec();
    p.push(a.clone());
    p
}

/// First address in `[base, base+sl.len())` where the real bytes differ from the reference.
fn first_mismatch(sl: &[u8], base: usize, r: &RefMem) -> Option<(usize, u8, u8)> {
    fn nonzero_at(s: &[u8]) -> Option<usize> {
        let mut it = s.chunks_exact(64);
        let mut off = 0usize;
        for c in &mut it {
            let mut acc = 0u64;
            for w in c.chunks_exact(8) {
                acc |= u64::from_ne_bytes(w.try_into().unwrap());
            }
            if acc != 0 {
                return c.iter().position(|b| *b != 0).map(|p| off.wrapping_add(p))
            }
            off = off.wrapping_add(64);
        }
        it.remainder().iter().position(|b| *b != 0).map(|p| off.wrapping_add(p))
    }
    let mut cur = 0usize; // offset into sl
    for (&addr, &val) in r.bytes.range(base..base.saturating_add(sl.len())) {
        let o = addr - base;
        if let Some(p) = nonzero_at(&sl[cur..o]) {
            return Some((base + cur + p, sl[cur + p], 0))
        }
        if sl[o] != val {
            return Some((addr, sl[o], val))
        }
        cur = o + 1;
    }
    nonzero_at(&sl[cur..]).map(|p| (base + cur + p, sl[cur + p], 0))
}

/// State invariants. Returns false after reporting a violation.
fn check_state(s: &St, path: &[Act], model: &str, ctx: &Ctx) -> bool {
    let last = path.last().map(|a| KINDS[kind(a)]).unwrap_or("init");
    let r = &s.refm;
    let mut ok = true;
    // 1. full accessible content of both regions
    for (region, lo, len) in [("stack", 0usize, r.ext), ("heap", r.hp, MEM - r.hp)] {
        if len == 0 {
            continue
        }
        let got = guard::catch_any(|| s.mem.read(lo, len).map(|sl| (sl.len(), first_mismatch(sl, lo, r))));
        match got {
            Ok(Ok((n, None))) if n == len => {}
            Ok(Ok((n, None))) => {
                ok = false;
                viol(ctx, model, "probe:read:length", path, format!("read({lo},{len}) returned {n} bytes"));
            }
            Ok(Ok((_, Some((addr, got, exp))))) => {
                ok = false;
                viol(
                    ctx,
                    model,
                    &format!("content:{region}:after-{last}"),
                    path,
                    format!(
                        "{region} byte at {addr} (MEM-{}) reads {got:#04x}, flat reference has {exp:#04x} [extent={} hp={} sp={}]",
                        MEM - addr,
                        r.ext,
                        r.hp,
                        s.sp
                    ),
                );
            }
            Ok(Err(e)) => {
                ok = false;
                viol(
                    ctx,
                    model,
                    &format!("probe:read:refused-accessible:{region}"),
                    path,
                    format!("read({lo},{len}) of the whole {region} refused with {e:?} [extent={} hp={}]", r.ext, r.hp),
                );
            }
            Err(m) => {
                ok = false;
                viol(ctx, model, "probe:panic", path, format!("read({lo},{len}) panicked: {m}"));
            }
        }
    }
    if !ok {
        return false
    }
    // 2. probe set
    let mut bounds: BTreeSet<u64> = BTreeSet::new();
    for b in [0u64, s.sp, r.ext as u64, r.hp as u64, MEMW, (MEM - s.mem.heap_raw().len().min(MEM)) as u64] {
        bounds.insert(b);
    }
    if let Some(sn) = &s.snap {
        bounds.insert(sn.refm.ext as u64);
        bounds.insert(sn.refm.hp as u64);
    }
    let mut starts: BTreeSet<u64> = BTreeSet::new();
    for b in bounds {
        for d in [-9i64, -8, -7, -1, 0, 1] {
            if let Some(a) = b.checked_add_signed(d) {
                starts.insert(a);
            }
        }
    }
    let mut probes: Vec<(u64, u64)> = Vec::with_capacity(starts.len() * 3 + 6);
    for a in &starts {
        for len in [0u64, 1, 8] {
            probes.push((*a, len));
        }
    }
    probes.extend([(u64::MAX, 1), (1, u64::MAX), (u64::MAX, u64::MAX), (0, MEMW + 1), (1, MEMW), (0, MEMW)]);
    let mut pc = [0u64; 4];
    for (a, len) in probes {
        let acc = r.acc(a, len);
        let v = guard::catch_any(|| s.mem.verify(a, len).map(|rg| (rg.start(), rg.end())));
        let rd = guard::catch_any(|| s.mem.read(a, len).map(|sl| (sl.len(), if a <= MEMW { first_mismatch(sl, a as usize, r) } else { None })));
        let (v, rd) = match (v, rd) {
            (Ok(v), Ok(rd)) => (v, rd),
            (Err(m), _) | (_, Err(m)) => {
                viol(ctx, model, "probe:panic", path, format!("verify/read({a},{len}) panicked: {m}"));
                return false
            }
        };
        if v.is_ok() != rd.is_ok() {
            viol(ctx, model, "probe:verify-read-disagree", path, format!("verify({a},{len})={v:?} but read={:?}", rd.as_ref().map(|b| b.0)));
            return false
        }
        match (acc, v, rd) {
            (Acc::Yes, Ok((st, en)), Ok((n, mism))) => {
                if st as u64 != a || en as u64 != a + len || n as u64 != len {
                    viol(ctx, model, "probe:range", path, format!("verify({a},{len}) returned {st}..{en}, read {n} bytes"));
                    return false
                }
                if let Some((addr, got, exp)) = mism {
                    viol(
                        ctx,
                        model,
                        &format!("content:probe:after-{last}"),
                        path,
                        format!("read({a},{len}): byte at {addr} = {got:#04x}, reference {exp:#04x}"),
                    );
                    return false
                }
                pc[0] += 1;
            }
            (Acc::Yes, Err(e), _) => {
                viol(
                    ctx,
                    model,
                    "probe:refused-accessible",
                    path,
                    format!("verify({a},{len}) refused with {e:?} but the range is accessible [extent={} hp={} sp={}]", r.ext, r.hp, s.sp),
                );
                return false
            }
            (Acc::No, Ok(_), _) => {
                viol(
                    ctx,
                    model,
                    "probe:accepted-inaccessible",
                    path,
                    format!("verify({a},{len}) accepted but the range is not accessible [extent={} hp={} sp={}]", r.ext, r.hp, s.sp),
                );
                return false
            }
            (Acc::No, Err(_), _) => pc[1] += 1,
            (Acc::DontCare, Ok(_), _) => pc[2] += 1,
            (Acc::DontCare, Err(_), _) => pc[3] += 1,
            (Acc::Yes, Ok(_), Err(_)) => unreachable!("verify/read agreement checked above"),
        }
    }
    for i in 0..4 {
        PROBES[i].fetch_add(pc[i], Ordering::Relaxed);
    }
    true
}

impl Mem {
    fn new(cfg: Cfg) -> Self {
        Mem {
            cfg,
            bases: Mutex::new(Vec::new()),
            early_merge: false,
            seen: (0..64).map(|_| Mutex::new(HashSet::new())).collect(),
            merged: AtomicU64::new(0),
        }
    }

    /// For exploration (not replay): merge successors inside `step`.
    fn exploring(mut self) -> Self {
        self.early_merge = true;
        let k = self.key(&self.init());
        let shard = (k.0 ^ k.1) as usize % self.seen.len();
        self.seen[shard].lock().unwrap().insert(k);
        self
    }

    /// Apply one action to a copy of `s`, comparing the outcome class with the reference.
    fn apply(&self, s: &St, a: &Act, path: &[Act], ctx: &Ctx) -> Option<St> {
        let model = self.cfg.name;
        let k = kind(a);
        let mut n = s.fork();
        let huge = s.is_huge();
        // refused operations must leave the accessible memory unchanged
        let unchanged = |n: &St, what: &str| -> bool {
            if huge {
                // 64 MiB states are always content-checked against the (unchanged)
                // reference right after the step, which subsumes this comparison
                return true
            }
            match guard::catch_any(|| n.mem == s.mem) {
                Ok(true) => true,
                other => {
                    viol(
                        ctx,
                        model,
                        &format!("{}:refused-but-changed", KINDS[k]),
                        &with(path, a),
                        format!("{what} was refused but the accessible memory differs afterwards ({other:?})"),
                    );
                    false
                }
            }
        };
        match a {
            Act::GrowStack(to) => {
                let r = guard::catch_any(|| n.mem.grow_stack(*to));
                let exp_ok = *to <= n.refm.hp as u64;
                match r {
                    Err(m) => {
                        viol(ctx, model, "growstack:panic", &with(path, a), format!("grow_stack panicked: {m}"));
                        return None
                    }
                    Ok(res) => {
                        count(k, res_idx(&res));
                        match (res, exp_ok) {
                            (Ok(()), true) => {
                                n.refm.ext = n.refm.ext.max(*to as usize);
                                n.sp = *to;
                            }
                            (Err(_), false) => {
                                if !unchanged(&n, "grow_stack") {
                                    return None
                                }
                            }
                            (Ok(()), false) => {
                                viol(
                                    ctx,
                                    model,
                                    "growstack:accepted-over-heap",
                                    &with(path, a),
                                    format!("grow_stack({to}) accepted although hp={}", n.refm.hp),
                                );
                                return None
                            }
                            (Err(e), true) => {
                                viol(
                                    ctx,
                                    model,
                                    "growstack:refused",
                                    &with(path, a),
                                    format!("grow_stack({to}) refused with {e:?} although hp={}", n.refm.hp),
                                );
                                return None
                            }
                        }
                    }
                }
            }
            Act::SetSp(to) => {
                if *to as usize > n.refm.ext {
                    return None
                }
                count(k, 0);
                n.sp = *to;
            }
            Act::GrowHeap(by) => {
                let sp = n.sp;
                let mut hp = n.hp_reg;
                let r = guard::catch_any(|| n.mem.grow_heap_by(Reg::new(&sp), RegMut::new(&mut hp), *by));
                let old_hp = n.refm.hp;
                let exp_new = (old_hp as u64).checked_sub(*by).filter(|h| *h >= n.sp);
                match r {
                    Err(m) => {
                        viol(ctx, model, "growheap:panic", &with(path, a), format!("grow_heap_by panicked: {m}"));
                        return None
                    }
                    Ok(res) => {
                        count(k, res_idx(&res));
                        match (res, exp_new) {
                            (Ok(()), Some(new_hp)) => {
                                if hp != new_hp {
                                    viol(
                                        ctx,
                                        model,
                                        "growheap:hp-register",
                                        &with(path, a),
                                        format!("grow_heap_by({by}) left $hp={hp}, expected {new_hp}"),
                                    );
                                    return None
                                }
                                let new_hp = new_hp as usize;
                                if new_hp < n.refm.ext {
                                    OVERTAKES.fetch_add(1, Ordering::Relaxed);
                                }
                                n.refm.zero(new_hp, old_hp);
                                n.refm.ext = n.refm.ext.min(new_hp);
                                n.refm.hp = new_hp;
                                n.hp_reg = hp;
                            }
                            (Err(_), None) => {
                                if hp != n.hp_reg {
                                    viol(ctx, model, "growheap:hp-register", &with(path, a), format!("refused grow_heap_by({by}) changed $hp to {hp}"));
                                    return None
                                }
                                if !unchanged(&n, "grow_heap_by") {
                                    return None
                                }
                            }
                            (Ok(()), None) => {
                                viol(
                                    ctx,
                                    model,
                                    "growheap:accepted-below-sp",
                                    &with(path, a),
                                    format!("grow_heap_by({by}) accepted with hp={old_hp} sp={}", n.sp),
                                );
                                return None
                            }
                            (Err(e), Some(_)) => {
                                viol(
                                    ctx,
                                    model,
                                    "growheap:refused",
                                    &with(path, a),
                                    format!("grow_heap_by({by}) refused with {e:?} although hp={old_hp} sp={}", n.sp),
                                );
                                return None
                            }
                        }
                    }
                }
            }
            Act::Write { addr, len, pat } => {
                let acc = n.refm.acc(*addr, *len);
                let fill = |sl: &mut [u8]| -> usize {
                    for (i, b) in sl.iter_mut().enumerate() {
                        *b = pat_byte(*addr as usize + i, *pat);
                    }
                    sl.len()
                };
                let owner = all_owner(n.hp_reg);
                let r = guard::catch_any(|| n.mem.write(owner, *addr, *len).map(fill));
                // same through the unchecked entry point (skipped for 64 MiB states)
                if !huge {
                    let mut c = s.mem.clone();
                    let r2 = guard::catch_any(|| c.write_noownerchecks(*addr, *len).map(fill));
                    let same = match (&r, &r2) {
                        (Ok(a1), Ok(a2)) => a1.is_ok() == a2.is_ok() && guard::catch_any(|| c == n.mem) == Ok(true),
                        _ => true, // panics are reported below
                    };
                    if !same {
                        viol(
                            ctx,
                            model,
                            "write:noownerchecks-differs",
                            &with(path, a),
                            format!("write={r:?} write_noownerchecks={r2:?} or different memory"),
                        );
                        return None
                    }
                }
                match r {
                    Err(m) => {
                        viol(ctx, model, "write:panic", &with(path, a), format!("write panicked: {m}"));
                        return None
                    }
                    Ok(res) => {
                        count(k, res_idx(&res.map(|_| ())));
                        match (res, acc) {
                            (Ok(l), Acc::Yes) => {
                                if l as u64 != *len {
                                    viol(ctx, model, "write:length", &with(path, a), format!("write({addr},{len}) returned a slice of {l}"));
                                    return None
                                }
                                for i in 0..*len as usize {
                                    n.refm.set(*addr as usize + i, pat_byte(*addr as usize + i, *pat));
                                }
                            }
                            (Err(_), Acc::No) => {
                                if !unchanged(&n, "write") {
                                    return None
                                }
                            }
                            (_, Acc::DontCare) => {}
                            (Ok(_), Acc::No) => {
                                viol(
                                    ctx,
                                    model,
                                    "write:accepted-inaccessible",
                                    &with(path, a),
                                    format!("write({addr},{len}) accepted [extent={} hp={}]", n.refm.ext, n.refm.hp),
                                );
                                return None
                            }
                            (Err(e), Acc::Yes) => {
                                viol(
                                    ctx,
                                    model,
                                    "write:refused-accessible",
                                    &with(path, a),
                                    format!("write({addr},{len}) refused with {e:?} [extent={} hp={}]", n.refm.ext, n.refm.hp),
                                );
                                return None
                            }
                        }
                    }
                }
            }
            Act::Memcopy { dst, src, len } => {
                let (ad, asrc) = (n.refm.acc(*dst, *len), n.refm.acc(*src, *len));
                let owner = all_owner(n.hp_reg);
                let r = guard::catch_any(|| n.mem.memcopy(*dst, *src, *len, owner));
                let share = *len > 0 && *dst < src.saturating_add(*len) && *src < dst.saturating_add(*len);
                // expectation: Some(true) must copy, Some(false) must refuse, None don't-care
                let exp = if ad == Acc::No || asrc == Acc::No {
                    Some(false)
                } else if ad == Acc::DontCare || asrc == Acc::DontCare {
                    None
                } else {
                    Some(!share)
                };
                match r {
                    Err(m) => {
                        viol(ctx, model, "memcopy:panic", &with(path, a), format!("memcopy panicked: {m}"));
                        return None
                    }
                    Ok(res) => {
                        count(k, res_idx(&res));
                        match (res, exp) {
                            (Ok(()), Some(true)) => {
                                let data: Vec<u8> = (0..*len as usize).map(|i| n.refm.get(*src as usize + i)).collect();
                                for (i, b) in data.into_iter().enumerate() {
                                    n.refm.set(*dst as usize + i, b);
                                }
                            }
                            (Err(_), Some(false)) => {
                                if !unchanged(&n, "memcopy") {
                                    return None
                                }
                            }
                            (_, None) => {}
                            (Ok(()), Some(false)) => {
                                let class = if share && ad == Acc::Yes && asrc == Acc::Yes {
                                    "memcopy:overlap-accepted"
                                } else {
                                    "memcopy:inaccessible-accepted"
                                };
                                viol(
                                    ctx,
                                    model,
                                    class,
                                    &with(path, a),
                                    format!("memcopy(dst={dst},src={src},len={len}) accepted [extent={} hp={}]", n.refm.ext, n.refm.hp),
                                );
                                return None
                            }
                            (Err(e), Some(true)) => {
                                viol(
                                    ctx,
                                    model,
                                    "memcopy:refused",
                                    &with(path, a),
                                    format!(
                                        "memcopy(dst={dst},src={src},len={len}) between accessible disjoint ranges refused with {e:?} [extent={} hp={}]",
                                        n.refm.ext, n.refm.hp
                                    ),
                                );
                                return None
                            }
                        }
                    }
                }
            }
            Act::Reset => {
                if let Err(m) = guard::catch_any(|| n.mem.reset()) {
                    viol(ctx, model, "reset:panic", &with(path, a), format!("reset panicked: {m}"));
                    return None
                }
                count(k, 0);
                n.refm = RefMem::new();
                n.sp = 0;
                n.hp_reg = MEMW;
                n.snap = None;
            }
            Act::Snapshot => {
                if huge {
                    return None
                }
                count(k, 0);
                let id = hash64(&(real_hash(&n.mem), n.sp, n.hp_reg, &n.refm));
                n.snap = Some(Arc::new(Snap {
                    mem: n.mem.clone(),
                    sp: n.sp,
                    hp_reg: n.hp_reg,
                    refm: n.refm.clone(),
                    id,
                }));
            }
            Act::Rollback => {
                let snap = s.snap.clone()?;
                let r = guard::catch_any(|| {
                    let d = n.mem.collect_rollback_data(&snap.mem);
                    if let Some(d) = &d {
                        n.mem.rollback(d);
                    }
                    d.is_some()
                });
                match r {
                    Err(m) => {
                        viol(ctx, model, "rollback:panic", &with(path, a), format!("collect_rollback_data/rollback panicked: {m}"));
                        return None
                    }
                    Ok(some) => count(k, if some { 0 } else { 7 }),
                }
                n.refm = snap.refm.clone();
                n.sp = snap.sp;
                n.hp_reg = snap.hp_reg;
            }
        }
        Some(n)
    }

    /// Allocations that need a 64 MiB heap buffer, with the tail length to explore
    /// after each: (A) down to `$sp`+42 whenever that passes below the current stack
    /// extent (and once from the initial state), (B) down to `$sp` itself (the refusal
    /// boundary of grow_heap_by) from bases of depth <= 2.
    fn huge_plan(&self, s: &St, path: &[Act], tails: &[usize]) -> Vec<(Act, usize)> {
        let mut v = vec![];
        let hp = s.refm.hp as u64;
        let t = tails[path.len().min(tails.len() - 1)];
        if (s.sp + 42 < s.refm.ext as u64 || path.is_empty()) && hp > s.sp + 42 {
            v.push((Act::GrowHeap(hp - (s.sp + 42)), t));
        }
        if path.len() <= self.cfg.plan_b_depth && hp > s.sp {
            v.push((Act::GrowHeap(hp - s.sp), t.saturating_sub(1)));
        }
        v
    }

    /// Tail alphabet after the huge allocation (hp is now a small address).
    fn tail_actions(&self, s: &St) -> Vec<Act> {
        let (ext, hp) = (s.refm.ext as u64, s.refm.hp as u64);
        let wide = self.cfg.wide_tail;
        let mut v = vec![];
        if s.snap.is_some() {
            v.push(Act::Rollback);
        }
        v.push(Act::GrowStack(hp));
        v.push(Act::GrowStack(hp + 1));
        if wide {
            v.push(Act::GrowHeap(1));
        }
        v.push(Act::GrowHeap(8));
        v.push(Act::GrowHeap(hp.saturating_sub(s.sp) + 1));
        if wide {
            v.push(Act::Write { addr: ext.saturating_sub(8), len: 8, pat: 1 });
            v.push(Act::Write { addr: ext.saturating_sub(7), len: 8, pat: 1 });
        }
        v.push(Act::Write { addr: hp.saturating_sub(1), len: 8, pat: 1 });
        v.push(Act::Write { addr: hp, len: 8, pat: 1 });
        if wide {
            v.push(Act::Write { addr: MEMW - 8, len: 8, pat: 1 });
        }
        v.push(Act::Memcopy { dst: hp, src: 0, len: 8 });
        if wide {
            v.push(Act::Memcopy { dst: 0, src: hp, len: 8 });
            v.push(Act::Memcopy { dst: hp, src: hp + 7, len: 8 });
            v.push(Act::Memcopy { dst: hp.saturating_sub(1), src: MEMW - 8, len: 8 });
            if s.sp != 0 {
                v.push(Act::SetSp(0));
            }
        }
        v.push(Act::Reset);
        v.dedup();
        v
    }

    fn tail_rec(&self, s: &St, path: &[Act], left: usize, ctx: &Ctx) {
        if left == 0 || ctx.out_of_time() {
            return
        }
        // siblings run in parallel on the tails' thread pool (each holds one 64 MiB copy)
        self.tail_actions(s).par_iter().for_each(|a| {
            if let Some(n) = self.apply(s, a, path, ctx) {
                let p = with(path, a);
                HUGE_STATES.fetch_add(1, Ordering::Relaxed);
                ctx.add_transitions(1);
                ctx.evals(1);
                if check_state(&n, &p, self.cfg.name, ctx) {
                    ctx.fp_of(&(2u8, &n.refm, n.sp, n.snap.as_ref().map(|x| x.id)));
                    if matches!(a, Act::Rollback) && n.refm.ext > s.refm.ext && SAMPLED_HUGE.swap(true, Ordering::Relaxed) == false {
                        ctx.sample(json!({"model": self.cfg.name, "actions": p, "note": "heap overtook the snapshot's stack extent, rollback restored it",
                            "extent_before_rollback": s.refm.ext, "extent_after": n.refm.ext, "hp_before": s.refm.hp, "hp_after": n.refm.hp}));
                    }
                    self.tail_rec(&n, &p, left - 1, ctx);
                }
            }
        });
    }

    fn run_tail(&self, s: &St, path: &[Act], tails: &[usize], ctx: &Ctx) {
        HUGE_BASES.fetch_add(1, Ordering::Relaxed);
        for (hv, tail) in self.huge_plan(s, path, tails) {
            if ctx.out_of_time() {
                break
            }
            if let Some(h) = self.apply(s, &hv, path, ctx) {
                let p = with(path, &hv);
                HUGE_STATES.fetch_add(1, Ordering::Relaxed);
                ctx.add_transitions(1);
                ctx.evals(1);
                if check_state(&h, &p, self.cfg.name, ctx) {
                    ctx.fp_of(&(2u8, &h.refm, h.sp, h.snap.as_ref().map(|x| x.id)));
                    self.tail_rec(&h, &p, tail, ctx);
                }
            }
        }
    }
}

static SAMPLED_HUGE: AtomicBool = AtomicBool::new(false);
static SAMPLED: [AtomicBool; 3] = [const { AtomicBool::new(false) }; 3];

impl Model for Mem {
    type State = St;
    type Action = Act;
    /// (hash of raw buffers incl. stale bytes and hidden hp, hash of the reference,
    ///  $sp, $hp, snapshot id)
    type Key = Key;

    fn init(&self) -> St {
        St {
            mem: MemoryInstance::new(),
            sp: 0,
            hp_reg: MEMW,
            refm: RefMem::new(),
            snap: None,
            bad: AtomicBool::new(false),
        }
    }

    fn actions(&self, s: &St) -> Vec<Act> {
        if s.bad.load(Ordering::Relaxed) || s.is_huge() {
            return vec![]
        }
        let c = &self.cfg;
        let (ext, hp, sp) = (s.refm.ext as u64, s.refm.hp as u64, s.sp);
        let mut v = vec![];
        for to in &c.stack_sizes {
            v.push(Act::GrowStack(*to));
        }
        for to in [0, 8, ext] {
            if to <= ext && to != sp {
                v.push(Act::SetSp(to));
            }
        }
        if s.snap.is_some() {
            v.push(Act::Rollback);
        }
        v.push(Act::Snapshot);
        if !c.full {
            // base alphabet of model "huge"
            v.push(Act::Write { addr: ext.saturating_sub(8), len: 8, pat: 0 });
            v.push(Act::GrowHeap(8));
            v.push(Act::Write { addr: hp, len: 8, pat: 0 });
            v.dedup();
            return v
        }
        for by in &c.heap_sizes {
            v.push(Act::GrowHeap(*by));
        }
        v.push(Act::Reset);
        // refused growth (cheap: nothing is allocated)
        v.push(Act::GrowStack(hp + 1));
        v.push(Act::GrowStack(MEMW + 1));
        v.push(Act::GrowHeap(hp - sp + 1));
        v.push(Act::GrowHeap(hp + 1));
        for len in &c.write_lens {
            for addr in [
                Some(0),
                ext.checked_sub(*len),
                (ext + 1).checked_sub(*len),
                hp.checked_sub(1),
                Some(hp),
                Some(MEMW - *len),
                Some(MEMW - *len + 1),
            ]
            .into_iter()
            .flatten()
            {
                for pat in &c.pats {
                    v.push(Act::Write { addr, len: *len, pat: *pat });
                }
            }
        }
        for len in &c.mc_lens {
            let classes: Vec<u64> = [Some(0), Some(8), ext.checked_sub(*len), hp.checked_sub(1), Some(hp), Some(hp + 8)]
                .into_iter()
                .flatten()
                .collect();
            for dst in &classes {
                for src in &classes {
                    v.push(Act::Memcopy { dst: *dst, src: *src, len: *len });
                }
            }
        }
        // drop duplicates (classes can coincide), keep first occurrence order
        let mut seen = HashSet::new();
        v.retain(|a| seen.insert(a.clone()));
        v
    }

    fn step(&self, s: &St, a: &Act, path: &[Act], ctx: &Ctx) -> Option<St> {
        let n = self.apply(s, a, path, ctx)?;
        if self.early_merge {
            // vcore::bfs materialises every successor of a level before merging; most
            // transitions here lead to a state already seen (refused operations are
            // self-loops), so merge at once to keep memory proportional to distinct states.
            let k = self.key(&n);
            let shard = (k.0 ^ k.1) as usize % self.seen.len();
            if !self.seen[shard].lock().unwrap().insert(k) {
                self.merged.fetch_add(1, Ordering::Relaxed);
                return None
            }
        }
        Some(n)
    }

    fn key(&self, s: &St) -> Self::Key {
        (
            real_hash(&s.mem),
            hash64(&s.refm),
            s.sp,
            s.hp_reg,
            s.snap.as_ref().map(|x| x.id).unwrap_or(0),
        )
    }

    fn check(&self, s: &St, path: &[Act], ctx: &Ctx) {
        ctx.evals(1);
        if !check_state(s, path, self.cfg.name, ctx) {
            s.bad.store(true, Ordering::Relaxed);
            return
        }
        let r = &s.refm;
        if r.ext > 0 || r.hp < MEM {
            ctx.fp_of(&(self.cfg.full, r, s.sp, s.snap.as_ref().map(|x| x.id)));
        }
        if self.cfg.full && path.len() >= 4 {
            // three written-out real cases: heap reuse after reset, rollback that shrinks
            // the heap, a performed cross-region copy
            let has = |f: &dyn Fn(&Act) -> bool| path.iter().any(f);
            let pick = if has(&|a| matches!(a, Act::Reset)) && r.hp < MEM && path.iter().position(|a| matches!(a, Act::Write { .. })) < path.iter().position(|a| matches!(a, Act::Reset)) && has(&|a| matches!(a, Act::Write { .. })) {
                Some(0)
            } else if matches!(path.last(), Some(Act::Rollback)) && !r.bytes.is_empty() && has(&|a| matches!(a, Act::GrowHeap(b) if *b > 0 && *b < 4096)) {
                Some(1)
            } else if matches!(path.last(), Some(Act::Memcopy { dst, src, len }) if *len == 8 && *dst >= r.hp as u64 && (*src as usize) < r.ext) && r.bytes.len() >= 16 {
                Some(2)
            } else {
                None
            };
            if let Some(i) = pick {
                if !SAMPLED[i].swap(true, Ordering::Relaxed) {
                    ctx.sample(json!({
                        "model": self.cfg.name, "actions": path,
                        "state": {"extent": r.ext, "hp": r.hp, "sp": s.sp, "nonzero_bytes": r.bytes.len(),
                                  "stack_buffer": s.mem.stack_raw().len(), "heap_buffer": s.mem.heap_raw().len()},
                        "checked": "full content of both regions + boundary probe set against the flat reference"
                    }));
                }
            }
        }
        if self.cfg.collect_bases {
            self.bases.lock().unwrap().push((s.fork(), path.to_vec()));
        }
    }
}

// ------------------------------------------------------------------ driver

fn small_cfg(thorough: bool) -> Cfg {
    Cfg {
        name: "small",
        stack_sizes: if thorough { vec![8, 100, 255, 256, 257] } else { vec![8, 100] },
        heap_sizes: if thorough { vec![0, 1, 8, 255, 256, 257, 4096] } else { vec![0, 1, 8, 255, 256, 257] },
        write_lens: vec![1, 8],
        pats: if thorough { vec![0, 1] } else { vec![0] },
        mc_lens: vec![0, 1, 8, 9],
        full: true,
        collect_bases: false,
        wide_tail: false,
        plan_b_depth: 0,
    }
}

fn huge_cfg(collect_bases: bool, thorough: bool) -> Cfg {
    Cfg {
        name: "huge",
        stack_sizes: vec![8, 100],
        heap_sizes: vec![],
        write_lens: vec![],
        pats: vec![],
        mc_lens: vec![],
        full: false,
        collect_bases,
        wide_tail: thorough,
        plan_b_depth: if thorough { 2 } else { 1 },
    }
}

fn run_small(ctx: &Ctx, label: &str, cfg: Cfg, depth: usize, max_states: u64) {
    let small = Mem::new(cfg).exploring();
    let t0 = ctx.elapsed();
    let st = bfs::bfs(&small, depth, max_states, ctx);
    let merged = small.merged.load(Ordering::Relaxed);
    ctx.add_transitions(merged);
    ctx.set(
        label,
        json!({
            "wall_s": ctx.elapsed() - t0, "depth": st.completed_depth, "capped": st.capped, "states": st.states, "transitions": st.transitions + merged, "per_depth": st.per_depth,
            "alphabet": {
                "GrowStack": small.cfg.stack_sizes, "GrowStack_refused": ["hp+1", "MEM+1"],
                "SetSp": ["0", "8", "extent"],
                "GrowHeap": small.cfg.heap_sizes, "GrowHeap_refused": ["hp-sp+1", "hp+1"],
                "Write": {"addr": ["0", "ext-len", "ext-len+1", "hp-1", "hp", "MEM-len", "MEM-len+1"], "len": small.cfg.write_lens, "patterns": small.cfg.pats},
                "Memcopy": {"dst,src": ["0", "8", "ext-len", "hp-1", "hp", "hp+8"], "len": small.cfg.mc_lens},
                "other": ["Reset", "Snapshot", "Rollback"]
            }
        }),
    );
}

fn explore(ctx: &Ctx) {
    ctx.rule(
        "model 'small': BFS over the real MemoryInstance, states merged by (raw stack buffer, raw heap buffer incl. stale \
         bytes and over-allocation, hidden hp, $sp, $hp, reference, snapshot); model 'huge': every distinct base state x \
         {allocate down to $sp+42, down to $sp} x all tail sequences (not merged). A state is non-trivial when at least \
         one region is non-empty; distinct = distinct (reference contents, extent, hp, $sp, snapshot)",
    );
    ctx.assume("the driver keeps $hp equal to the value grow_heap_by wrote back and $sp <= stack extent (as the VM does)");
    ctx.assume("write/memcopy are called with an owner that owns every address (ownership is C24)");
    ctx.assume("a snapshot is discarded by Reset; no snapshot is taken of a state holding a 64 MiB buffer");
    ctx.set(
        "dont_care",
        json!([
            "which PanicReason a refused operation reports",
            "empty ranges that start strictly between the stack extent and hp (accepted or refused)",
            "contents of inaccessible bytes and buffer over-allocation (only used in the state key)",
            "result of memcopy of length 0 when one of its (empty) ranges lies strictly between the regions"
        ]),
    );
    let thorough = ctx.thorough();

    // ---- model "small", first pass (cheap, always completes)
    run_small(ctx, "small", small_cfg(false), ctx.pick(4, 6), 3_000_000);

    // ---- model "huge": collect base states, then run the 64 MiB tails from each,
    // shallowest bases first, on a small thread pool (bounded resident memory)
    let (base_depth, tails): (usize, Vec<usize>) = ctx.pick((3, vec![1, 1, 1, 1]), (4, vec![2, 2, 2, 2, 1]));
    let huge = Mem::new(huge_cfg(true, thorough)).exploring();
    let t0 = ctx.elapsed();
    let sh = bfs::bfs(&huge, base_depth, 1_000_000, ctx);
    let mut bases = std::mem::take(&mut *huge.bases.lock().unwrap());
    bases.sort_by_cached_key(|(_, p)| (p.len(), format!("{p:?}")));
    let pool = rayon::ThreadPoolBuilder::new().num_threads(HUGE_PAR).build().expect("thread pool");
    let mut tails_done = vec![0u64; base_depth + 1];
    for d in 0..=base_depth {
        let level: Vec<&(St, Vec<Act>)> = bases.iter().filter(|(_, p)| p.len() == d).collect();
        if ctx.out_of_time() {
            ctx.cap(format!("huge tails stopped before base depth {d} by the time budget"));
            break
        }
        pool.install(|| {
            level.par_iter().for_each(|(s, p)| huge.run_tail(s, p, &tails, ctx));
        });
        if ctx.out_of_time() {
            ctx.cap(format!("huge tails of base depth {d} cut short by the time budget"));
            break
        }
        tails_done[d] = level.len() as u64;
    }
    let hs = json!({
        "wall_s": ctx.elapsed() - t0, "base_depth": sh.completed_depth, "base_states": sh.states, "base_per_depth": sh.per_depth,
        "tail_len_by_base_depth": tails, "bases_completed_per_depth": tails_done,
        "bases_visited": HUGE_BASES.load(Ordering::Relaxed),
        "huge_states_checked": HUGE_STATES.load(Ordering::Relaxed),
    });
    ctx.set(
        "huge",
        json!({
            "run": hs,
            "base_alphabet": {"GrowStack": [8, 100], "SetSp": ["0", "8", "extent"], "Write": ["(ext-8, 8)", "(hp, 8)"], "GrowHeap": [8], "other": ["Snapshot", "Rollback"]},
            "huge_actions": ["A: GrowHeap(hp-($sp+42)) from every base with $sp+42 < extent, and from the initial state",
                format!("B: GrowHeap(hp-$sp) from every base of depth <= {}, tail one shorter", huge.cfg.plan_b_depth)],
            "tail_alphabet_wide": huge.cfg.wide_tail,
            "tail_alphabet_core": ["Rollback", "GrowStack(hp)", "GrowStack(hp+1)", "GrowHeap(8)", "GrowHeap(hp-sp+1)", "Write(hp-1,8)", "Write(hp,8)", "Memcopy(hp<-0,8)", "Reset"],
            "tail_alphabet": ["Rollback", "GrowStack(hp)", "GrowStack(hp+1)", "GrowHeap(1)", "GrowHeap(8)", "GrowHeap(hp-sp+1)",
                "Write(ext-8,8)", "Write(ext-7,8)", "Write(hp-1,8)", "Write(hp,8)", "Write(MEM-8,8)",
                "Memcopy(hp<-0,8)", "Memcopy(0<-hp,8)", "Memcopy(hp<-hp+7,8)", "Memcopy(hp-1<-MEM-8,8)", "SetSp(0)", "Reset"],
            "allocations_that_overtook_a_stack_extent": OVERTAKES.load(Ordering::Relaxed),
            "max_concurrent_tails": HUGE_PAR,
        }),
    );

    // ---- model "small", deeper / wider pass with whatever budget is left
    run_small(ctx, "small_deep", small_cfg(thorough), 5, 6_000_000);

    // ---- outcome histogram
    for k in 0..8 {
        for r in 0..8 {
            let n: u64 = (0..SHARDS).map(|s| CNT[s][k][r].load(Ordering::Relaxed)).sum();
            if n > 0 {
                ctx.outcome(&format!("{}:{}", KINDS[k], RES[r]), n);
            }
        }
    }
    for (i, l) in ["probe:accessible+bytes-equal", "probe:refused-as-required", "probe:dont-care-accepted", "probe:dont-care-refused"].iter().enumerate() {
        ctx.outcome(l, PROBES[i].load(Ordering::Relaxed));
    }
}

fn replay(case: &Value, ctx: &Ctx) {
    let acts: Vec<Act> = serde_json::from_value(case["actions"].clone()).expect("actions");
    // same step function and state oracle; tails are not re-enumerated (the recorded
    // action list already contains the huge allocation and its tail)
    let cfg = match case["model"].as_str() {
        Some("small") => small_cfg(ctx.thorough()),
        Some("huge") => huge_cfg(false, true),
        other => panic!("unknown model {other:?}"),
    };
    bfs::replay_path(&Mem::new(cfg), &acts, ctx);
}

fn main() {
    run_check("C23", Level::ModelChecking, explore, replay)
}
