//! C18 — Fee and refund arithmetic is monotone and bounded by the fee limit.
//!
//! Space (full product, `vcore::space::Product` + `par_chunks`; nothing is sampled):
//!   gas schedule {free, unit, default}
//!   x transaction shape (11 hand-built shapes: every chargeable kind — Script,
//!     Create, Upgrade(state transition / consensus parameters), Upload, Blob —
//!     with 0/1/3 witnesses, signed inputs (also two sharing one witness), predicate
//!     inputs with declared predicate gas, a script gas limit of u64::MAX and a
//!     declared predicate gas of u64::MAX-1000 so that max_gas resp. min_gas sit at
//!     the saturation boundary)
//!   x gas price {0,1,2,2^32,u64::MAX-1,u64::MAX}
//!   x gas price factor {1,2,3,10^9,u64::MAX}
//!   x gas_per_byte {0,1,u64::MAX}
//!   x tip {none,0,1,u64::MAX}
//!   x witness limit {none,0,exact,exact+1,u64::MAX}   (exact = witnesses.size_dynamic())
//!   x fee limit {0,1,F-1,F,F+1,u64::MAX}               (F = exact max fee, clamped to u64)
//!   and for every such configuration the used-gas ladder
//!     {0..=16} u {a-1,a,a+1} u {b-1,b,b+1} u {s-1,s,s+1} u {u64::MAX-1,u64::MAX}
//!   a = max_gas-min_gas (gas actually available), b = largest used gas whose fee still
//!   fits under the limit (break-even), s = u64::MAX-min_gas (last value for which
//!   min_gas+used is a u64). The thorough tier widens every scalar alphabet.
//!
//! Bound: the alphabets above; transaction bodies are fixed per shape.
//!
//! Oracle (exact unsigned big integers, `vcore::oracle::Big`; nothing from fuel-tx):
//!   gas = what `Chargeable::{min_gas,max_gas}` report (the statement does not define
//!   how gas is metered, only how fees follow from it).
//!   * no call panics;
//!   * min_gas <= max_gas;
//!   * min_fee == ceil(min_gas*price/factor)+tip, max_fee likewise (u128 results always
//!     fit: (2^64-1)^2+2^64-1 < 2^128); min_fee <= max_fee;
//!   * `TransactionFee::checked_from_tx`: Some(f) => f carries exactly those four
//!     numbers (never a wrong Some, never a Some when a fee exceeds u64);
//!     None only when a fee exceeds u64 ("None if arithmetic overflow occurs");
//!   * refund_fee(used) == limit - (ceil((min_gas+used)*price/factor)+tip) when that is
//!     >= 0, else None — with min_gas+used taken exactly (not saturated); when that sum
//!     exceeds u64::MAX a None is accepted as well, a Some must still be the exact value;
//!     consecutive ladder entries: refund non-increasing (None = nothing left, it may
//!     not be followed by Some); refund <= limit;
//!   * `Checked::into_ready(price, costs, fee_params, None)` is Ok iff the exact max fee
//!     <= fee limit (`Checked` obtained through `into_checked_basic` under permissive
//!     consensus parameters; configurations that `into_checked_basic` refuses, e.g.
//!     witness limit below the witness size, are counted and skipped for this clause).
//! Don't-cares: which error `into_ready` returns; `Ready` contents; how gas itself is
//! metered.
//!
//! Keys: `C18:<api>:<class>`. Refund mismatches are split into `C18:refund_fee:value`
//! (min_gas+used is a u64) and `C18:refund_fee:value:min_gas+used>u64::MAX` (the sum
//! leaves u64). On the unchanged tree the latter fires: `refund_fee` computes
//! `min_gas.saturating_add(used_gas)`, so the fee is under-estimated and a refund that
//! is too large (or Some(0) instead of None) is returned, e.g. min_gas 280, used
//! u64::MAX-279, price 1, factor 1, limit u64::MAX -> Some(0), exact fee 2^64 > limit.

use fuel_tx::{
    field::{
        Policies as PoliciesField,
        Witnesses as WitnessesField,
    },
    policies::Policies,
    Blob,
    Chargeable,
    ConsensusParameters,
    Create,
    CreateMetadata,
    FeeParameters,
    GasCosts,
    Input,
    Output,
    Script,
    StorageSlot,
    Transaction,
    TransactionFee,
    TxParameters,
    TxPointer,
    Upgrade,
    UpgradePurpose,
    Upload,
    UploadSubsection,
    UtxoId,
    Witness,
};
use fuel_types::{
    canonical::Serialize as CanonicalSerialize,
    Address,
    AssetId,
    BlockHeight,
    Bytes32,
    Nonce,
    Salt,
};
use fuel_vm::checked_transaction::{
    CheckError,
    IntoChecked,
};
use serde::{
    Deserialize,
    Serialize,
};
use std::{
    collections::{
        BTreeMap,
        HashSet,
    },
    sync::atomic::{
        AtomicBool,
        Ordering,
    },
};
use vcore::{
    guard,
    json,
    oracle::Big,
    run::hash64,
    run_check,
    space::{
        par_chunks,
        Product,
    },
    Ctx,
    Level,
    Value,
};

const MAX: u64 = u64::MAX;

// ------------------------------------------------------------------ shapes

#[derive(Clone)]
enum Tx {
    Script(Script),
    Create(Create),
    Upgrade(Upgrade),
    Upload(Upload),
    Blob(Blob),
}

macro_rules! with_tx {
    ($t:expr, $x:ident => $body:expr) => {
        match $t {
            Tx::Script($x) => $body,
            Tx::Create($x) => $body,
            Tx::Upgrade($x) => $body,
            Tx::Upload($x) => $body,
            Tx::Blob($x) => $body,
        }
    };
}

struct Shape {
    name: &'static str,
    kind: &'static str,
    tx: Tx,
}

fn owner() -> Address {
    Address::from([0x11; 32])
}

fn utxo(i: u8) -> UtxoId {
    UtxoId::new(Bytes32::from([i; 32]), i as u16)
}

fn pred_coin(i: u8, amount: u64, gas: u64, pred_len: usize, data_len: usize) -> Input {
    Input::coin_predicate(
        utxo(i),
        owner(),
        amount,
        AssetId::BASE,
        TxPointer::default(),
        gas,
        vec![0x24; pred_len],
        vec![0x07; data_len],
    )
}

fn signed_coin(i: u8, amount: u64, widx: u16) -> Input {
    Input::coin_signed(utxo(i), owner(), amount, AssetId::BASE, TxPointer::default(), widx)
}

fn wit(len: usize) -> Witness {
    vec![0xabu8; len].into()
}

fn shapes() -> Vec<Shape> {
    let p = Policies::new;
    let mut v = Vec::new();

    // 0: the smallest chargeable script: one predicate input, no witnesses
    v.push(Shape {
        name: "script/pred/0w",
        kind: "script",
        tx: Tx::Script(Transaction::script(0, vec![], vec![], p(), vec![pred_coin(1, MAX, 0, 1, 0)], vec![], vec![])),
    });
    // 1: signed input, one witness, script gas limit 1e6, change output
    v.push(Shape {
        name: "script/signed/1w",
        kind: "script",
        tx: Tx::Script(Transaction::script(
            1_000_000,
            vec![0x24, 0, 0, 0, 0x24, 0, 0, 0],
            vec![1, 2, 3],
            p(),
            vec![signed_coin(1, MAX, 0)],
            vec![Output::change(owner(), 0, AssetId::BASE)],
            vec![wit(64)],
        )),
    });
    // 2: two signed coins sharing witness 0, a signed message coin on witness 2,
    //    a predicate coin declaring 1000 gas, a data-message predicate declaring 77 gas
    v.push(Shape {
        name: "script/mixed/3w",
        kind: "script",
        tx: Tx::Script(Transaction::script(
            10,
            vec![0x24, 0, 0, 0],
            vec![9; 5],
            p(),
            vec![
                signed_coin(1, MAX, 0),
                signed_coin(2, 0, 0),
                Input::message_coin_signed(owner(), owner(), 0, Nonce::from([3; 32]), 2),
                pred_coin(4, 0, 1000, 24, 5),
                Input::message_data_predicate(owner(), owner(), 0, Nonce::from([5; 32]), 77, vec![1, 2, 3, 4], vec![0x24; 12], vec![]),
            ],
            vec![],
            vec![wit(64), wit(0), wit(9)],
        )),
    });
    // 3: script gas limit u64::MAX: max_gas saturates, min_gas does not
    v.push(Shape {
        name: "script/gaslimit=max/0w",
        kind: "script",
        tx: Tx::Script(Transaction::script(MAX, vec![0x24, 0, 0, 0], vec![], p(), vec![pred_coin(1, MAX, 5, 4, 0)], vec![], vec![])),
    });
    // 4: declared predicate gas u64::MAX-1000: min_gas sits just below / at saturation
    v.push(Shape {
        name: "script/predgas=max-1000/1w",
        kind: "script",
        tx: Tx::Script(Transaction::script(
            3,
            vec![],
            vec![],
            p(),
            vec![pred_coin(1, MAX, MAX - 1000, 8, 2), signed_coin(2, 0, 0)],
            vec![],
            vec![wit(64)],
        )),
    });
    // 5: create, bytecode witness only
    {
        let mut tx = Transaction::create(0, p(), Salt::from([2; 32]), vec![], vec![pred_coin(1, MAX, 10, 4, 0)], vec![], vec![wit(100)]);
        let m = CreateMetadata::compute(&tx).expect("create metadata");
        tx.outputs_mut_push(Output::contract_created(m.contract_id, m.state_root));
        v.push(Shape {
            name: "create/pred/1w",
            kind: "create",
            tx: Tx::Create(tx),
        });
    }
    // 6: create, 3 witnesses (signature, bytecode, spare), 2 storage slots
    {
        let slots = vec![
            StorageSlot::new(Bytes32::from([1; 32]), Bytes32::from([2; 32])),
            StorageSlot::new(Bytes32::from([3; 32]), Bytes32::from([4; 32])),
        ];
        let mut tx = Transaction::create(
            1,
            p(),
            Salt::from([7; 32]),
            slots,
            vec![signed_coin(1, MAX, 0), pred_coin(2, 0, 500, 16, 3)],
            vec![Output::change(owner(), 0, AssetId::BASE)],
            vec![wit(64), wit(40), wit(7)],
        );
        let m = CreateMetadata::compute(&tx).expect("create metadata");
        tx.outputs_mut_push(Output::contract_created(m.contract_id, m.state_root));
        v.push(Shape {
            name: "create/signed+pred/3w/2slots",
            kind: "create",
            tx: Tx::Create(tx),
        });
    }
    // 7: upgrade (state transition), no witnesses
    v.push(Shape {
        name: "upgrade/state-transition/0w",
        kind: "upgrade",
        tx: Tx::Upgrade(Transaction::upgrade(
            UpgradePurpose::StateTransition {
                root: Bytes32::from([9; 32]),
            },
            p(),
            vec![pred_coin(1, MAX, 20, 4, 0)],
            vec![],
            vec![],
        )),
    });
    // 8: upgrade (consensus parameters): the serialized parameters are witness 0
    v.push(Shape {
        name: "upgrade/consensus-params/1w",
        kind: "upgrade",
        tx: Tx::Upgrade(
            Transaction::upgrade_consensus_parameters(&ConsensusParameters::standard(), p(), vec![pred_coin(1, MAX, 20, 4, 0)], vec![], vec![])
                .expect("upgrade tx"),
        ),
    });
    // 9: upload: subsection 1 of 4 (64 bytes each) as witness 2, a signed input on witness 0
    {
        let code: Vec<u8> = (0..250u32).map(|i| i as u8).collect();
        let subs = UploadSubsection::split_bytecode(&code, 64).expect("split");
        let tx = Transaction::upload_from_subsection(
            subs[1].clone(),
            p(),
            vec![signed_coin(1, MAX, 0), pred_coin(2, 0, 33, 4, 1)],
            vec![],
            vec![wit(64), wit(1)],
        );
        v.push(Shape {
            name: "upload/signed+pred/3w",
            kind: "upload",
            tx: Tx::Upload(tx),
        });
    }
    // 10: blob, payload is the only witness
    v.push(Shape {
        name: "blob/pred/1w",
        kind: "blob",
        tx: Tx::Blob(Transaction::blob_from_bytes(vec![0x5a; 50], p(), vec![pred_coin(1, MAX, 0, 4, 0)], vec![], vec![])),
    });
    v
}

trait PushOutput {
    fn outputs_mut_push(&mut self, o: Output);
}
impl PushOutput for Create {
    fn outputs_mut_push(&mut self, o: Output) {
        use fuel_tx::field::Outputs;
        self.outputs_mut().push(o);
    }
}

struct Env {
    shapes: Vec<Shape>,
    scheds: Vec<(&'static str, GasCosts)>,
    /// Permissive parameters used only to obtain a `Checked` value.
    lenient: ConsensusParameters,
}

fn env() -> Env {
    let mut lenient = ConsensusParameters::standard();
    lenient.set_tx_params(TxParameters::DEFAULT.with_max_gas_per_tx(MAX).with_max_size(1 << 24));
    lenient.set_gas_costs(GasCosts::free());
    lenient.set_fee_params(FeeParameters::DEFAULT.with_gas_price_factor(1).with_gas_per_byte(0));
    lenient.set_base_asset_id(AssetId::BASE);
    lenient.set_block_gas_limit(MAX);
    lenient.set_privileged_address(owner());
    Env {
        shapes: shapes(),
        scheds: vec![("free", GasCosts::free()), ("unit", GasCosts::unit()), ("default", GasCosts::default())],
        lenient,
    }
}

// ------------------------------------------------------------------ configuration

/// One fully explicit grid point; also the replay case.
#[derive(Serialize, Deserialize, Clone, Debug)]
struct Cfg {
    schedule: String,
    shape: String,
    gas_price: u64,
    gas_price_factor: u64,
    gas_per_byte: u64,
    tip: Option<u64>,
    witness_limit: Option<u64>,
    fee_limit: u64,
    /// ascending used-gas values
    used: Vec<u64>,
}

fn fee_params(c: &Cfg) -> FeeParameters {
    FeeParameters::DEFAULT.with_gas_price_factor(c.gas_price_factor).with_gas_per_byte(c.gas_per_byte)
}

fn policies(tip: Option<u64>, wl: Option<u64>, limit: u64) -> Policies {
    let mut p = Policies::new().with_max_fee(limit);
    if let Some(t) = tip {
        p = p.with_tip(t);
    }
    if let Some(w) = wl {
        p = p.with_witness_limit(w);
    }
    p
}

fn with_policies<T: PoliciesField + Clone>(t: &T, p: Policies) -> T {
    let mut t = t.clone();
    *t.policies_mut() = p;
    t
}

// ------------------------------------------------------------------ observation (all calls into the subject)

type R<T> = Result<T, String>;

#[derive(Debug, Clone, Hash)]
struct Obs {
    min_gas: R<u64>,
    max_gas: R<u64>,
    min_fee: R<u128>,
    max_fee: R<u128>,
    /// (min_fee, max_fee, min_gas, max_gas) of `TransactionFee::checked_from_tx`
    tf: R<Option<(u64, u64, u64, u64)>>,
    refunds: Vec<R<Option<u64>>>,
    /// Err(reason) when `into_checked_basic` refused; Ok(into_ready outcome) otherwise
    ready: Result<R<Result<(), String>>, String>,
}

fn check_error_label(e: &CheckError) -> String {
    match e {
        CheckError::InsufficientMaxFee { .. } => "InsufficientMaxFee".into(),
        CheckError::Validity(v) => format!("Validity({})", format!("{v:?}").split(['{', '(', ' ']).next().unwrap_or("")),
        CheckError::PredicateVerificationFailed(_) => "PredicateVerificationFailed".into(),
    }
}

fn observe<T>(base: &T, c: &Cfg, gc: &GasCosts, lenient: &ConsensusParameters) -> Obs
where
    T: Chargeable + IntoChecked + PoliciesField + Clone,
{
    let tx = with_policies(base, policies(c.tip, c.witness_limit, c.fee_limit));
    let fp = fee_params(c);
    let price = c.gas_price;
    let min_gas = guard::catch_any(|| tx.min_gas(gc, &fp));
    let max_gas = guard::catch_any(|| tx.max_gas(gc, &fp));
    let min_fee = guard::catch_any(|| tx.min_fee(gc, &fp, price));
    let max_fee = guard::catch_any(|| tx.max_fee(gc, &fp, price));
    let tf = guard::catch_any(|| {
        TransactionFee::checked_from_tx(gc, &fp, &tx, price).map(|f| (f.min_fee(), f.max_fee(), f.min_gas(), f.max_gas()))
    });
    let refunds = c
        .used
        .iter()
        .map(|u| guard::catch_any(|| tx.refund_fee(gc, &fp, *u, price)))
        .collect();
    let checked = guard::catch_any(|| tx.clone().into_checked_basic(BlockHeight::from(0u32), lenient));
    let ready = match checked {
        Err(m) => Err(format!("into_checked_basic panicked: {m}")),
        Ok(Err(e)) => Err(check_error_label(&e)),
        Ok(Ok(ch)) => Ok(guard::catch_any(|| match ch.into_ready(price, gc, &fp, None) {
            Ok(_) => Ok(()),
            Err(e) => Err(check_error_label(&e)),
        })),
    };
    Obs {
        min_gas,
        max_gas,
        min_fee,
        max_fee,
        tf,
        refunds,
        ready,
    }
}

// ------------------------------------------------------------------ oracle (big integers only)

fn big(v: u64) -> Big {
    Big::from_u64(v)
}

fn ceil_div(n: &Big, d: &Big) -> Big {
    let (q, r) = n.divrem(d);
    if r.is_zero() {
        q
    } else {
        q.add(&Big::one())
    }
}

/// ceil(gas * price / factor) + tip
fn fee_exact(gas: &Big, price: u64, factor: u64, tip: u64) -> Big {
    ceil_div(&gas.mul(&big(price)), &big(factor)).add(&big(tip))
}

/// limit - fee when that is >= 0
fn refund_exact(limit: u64, fee: &Big) -> Option<u64> {
    let l = big(limit);
    if *fee <= l {
        Some(l.sub(fee).to_u64().expect("difference of u64 fits"))
    } else {
        None
    }
}

fn show(b: &Big) -> String {
    match b.to_u128() {
        Some(v) => v.to_string(),
        None => format!("0x{}", hex::encode(b.to_be(b.bits().div_ceil(8)))),
    }
}

// ------------------------------------------------------------------ counters

const LABELS: &[&str] = &[
    "gas:min<max",
    "gas:min==max",
    "gas:min_gas saturated at u64::MAX",
    "gas:max_gas saturated at u64::MAX",
    "checked_from_tx:Some",
    "checked_from_tx:None (a fee exceeds u64)",
    "refund:Some(>0)",
    "refund:Some(0)",
    "refund:None",
    "refund:min_gas+used exceeds u64",
    "into_ready:Ok",
    "into_ready:Ok at fee_limit == max_fee",
    "into_ready:Err(InsufficientMaxFee)",
    "into_ready:Err(InsufficientMaxFee) at fee_limit == max_fee-1",
    "into_ready:Err(Validity(BalanceOverflow))",
    "into_ready:Err(other)",
    "into_ready:skipped (into_checked_basic refused: witness limit)",
    "into_ready:skipped (into_checked_basic refused: other)",
];

fn lab(name: &str) -> usize {
    LABELS.iter().position(|l| *l == name).expect("label")
}

struct Acc {
    counts: Vec<u64>,
    evals: u64,
    fps: HashSet<u64>,
    /// first case per key (in index order) and number of further occurrences
    viols: Vec<(String, String, Value)>,
    more: BTreeMap<String, u64>,
    seen_keys: HashSet<String>,
    samples: Vec<Value>,
    per_shape_ready: BTreeMap<String, u64>,
}

impl Acc {
    fn new() -> Self {
        Acc {
            counts: vec![0; LABELS.len()],
            evals: 0,
            fps: HashSet::new(),
            viols: vec![],
            more: BTreeMap::new(),
            seen_keys: HashSet::new(),
            samples: vec![],
            per_shape_ready: BTreeMap::new(),
        }
    }
    fn hit(&mut self, l: &str) {
        self.counts[lab(l)] += 1;
    }
}

// ------------------------------------------------------------------ the check of one configuration

fn find<'a>(env: &'a Env, c: &Cfg) -> (&'a Shape, &'a GasCosts) {
    let shape = env.shapes.iter().find(|s| s.name == c.shape).unwrap_or_else(|| panic!("unknown shape {}", c.shape));
    let gc = &env.scheds.iter().find(|s| s.0 == c.schedule).unwrap_or_else(|| panic!("unknown schedule {}", c.schedule)).1;
    (shape, gc)
}

/// Runs the subject on `c`, compares with the oracle, reports through `viol(key, what, narrowed case)`.
fn check_cfg(env: &Env, c: &Cfg, acc: &mut Acc, viol: &mut dyn FnMut(String, String, Value)) -> Obs {
    let (shape, gc) = find(env, c);
    let o = with_tx!(&shape.tx, t => observe(t, c, gc, &env.lenient));
    let tip = c.tip.unwrap_or(0);
    let (price, factor, limit) = (c.gas_price, c.gas_price_factor, c.fee_limit);
    let case_with = |used: Vec<u64>| {
        let mut n = c.clone();
        n.used = used;
        serde_json::to_value(&n).expect("cfg json")
    };
    let ctxt = format!(
        "[{} / {} price={price} factor={factor} gas_per_byte={} tip={:?} witness_limit={:?} fee_limit={limit}]",
        c.schedule, c.shape, c.gas_per_byte, c.tip, c.witness_limit
    );

    // --- no panics
    macro_rules! nopanic {
        ($r:expr, $api:expr, $used:expr) => {
            if let Err(m) = &$r {
                viol(format!("C18:panic:{}", $api), format!("{} {} panicked: {m}", ctxt, $api), case_with($used));
            }
        };
    }
    nopanic!(o.min_gas, "min_gas", vec![]);
    nopanic!(o.max_gas, "max_gas", vec![]);
    nopanic!(o.min_fee, "min_fee", vec![]);
    nopanic!(o.max_fee, "max_fee", vec![]);
    nopanic!(o.tf, "checked_from_tx", vec![]);
    for (u, r) in c.used.iter().zip(&o.refunds) {
        nopanic!(r, "refund_fee", vec![*u]);
    }
    if let Ok(r) = &o.ready {
        nopanic!(r, "into_ready", vec![]);
    } else if let Err(m) = &o.ready {
        if m.starts_with("into_checked_basic panicked") {
            viol("C18:panic:into_checked_basic".into(), format!("{ctxt} {m}"), case_with(vec![]));
        }
    }

    let (Ok(mn), Ok(mx)) = (&o.min_gas, &o.max_gas) else {
        return o
    };
    let (mn, mx) = (*mn, *mx);

    // --- gas order
    if mn > mx {
        viol(
            format!("C18:gas_order:{}", shape.kind),
            format!("{ctxt} min_gas {mn} > max_gas {mx}"),
            case_with(vec![]),
        );
    } else if mn == mx {
        acc.hit("gas:min==max");
    } else {
        acc.hit("gas:min<max");
    }
    if mn == MAX {
        acc.hit("gas:min_gas saturated at u64::MAX");
    }
    if mx == MAX {
        acc.hit("gas:max_gas saturated at u64::MAX");
    }

    // --- fee formula
    let e_min = fee_exact(&big(mn), price, factor, tip);
    let e_max = fee_exact(&big(mx), price, factor, tip);
    if let Ok(f) = &o.min_fee {
        if Big::from_u128(*f) != e_min {
            viol(
                "C18:min_fee:formula".into(),
                format!("{ctxt} min_fee {f}, exact ceil({mn}*{price}/{factor})+{tip} = {}", show(&e_min)),
                case_with(vec![]),
            );
        }
    }
    if let Ok(f) = &o.max_fee {
        if Big::from_u128(*f) != e_max {
            viol(
                "C18:max_fee:formula".into(),
                format!("{ctxt} max_fee {f}, exact ceil({mx}*{price}/{factor})+{tip} = {}", show(&e_max)),
                case_with(vec![]),
            );
        }
    }
    if let (Ok(a), Ok(b)) = (&o.min_fee, &o.max_fee) {
        if a > b {
            viol("C18:fee_order".into(), format!("{ctxt} min_fee {a} > max_fee {b}"), case_with(vec![]));
        }
    }

    // --- TransactionFee::checked_from_tx
    let fits = e_min.to_u64().is_some() && e_max.to_u64().is_some();
    match &o.tf {
        Ok(Some((fmin, fmax, gmin, gmax))) => {
            acc.hit("checked_from_tx:Some");
            if !fits {
                viol(
                    "C18:checked_from_tx:some_on_overflow".into(),
                    format!("{ctxt} returned Some(min_fee {fmin}, max_fee {fmax}) although exact fees are {} / {}", show(&e_min), show(&e_max)),
                    case_with(vec![]),
                );
            } else if big(*fmin) != e_min || big(*fmax) != e_max {
                viol(
                    "C18:checked_from_tx:fee_value".into(),
                    format!("{ctxt} returned min_fee {fmin}, max_fee {fmax}; exact {} / {}", show(&e_min), show(&e_max)),
                    case_with(vec![]),
                );
            }
            if (*gmin, *gmax) != (mn, mx) {
                viol(
                    "C18:checked_from_tx:gas_value".into(),
                    format!("{ctxt} returned min_gas {gmin}, max_gas {gmax}; Chargeable reports {mn} / {mx}"),
                    case_with(vec![]),
                );
            }
            if fmin > fmax || gmin > gmax {
                viol(
                    "C18:checked_from_tx:order".into(),
                    format!("{ctxt} returned min_fee {fmin} max_fee {fmax} min_gas {gmin} max_gas {gmax}"),
                    case_with(vec![]),
                );
            }
        }
        Ok(None) => {
            acc.hit("checked_from_tx:None (a fee exceeds u64)");
            if fits && mn <= mx {
                viol(
                    "C18:checked_from_tx:spurious_none".into(),
                    format!("{ctxt} returned None although exact fees {} / {} fit u64", show(&e_min), show(&e_max)),
                    case_with(vec![]),
                );
            }
        }
        Err(_) => {}
    }

    // --- refunds
    let mut prev: Option<(u64, Option<u64>)> = None;
    for (u, r) in c.used.iter().zip(&o.refunds) {
        let Ok(got) = r else {
            prev = None;
            continue
        };
        let total = big(mn).add(&big(*u));
        let overflow = total.to_u64().is_none();
        let fee = fee_exact(&total, price, factor, tip);
        let exp = refund_exact(limit, &fee);
        if overflow {
            acc.hit("refund:min_gas+used exceeds u64");
        }
        match got {
            Some(0) => acc.hit("refund:Some(0)"),
            Some(_) => acc.hit("refund:Some(>0)"),
            None => acc.hit("refund:None"),
        }
        // when min_gas+used leaves u64 the API may give up (None, "Return None if overflow occurs");
        // a Some must still be the exact value
        if *got != exp && !(overflow && got.is_none()) {
            let key = if overflow {
                "C18:refund_fee:value:min_gas+used>u64::MAX"
            } else {
                "C18:refund_fee:value"
            };
            viol(
                key.into(),
                format!(
                    "{ctxt} refund_fee(used={u}) = {got:?}; exact {limit} - (ceil(({mn}+{u})*{price}/{factor})+{tip}) = {limit} - {} => {exp:?}",
                    show(&fee)
                ),
                case_with(vec![*u]),
            );
        }
        if let Some(g) = got {
            if *g > limit {
                viol(
                    "C18:refund_fee:exceeds_limit".into(),
                    format!("{ctxt} refund_fee(used={u}) = {g} > fee limit"),
                    case_with(vec![*u]),
                );
            }
        }
        if let Some((pu, pr)) = prev {
            let increasing = match (pr, got) {
                (_, None) => false,
                (None, Some(_)) => true,
                (Some(a), Some(b)) => *b > a,
            };
            if increasing {
                viol(
                    "C18:refund_fee:not_monotone".into(),
                    format!("{ctxt} refund_fee(used={pu}) = {pr:?} but refund_fee(used={u}) = {got:?}"),
                    case_with(vec![pu, *u]),
                );
            }
        }
        prev = Some((*u, *got));
    }

    // --- into_ready
    match &o.ready {
        Ok(Ok(res)) => {
            let expect_ok = e_max <= big(limit);
            *acc.per_shape_ready.entry(c.shape.clone()).or_insert(0) += 1;
            let at_boundary = e_max == big(limit);
            let just_below = e_max == big(limit).add(&Big::one());
            match res {
                Ok(()) => {
                    acc.hit("into_ready:Ok");
                    if at_boundary {
                        acc.hit("into_ready:Ok at fee_limit == max_fee");
                    }
                    if !expect_ok {
                        viol(
                            "C18:into_ready:accepted_above_limit".into(),
                            format!("{ctxt} into_ready Ok although exact max fee {} > fee limit {limit}", show(&e_max)),
                            case_with(vec![]),
                        );
                    }
                }
                Err(e) => {
                    match e.as_str() {
                        "InsufficientMaxFee" => {
                            acc.hit("into_ready:Err(InsufficientMaxFee)");
                            if just_below {
                                acc.hit("into_ready:Err(InsufficientMaxFee) at fee_limit == max_fee-1");
                            }
                        }
                        "Validity(BalanceOverflow)" => acc.hit("into_ready:Err(Validity(BalanceOverflow))"),
                        _ => acc.hit("into_ready:Err(other)"),
                    }
                    if expect_ok {
                        viol(
                            "C18:into_ready:rejected_within_limit".into(),
                            format!("{ctxt} into_ready Err({e}) although exact max fee {} <= fee limit {limit}", show(&e_max)),
                            case_with(vec![]),
                        );
                    }
                }
            }
        }
        Ok(Err(_)) => {}
        Err(reason) => {
            if reason.contains("TransactionWitnessLimitExceeded") {
                acc.hit("into_ready:skipped (into_checked_basic refused: witness limit)");
            } else {
                acc.hit("into_ready:skipped (into_checked_basic refused: other)");
            }
        }
    }
    o
}

// ------------------------------------------------------------------ grid -> configuration

struct Alphabets {
    prices: Vec<u64>,
    factors: Vec<u64>,
    gpb: Vec<u64>,
    tips: Vec<Option<u64>>,
    /// witness limit classes: none, 0, exact, exact+1, ... ; encoded as (is_some, offset from exact or absolute)
    wl: Vec<&'static str>,
    limits: Vec<&'static str>,
    small_used: u64,
}

fn alphabets(thorough: bool) -> Alphabets {
    if !thorough {
        Alphabets {
            prices: vec![0, 1, 2, 1 << 32, MAX - 1, MAX],
            factors: vec![1, 2, 3, 1_000_000_000, MAX],
            gpb: vec![0, 1, MAX],
            tips: vec![None, Some(0), Some(1), Some(MAX)],
            wl: vec!["none", "0", "exact", "exact+1", "max"],
            limits: vec!["0", "1", "F-1", "F", "F+1", "max"],
            small_used: 16,
        }
    } else {
        Alphabets {
            prices: vec![0, 1, 2, 3, 1_000_000_007, 1 << 32, (1 << 32) + 1, 1 << 63, MAX - 1, MAX],
            factors: vec![1, 2, 3, 7, 1_000_000_000, 1 << 32, (1 << 63) + 1, MAX - 1, MAX],
            gpb: vec![0, 1, 4, 1 << 32, MAX],
            tips: vec![None, Some(0), Some(1), Some(1 << 63), Some(MAX - 1), Some(MAX)],
            wl: vec!["none", "0", "exact-1", "exact", "exact+1", "exact+2^32", "max"],
            limits: vec!["0", "1", "F/2", "F-1", "F", "F+1", "max-1", "max"],
            small_used: 32,
        }
    }
}

fn resolve_wl(class: &str, exact: u64) -> Option<u64> {
    match class {
        "none" => None,
        "0" => Some(0),
        "exact-1" => Some(exact.saturating_sub(1)),
        "exact" => Some(exact),
        "exact+1" => Some(exact + 1),
        "exact+2^32" => Some(exact + (1 << 32)),
        "max" => Some(MAX),
        other => panic!("wl class {other}"),
    }
}

fn resolve_limit(class: &str, f: u64) -> u64 {
    match class {
        "0" => 0,
        "1" => 1,
        "F/2" => f / 2,
        "F-1" => f.saturating_sub(1),
        "F" => f,
        "F+1" => f.saturating_add(1),
        "max-1" => MAX - 1,
        "max" => MAX,
        other => panic!("limit class {other}"),
    }
}

/// Builds the explicit configuration for one grid index. The derived points (exact
/// witness size, F, a, b, s) only choose *where* to probe; verdicts come from `check_cfg`.
fn cfg_at(env: &Env, al: &Alphabets, space: &Product, idx: u64) -> Cfg {
    let d = space.digits(idx);
    // dimension 0 varies fastest
    let limit_class = al.limits[d[0] as usize];
    let wl_class = al.wl[d[1] as usize];
    let tip = al.tips[d[2] as usize];
    let gpb = al.gpb[d[3] as usize];
    let factor = al.factors[d[4] as usize];
    let price = al.prices[d[5] as usize];
    let shape = &env.shapes[d[6] as usize];
    let (sname, gc) = &env.scheds[d[7] as usize];

    let exact = with_tx!(&shape.tx, t => t.witnesses().size_dynamic() as u64);
    let wl = resolve_wl(wl_class, exact);
    let mut c = Cfg {
        schedule: sname.to_string(),
        shape: shape.name.to_string(),
        gas_price: price,
        gas_price_factor: factor,
        gas_per_byte: gpb,
        tip,
        witness_limit: wl,
        fee_limit: 0,
        used: vec![],
    };
    // probe gas (the value of the fee limit does not change the transaction size)
    let fp = fee_params(&c);
    let pol = policies(tip, wl, 0);
    let (mn, mx) = with_tx!(&shape.tx, t => {
        let t = with_policies(t, pol);
        (
            guard::catch_any(|| t.min_gas(gc, &fp)).unwrap_or(0),
            guard::catch_any(|| t.max_gas(gc, &fp)).unwrap_or(0),
        )
    });
    let t = tip.unwrap_or(0);
    let f = fee_exact(&big(mx), price, factor, t).to_u64().unwrap_or(MAX - 1);
    c.fee_limit = resolve_limit(limit_class, f);

    let mut used: Vec<u64> = (0..=al.small_used).collect();
    let mut around = |g: u64| {
        used.push(g.saturating_sub(1));
        used.push(g);
        used.push(g.saturating_add(1));
    };
    around(mx.saturating_sub(mn)); // a: gas available to execution
    if price > 0 && c.fee_limit >= t {
        // b: largest used gas with ceil((mn+b)*price/factor)+tip <= limit  <=>  mn+b <= floor((limit-tip)*factor/price)
        let (q, _) = big(c.fee_limit - t).mul(&big(factor)).divrem(&big(price));
        if q >= big(mn) {
            if let Some(b) = q.sub(&big(mn)).to_u64() {
                around(b);
            }
        }
    }
    around(MAX - mn); // s: last used gas for which min_gas+used is a u64
    used.push(MAX - 1);
    used.push(MAX);
    used.sort_unstable();
    used.dedup();
    c.used = used;
    c
}

// ------------------------------------------------------------------ driver

fn explore(ctx: &Ctx) {
    let env = env();
    let al = alphabets(ctx.thorough());
    let space = Product::new(&[
        al.limits.len() as u64,
        al.wl.len() as u64,
        al.tips.len() as u64,
        al.gpb.len() as u64,
        al.factors.len() as u64,
        al.prices.len() as u64,
        env.shapes.len() as u64,
        env.scheds.len() as u64,
    ]);
    let n = space.size();
    ctx.rule(
        "full product schedule x shape x price x factor x gas_per_byte x tip x witness limit x fee limit, each with the whole used-gas ladder; \
         every configuration calls min_gas, max_gas, min_fee, max_fee, checked_from_tx, refund_fee (per ladder entry) and, when into_checked_basic \
         accepts the transaction, into_ready. Non-trivial = at least one of checked_from_tx / refund_fee returned Some; distinct = distinct \
         (shape, schedule, complete observation vector)",
    );
    ctx.assume("vcore::oracle::Big (schoolbook multiply, shift-subtract division) is correct");
    ctx.assume("gas amounts are taken as reported by Chargeable::{min_gas,max_gas}; the statement fixes fees and refunds relative to them");
    ctx.assume("Checked values come from into_checked_basic under permissive consensus parameters (free costs, max_gas_per_tx = u64::MAX); into_ready itself receives the grid's costs and fee parameters");
    ctx.set(
        "alphabets",
        json!({
            "schedules": env.scheds.iter().map(|s| s.0).collect::<Vec<_>>(),
            "shapes": env.shapes.iter().map(|s| s.name).collect::<Vec<_>>(),
            "gas_price": al.prices, "gas_price_factor": al.factors, "gas_per_byte": al.gpb, "tip": al.tips,
            "witness_limit": al.wl, "fee_limit": al.limits,
            "used_gas": format!("0..={} u {{a-1,a,a+1}} u {{b-1,b,b+1}} u {{s-1,s,s+1}} u {{u64::MAX-1,u64::MAX}} (a=max_gas-min_gas, b=break-even, s=u64::MAX-min_gas)", al.small_used),
            "note": "F = exact max fee clamped to u64; derived points may coincide with fixed ones (duplicates are evaluated again, not skipped)",
        }),
    );
    ctx.set(
        "shape_details",
        Value::Array(
            env.shapes
                .iter()
                .map(|s| {
                    with_tx!(&s.tx, t => json!({
                        "shape": s.name, "kind": s.kind,
                        "witnesses": t.witnesses().len(),
                        "witness_bytes_dynamic": t.witnesses().size_dynamic(),
                        "inputs": fuel_tx::field::Inputs::inputs(t).len(),
                        "metered_bytes_without_policies": t.metered_bytes_size(),
                    }))
                })
                .collect(),
        ),
    );
    ctx.set(
        "dont_care",
        json!([
            "which CheckError into_ready returns when it refuses (InsufficientMaxFee or BalanceOverflow)",
            "contents of Ready",
            "how min_gas/max_gas themselves are metered (only their order and the fees derived from them are checked)",
            "into_ready for configurations that into_checked_basic refuses (witness limit below witness size)",
            "refund_fee returning None when min_gas+used exceeds u64::MAX (a Some must still be the exact value)"
        ]),
    );
    ctx.set("grid_points", json!(n));

    let capped = AtomicBool::new(false);
    let mut total = Acc::new();
    let mut ladder_total = 0u64;
    par_chunks(
        n,
        1024,
        || (Acc::new(), 0u64),
        |idx, (acc, ladder)| {
            if capped.load(Ordering::Relaxed) {
                return
            }
            if idx % 1024 == 0 && ctx.out_of_time() {
                capped.store(true, Ordering::Relaxed);
                return
            }
            let c = cfg_at(&env, &al, &space, idx);
            let mut local: Vec<(String, String, Value)> = vec![];
            let o = check_cfg(&env, &c, acc, &mut |k, w, case| local.push((k, w, case)));
            for (k, w, case) in local {
                if acc.seen_keys.insert(k.clone()) {
                    acc.viols.push((k, w, case));
                } else {
                    *acc.more.entry(k).or_insert(0) += 1;
                }
            }
            acc.evals += 1;
            *ladder += c.used.len() as u64;
            let some_refund = o.refunds.iter().any(|r| matches!(r, Ok(Some(_))));
            let nontrivial = some_refund || matches!(o.tf, Ok(Some(_)));
            if nontrivial {
                acc.fps.insert(hash64(&(&c.shape, &c.schedule, &o)));
            }
            // a few written-out cases: a priced configuration with both refunded and exhausted ladder entries that reached into_ready
            if acc.samples.is_empty()
                && c.gas_price >= 1
                && o.refunds.iter().any(|r| matches!(r, Ok(Some(v)) if *v > 0))
                && o.refunds.iter().any(|r| matches!(r, Ok(None)))
                && matches!(o.ready, Ok(Ok(_)))
                && matches!(o.tf, Ok(Some(_)))
            {
                acc.samples.push(json!({
                    "config": c,
                    "min_gas": o.min_gas, "max_gas": o.max_gas,
                    "min_fee": o.min_fee.as_ref().map(|v| v.to_string()), "max_fee": o.max_fee.as_ref().map(|v| v.to_string()),
                    "checked_from_tx(min_fee,max_fee,min_gas,max_gas)": o.tf,
                    "refund_fee(used)": c.used.iter().zip(&o.refunds).map(|(u, r)| json!([u, r])).collect::<Vec<_>>(),
                    "into_ready": o.ready,
                }));
            }
        },
        |(acc, ladder)| {
            ladder_total += ladder;
            total.evals += acc.evals;
            for (i, c) in acc.counts.iter().enumerate() {
                total.counts[i] += c;
            }
            for (k, v) in acc.per_shape_ready {
                *total.per_shape_ready.entry(k).or_insert(0) += v;
            }
            ctx.fps_merge(acc.fps);
            // chunks are merged in index order, so the recorded case of a key is its lowest grid index
            for (k, w, case) in acc.viols {
                ctx.violation(k, w, case);
            }
            for (k, cnt) in acc.more {
                for _ in 0..cnt {
                    ctx.violation(k.clone(), String::new(), Value::Null);
                }
            }
            for s in acc.samples {
                total.samples.push(s);
            }
        },
    );
    if capped.load(Ordering::Relaxed) {
        ctx.cap(format!("time budget reached after {} of {n} grid points", total.evals));
    }
    ctx.evals(total.evals);
    for (i, c) in total.counts.iter().enumerate() {
        ctx.outcome(LABELS[i], *c);
    }
    ctx.set("configurations_evaluated", json!(total.evals));
    ctx.set("refund_fee_calls", json!(ladder_total));
    ctx.set("into_ready_calls_per_shape", json!(total.per_shape_ready));
    let k = total.samples.len();
    if k > 0 {
        for j in 0..8usize.min(k) {
            ctx.sample(total.samples[j * k / 8usize.min(k)].clone());
        }
    }
}

fn replay(case: &Value, ctx: &Ctx) {
    let env = env();
    let c: Cfg = serde_json::from_value(case.clone()).expect("replay case is a Cfg");
    let mut acc = Acc::new();
    check_cfg(&env, &c, &mut acc, &mut |k, w, case| ctx.violation(k, w, case));
}

fn main() {
    run_check("C18", Level::Exploration, explore, replay)
}
